//! C17 — accelerated lookups and section plumbing agree with exhaustive scans.
//! Implementation side of the line protocol + direct oracle + generators.
//!
//! The generator builds every table from an *abstract* value (list of (id,row) pairs, matrices,
//! tuple lists, name lists …) with its own serialiser and its own insertion routine, and sends
//! along what a linear scan of that abstract value yields (`exp` argument).  The handler compares
//! the real crate's answer with it (`#oracle:…`); the Lean Model ignores `exp`.
use crate::prop::{Ctx, Tier};
use crate::readers::{ops_done, set_fail_at, FailReader};
use crate::util::{hex, rerr, unhex, Rng};
use gimli::{EndianSlice, Reader, RunTimeEndian};

fn endian(e: &str) -> Option<RunTimeEndian> {
    match e {
        "le" => Some(RunTimeEndian::Little),
        "be" => Some(RunTimeEndian::Big),
        _ => None,
    }
}

fn join(sep: &str, xs: &[String]) -> String {
    if xs.is_empty() { "-".into() } else { xs.join(sep) }
}

fn nat_list(s: &str) -> Option<Vec<u64>> {
    if s == "-" {
        return Some(vec![]);
    }
    s.split(',').map(|t| t.parse::<u64>().ok()).collect()
}

fn with_oracle(s: String, o: Option<String>) -> String {
    match o {
        Some(w) => format!("{s} #oracle:{w}"),
        None => s,
    }
}

fn fmt_s(f: gimli::Format) -> &'static str {
    match f {
        gimli::Format::Dwarf32 => "32",
        gimli::Format::Dwarf64 => "64",
    }
}

// ------------------------------------------------------------------ index

fn kind_name(k: gimli::IndexSectionId) -> String {
    format!("{:?}", k)
}

fn cols_s<R: Reader>(it: gimli::UnitIndexSectionIterator<'_, R>) -> String {
    let v: Vec<String> = it.map(|s| format!("{}:{}:{}", kind_name(s.section), s.offset, s.size)).collect();
    join(",", &v)
}

fn parse_index<'a>(which: &str, bs: &'a [u8], e: RunTimeEndian) -> gimli::Result<gimli::UnitIndex<FailReader<'a>>> {
    // `.debug_cu_index` and `.debug_tu_index` share `UnitIndex::parse`; use both entry points
    if which == "tu" {
        gimli::DebugTuIndex::from(FailReader::new(bs, e)).index()
    } else {
        gimli::DebugCuIndex::from(FailReader::new(bs, e)).index()
    }
}

fn h_index(op: &str, a: &[&str]) -> Option<String> {
    match (op, a) {
        ("ix-parse", [e, h]) => {
            let e = endian(e)?;
            let bs = unhex(h)?;
            set_fail_at(None);
            let r = parse_index(if bs.len() % 2 == 0 { "cu" } else { "tu" }, &bs, e);
            Some(match r {
                Ok(ix) => {
                    // the column kinds are only observable through `sections(1)`
                    let kinds = match ix.sections(1) {
                        Ok(it) => join(",", &it.map(|s| kind_name(s.section)).collect::<Vec<_>>()),
                        Err(_) => "?".into(),
                    };
                    format!("ok {} {} {} {} {}", ix.version(), ix.section_count(), ix.unit_count(), ix.slot_count(), kinds)
                }
                Err(x) => format!("err {}", rerr(&x)),
            })
        }
        ("ix-find", [e, h, ids, exp]) => {
            let e = endian(e)?;
            let bs = unhex(h)?;
            let ids = nat_list(ids)?;
            set_fail_at(None);
            let r = parse_index("cu", &bs, e);
            Some(match r {
                Ok(ix) => {
                    let exps: Vec<&str> = if *exp == "-" { vec![] } else { exp.split(',').collect() };
                    let mut bad = None;
                    let mut out = Vec::new();
                    for (i, id) in ids.iter().enumerate() {
                        set_fail_at(None);
                        let r = ix.find(*id);
                        let ops = ops_done();
                        // every probe is one `skip` + one `read_u64`; a hit adds `skip` + `read_u32`
                        let probes = (ops - if r.is_some() { 2 } else { 0 }) / 2;
                        let rs = r.map(|x| x.to_string()).unwrap_or("n".into());
                        if let Some(x) = exps.get(i) {
                            // (key 0 is the unused-slot marker: the scan never finds it, and since
                            // the repair of C17-1 neither may `find`)
                            if *x != "-" && *x != rs && bad.is_none() {
                                bad = Some(format!("find-differs id={id} scan={x} find={rs}"));
                            }
                        }
                        if probes > ix.slot_count() as u64 && bad.is_none() {
                            bad = Some(format!("find-probes id={id} probes={probes} slots={}", ix.slot_count()));
                        }
                        out.push(format!("{rs}:{probes}"));
                    }
                    with_oracle(format!("ok {}", join(",", &out)), bad)
                }
                Err(x) => format!("err {}", rerr(&x)),
            })
        }
        ("ix-sect", [e, h, rows, exp]) => {
            let e = endian(e)?;
            let bs = unhex(h)?;
            let rows = nat_list(rows)?;
            set_fail_at(None);
            let r = parse_index("tu", &bs, e);
            Some(match r {
                Ok(ix) => {
                    let out: Vec<String> = rows
                        .iter()
                        .map(|row| match ix.sections(*row as u32) {
                            Ok(it) => cols_s(it),
                            Err(x) => format!("!{}", rerr(&x)),
                        })
                        .collect();
                    let s = join(";", &out);
                    let bad = if *exp != "-" && *exp != s { Some(format!("sections-differ matrix={exp}")) } else { None };
                    with_oracle(format!("ok {s}"), bad)
                }
                Err(x) => format!("err {}", rerr(&x)),
            })
        }
        _ => None,
    }
}

// ------------------------------------------------------------------ aranges

/// per set (`;` separated), drop the entries after the first `!Error`
fn trunc_after_err(s: &str) -> String {
    s.split(';')
        .map(|set| match set.find('!') {
            Some(i) => {
                let end = set[i..].find(',').map(|j| i + j).unwrap_or(set.len());
                set[..end].to_string()
            }
            None => set.to_string(),
        })
        .collect::<Vec<_>>()
        .join(";")
}

fn h_aranges(op: &str, a: &[&str]) -> Option<String> {
    match (op, a) {
        ("ar", [e, h, exp]) => {
            let e = endian(e)?;
            let bs = unhex(h)?;
            let sec = gimli::DebugAranges::new(&bs, e);
            let mut it = sec.headers();
            let mut out = Vec::new();
            let cap = bs.len() + 2;
            for _ in 0..cap {
                match it.next() {
                    Ok(None) => break,
                    Err(x) => out.push(format!("!{}", rerr(&x))),
                    Ok(Some(hd)) => {
                        let enc = hd.encoding();
                        let mut ents = Vec::new();
                        let mut ei = hd.entries();
                        // the entry bytes are not observable; the cap mirrors the Model's
                        for _ in 0..cap {
                            match ei.next() {
                                Ok(None) => break,
                                Err(x) => ents.push(format!("!{}", rerr(&x))),
                                Ok(Some(en)) => ents.push(format!("{}-{}-{}", en.address(), en.range().end, en.length())),
                            }
                        }
                        out.push(format!(
                            "H:{}:{}:{}:{}:{}:{}={}",
                            hd.offset().0,
                            fmt_s(enc.format),
                            enc.version,
                            enc.address_size,
                            hd.length(),
                            hd.debug_info_offset().0,
                            join(",", &ents)
                        ));
                        // `DebugAranges::header(offset)` must give the same header
                        if let Ok(h2) = sec.header(hd.offset()) {
                            if h2 != hd {
                                return Some(format!("ok {} #oracle:header-at-offset-differs", join(";", &out)));
                            }
                        }
                    }
                }
            }
            let s = join(";", &out);
            // the oracle does not say what follows an error inside a set
            let bad = if *exp != "-" && trunc_after_err(exp) != trunc_after_err(&s) { Some(format!("aranges-differ scan={exp}")) } else { None };
            Some(with_oracle(format!("ok {s}"), bad))
        }
        _ => None,
    }
}

// ------------------------------------------------------------------ pubnames / pubtypes

fn h_pub(op: &str, a: &[&str]) -> Option<String> {
    match (op, a) {
        ("pub", [which, e, h, exp]) => {
            let e = endian(e)?;
            let bs = unhex(h)?;
            let cap = bs.len() + 2;
            let mut out = Vec::new();
            if *which == "types" {
                let sec = gimli::DebugPubTypes::new(&bs, e);
                let mut it = sec.items();
                for _ in 0..cap {
                    match it.next() {
                        Ok(None) => break,
                        Err(x) => out.push(format!("!{}", rerr(&x))),
                        Ok(Some(en)) => out.push(format!("{}:{}:{}", en.die_offset().0, hex(en.name().slice()), en.unit_header_offset().0)),
                    }
                }
            } else {
                let sec = gimli::DebugPubNames::new(&bs, e);
                let mut it = sec.items();
                for _ in 0..cap {
                    match it.next() {
                        Ok(None) => break,
                        Err(x) => out.push(format!("!{}", rerr(&x))),
                        Ok(Some(en)) => out.push(format!("{}:{}:{}", en.die_offset().0, hex(en.name().slice()), en.unit_header_offset().0)),
                    }
                }
            }
            let s = join(",", &out);
            let bad = if *exp != "-" && *exp != s { Some(format!("pub-differ scan={exp}")) } else { None };
            Some(with_oracle(format!("ok {s}"), bad))
        }
        _ => None,
    }
}

// ------------------------------------------------------------------ .debug_names

type Sl<'a> = EndianSlice<'a, RunTimeEndian>;

fn res_s<T>(r: gimli::Result<T>, f: impl Fn(T) -> String) -> String {
    match r {
        Ok(v) => f(v),
        Err(x) => format!("!{}", rerr(&x)),
    }
}

fn value_s(v: &gimli::NameAttributeValue<Sl<'_>>) -> String {
    match v {
        gimli::NameAttributeValue::Unsigned(v) => format!("u{v}"),
        gimli::NameAttributeValue::Offset(v) => format!("o{v}"),
        gimli::NameAttributeValue::Flag(b) => if *b { "f1".into() } else { "f0".into() },
    }
}

fn tu_s(t: gimli::NameTypeUnit<usize>) -> String {
    match t {
        gimli::NameTypeUnit::Local(o) => format!("L{}", o.0),
        gimli::NameTypeUnit::Foreign(s) => format!("F{}", s.0),
    }
}

fn entry_head_s(en: &gimli::NameEntry<Sl<'_>>) -> String {
    format!("{}.{}.{}", en.offset.0, en.abbrev_code, en.tag.0)
}

fn entry_s<'a>(ix: &gimli::NameIndex<Sl<'a>>, en: &gimli::NameEntry<Sl<'a>>) -> String {
    let attrs: Vec<String> = en.attrs.iter().map(|a| format!("{}.{}.{}", a.name().0, a.form().0, value_s(a.value()))).collect();
    let par = en.parent();
    let par_s = match &par {
        Ok(None) => "~".to_string(),
        Ok(Some(None)) => "N".to_string(),
        Ok(Some(Some(o))) => o.0.to_string(),
        Err(x) => format!("!{}", rerr(x)),
    };
    let chain = match par {
        Ok(Some(Some(off))) => format!(">{}", res_s(ix.name_entry(off), |p| entry_head_s(&p))),
        _ => String::new(),
    };
    format!(
        "{}({})cu={}/tu={}/die={}/par={}{}/th={}",
        entry_head_s(en),
        join("+", &attrs),
        res_s(en.compile_unit(ix), |v| v.map(|o| o.0.to_string()).unwrap_or("~".into())),
        res_s(en.type_unit(ix), |v| v.map(tu_s).unwrap_or("~".into())),
        res_s(en.die_offset(), |v| v.map(|o| o.0.to_string()).unwrap_or("~".into())),
        par_s,
        chain,
        res_s(en.type_hash(), |v| v.map(|o| o.to_string()).unwrap_or("~".into())),
    )
}

/// run an iterator's `next` to the first `Ok(None)` / error, at most `cap` calls
fn drain<T>(cap: usize, mut next: impl FnMut() -> gimli::Result<Option<T>>, f: impl Fn(T) -> String, stop_on_err: bool) -> String {
    let mut out = Vec::new();
    for _ in 0..cap {
        match next() {
            Ok(None) => break,
            Ok(Some(v)) => out.push(f(v)),
            Err(x) => {
                out.push(format!("!{}", rerr(&x)));
                if stop_on_err {
                    break;
                }
            }
        }
    }
    join(",", &out)
}

fn index_s<'a>(ix: &gimli::NameIndex<Sl<'a>>, dstr: &gimli::DebugStr<Sl<'a>>, hashes: &[u64], oob: bool) -> String {
    let extra = if oob { 1 } else { 0 };
    let upto = |n: u32| 0..(n as u64 + extra);
    let cu: Vec<String> = upto(ix.compile_unit_count()).map(|i| res_s(ix.compile_unit(i as u32), |o| o.0.to_string())).collect();
    let ltu: Vec<String> = upto(ix.local_type_unit_count()).map(|i| res_s(ix.local_type_unit(i as u32), |o| o.0.to_string())).collect();
    let ftu: Vec<String> = upto(ix.foreign_type_unit_count()).map(|i| res_s(ix.foreign_type_unit(i as u32), |o| o.0.to_string())).collect();
    let ntu = ix.local_type_unit_count() as u64 + ix.foreign_type_unit_count() as u64;
    let tu: Vec<String> = (0..ntu + extra).map(|i| res_s(ix.type_unit(i as u32), tu_s)).collect();
    let ab: Vec<String> = ix
        .abbreviations()
        .abbreviations()
        .iter()
        .map(|a| {
            let at: Vec<String> = a.attributes().iter().map(|x| format!("{}.{}", x.name().0, x.form().0)).collect();
            format!("{}:{}:{}", a.code(), a.tag().0, join("+", &at))
        })
        .collect();
    let cap = ix.name_count() as usize + 2;
    let bk: Vec<String> = upto(ix.bucket_count())
        .map(|b| {
            res_s(ix.find_by_bucket(b as u32), |it| match it {
                None => "~".to_string(),
                Some(mut it) => drain(cap, || it.next(), |(i, h)| format!("{}.{}", i.0, h), true),
            })
        })
        .collect();
    let nm: Vec<String> = upto(ix.name_count())
        .map(|i| {
            let idx = gimli::NameTableIndex(i as u32);
            let so = ix.name_string_offset(idx);
            let st = if so.is_ok() { res_s(ix.name_string(idx, dstr), |r| hex(r.slice())) } else { "!".to_string() };
            let ents = res_s(ix.name_entries(idx), |mut it| drain(usize::MAX, || it.next(), |en| entry_s(ix, &en), true));
            format!("{}:{}:E[{}]", res_s(so, |o| o.0.to_string()), st, ents)
        })
        .collect();
    let hq: Vec<String> = hashes
        .iter()
        .map(|h| format!("{}>{}", h, res_s(ix.find_by_hash(*h as u32), |mut it| drain(cap, || it.next(), |i| i.0.to_string(), true))))
        .collect();
    format!(
        "CU={}|LTU={}|FTU={}|TU={}|AB={}|BK={}|NM={}|HQ={}",
        join(",", &cu),
        join(",", &ltu),
        join(",", &ftu),
        join(",", &tu),
        join(",", &ab),
        join(";", &bk),
        join(";", &nm),
        join(";", &hq)
    )
}

fn djb_ascii(s: &[u8]) -> u32 {
    let mut h: u32 = 5381;
    for b in s {
        h = h.wrapping_mul(33).wrapping_add(b.to_ascii_lowercase() as u32);
    }
    h
}

/// producer-made tables (names hashed with the case-folding DJB hash): every name enumerated
/// linearly must be found through its hash and through its bucket, and whatever a hash lookup
/// returns must carry that hash
fn djb_selfcheck<'a>(sec: &gimli::DebugNames<Sl<'a>>, dstr: &gimli::DebugStr<Sl<'a>>) -> Option<String> {
    let mut it = sec.headers();
    while let Ok(Some(hd)) = it.next() {
        let Ok(ix) = hd.index() else { return Some("real-names index".into()) };
        if !ix.has_hash_table() {
            continue;
        }
        let n = ix.name_count();
        let strs: Vec<Option<Vec<u8>>> = (0..n).map(|i| ix.name_string(gimli::NameTableIndex(i), dstr).ok().map(|r| r.slice().to_vec())).collect();
        for (i, s) in strs.iter().enumerate() {
            let Some(s) = s else { return Some(format!("real-names string {i}")) };
            if !s.is_ascii() {
                continue;
            }
            let h = djb_ascii(s);
            let Ok(mut hi) = ix.find_by_hash(h) else { return Some("real-names find_by_hash".into()) };
            let mut found = false;
            for _ in 0..n + 2 {
                match hi.next() {
                    Ok(Some(j)) => {
                        if j.0 as usize == i {
                            found = true;
                        }
                        match &strs[j.0 as usize] {
                            Some(sj) if !sj.is_ascii() || djb_ascii(sj) == h => {}
                            _ => return Some(format!("real-names hash-lookup-returned-other-hash name={i} got={}", j.0)),
                        }
                    }
                    Ok(None) => break,
                    Err(_) => return Some("real-names hash iter error".into()),
                }
            }
            if !found {
                return Some(format!("real-names name-not-found-by-hash name={i} hash={h}"));
            }
            let b = h % ix.bucket_count();
            let mut in_bucket = false;
            if let Ok(Some(mut bi)) = ix.find_by_bucket(b) {
                for _ in 0..n + 2 {
                    match bi.next() {
                        Ok(Some((j, hj))) => {
                            if hj % ix.bucket_count() != b {
                                return Some("real-names bucket-yields-foreign-hash".into());
                            }
                            if j.0 as usize == i && hj == h {
                                in_bucket = true;
                            }
                        }
                        _ => break,
                    }
                }
            }
            if !in_bucket {
                return Some(format!("real-names name-not-in-bucket name={i}"));
            }
        }
    }
    None
}

fn h_names(op: &str, a: &[&str]) -> Option<String> {
    match (op, a) {
        ("nm" | "nm-oob", [e, h, st, hashes, exp]) => {
            let e = endian(e)?;
            let bs = unhex(h)?;
            let st = unhex(st)?;
            let hashes = nat_list(hashes)?;
            let sec = gimli::DebugNames::new(&bs, e);
            let dstr = gimli::DebugStr::new(&st, e);
            let mut it = sec.headers();
            let mut out = Vec::new();
            for _ in 0..bs.len() + 2 {
                match it.next() {
                    Ok(None) => break,
                    Err(x) => out.push(format!("!{}", rerr(&x))),
                    Ok(Some(hd)) => {
                        let aug = match hd.augmentation_string() {
                            Some(a) => hex(a.slice()),
                            None => "~".into(),
                        };
                        let head = format!(
                            "I{}:{}:{}:{}:{}:{}:{}:{}:{}:{}:{}",
                            hd.offset().0,
                            fmt_s(hd.format()),
                            hd.length(),
                            hd.version(),
                            hd.compile_unit_count(),
                            hd.local_type_unit_count(),
                            hd.foreign_type_unit_count(),
                            hd.bucket_count(),
                            hd.name_count(),
                            hd.abbrev_table_size(),
                            aug
                        );
                        out.push(format!("{}|{}", head, res_s(hd.index(), |ix| index_s(&ix, &dstr, &hashes, op == "nm-oob"))));
                    }
                }
            }
            let s = join("#", &out);
            let bad = if *exp == "djb" {
                djb_selfcheck(&sec, &dstr)
            } else if *exp != "-" && *exp != s {
                Some(format!("names-differ scan={exp}"))
            } else {
                None
            };
            Some(with_oracle(format!("ok {s}"), bad))
        }
        ("djb-ascii", [h]) => {
            let bs = unhex(h)?;
            let s = std::str::from_utf8(&bs).ok()?;
            let got = gimli::case_folding_djb_hash(s);
            // DWARF 5 §7.33 DJB hash over the lower-cased bytes
            let mut want: u32 = 5381;
            for b in &bs {
                want = want.wrapping_mul(33).wrapping_add(b.to_ascii_lowercase() as u32);
            }
            let bad = if bs.is_ascii() && want != got { Some(format!("djb-differs want={want}")) } else { None };
            Some(with_oracle(format!("ok {got}"), bad))
        }
        _ => None,
    }
}

// ------------------------------------------------------------------ loader wiring, package units

const ALL_IDS: &[gimli::SectionId] = &[
    gimli::SectionId::DebugAbbrev,
    gimli::SectionId::DebugAddr,
    gimli::SectionId::DebugAranges,
    gimli::SectionId::DebugCuIndex,
    gimli::SectionId::DebugFrame,
    gimli::SectionId::EhFrame,
    gimli::SectionId::EhFrameHdr,
    gimli::SectionId::DebugInfo,
    gimli::SectionId::DebugLine,
    gimli::SectionId::DebugLineStr,
    gimli::SectionId::DebugLoc,
    gimli::SectionId::DebugLocLists,
    gimli::SectionId::DebugMacinfo,
    gimli::SectionId::DebugMacro,
    gimli::SectionId::DebugNames,
    gimli::SectionId::DebugPubNames,
    gimli::SectionId::DebugPubTypes,
    gimli::SectionId::DebugRanges,
    gimli::SectionId::DebugRngLists,
    gimli::SectionId::DebugStr,
    gimli::SectionId::DebugStrOffsets,
    gimli::SectionId::DebugTuIndex,
    gimli::SectionId::DebugTypes,
];

/// one buffer holding a distinct marker (the section's ELF name) per `SectionId`, separated by
/// gaps so that no two markers are adjacent in memory
struct Markers {
    buf: Vec<u8>,
    at: Vec<(gimli::SectionId, usize, usize)>,
}
impl Markers {
    fn new() -> Markers {
        let mut buf = Vec::new();
        let mut at = Vec::new();
        for id in ALL_IDS {
            buf.extend_from_slice(&[0xee; 8]);
            let n = id.name().as_bytes();
            at.push((*id, buf.len(), n.len()));
            buf.extend_from_slice(n);
        }
        buf.extend_from_slice(&[0xee; 8]);
        Markers { buf, at }
    }
    fn get(&self, id: gimli::SectionId) -> Sl<'_> {
        let (_, o, l) = self.at.iter().find(|x| x.0 == id).unwrap();
        EndianSlice::new(&self.buf[*o..*o + *l], RunTimeEndian::Little)
    }
}

fn mark_s(r: &Sl<'_>) -> String {
    String::from_utf8_lossy(r.slice()).into_owned()
}

fn wiring() -> String {
    use gimli::Section;
    let m = Markers::new();
    let kv = |v: Vec<(&str, String)>| join(",", &v.into_iter().map(|(a, b)| format!("{a}={b}")).collect::<Vec<_>>());
    // --- DwarfSections::load
    let mut order: Vec<String> = Vec::new();
    let secs: gimli::DwarfSections<Sl<'_>> = gimli::DwarfSections::load(|id| -> Result<Sl<'_>, ()> {
        order.push(id.name().to_string());
        Ok(m.get(id))
    })
    .unwrap();
    let s = kv(vec![
        ("debug_abbrev", mark_s(secs.debug_abbrev.reader())),
        ("debug_addr", mark_s(secs.debug_addr.reader())),
        ("debug_aranges", mark_s(secs.debug_aranges.reader())),
        ("debug_info", mark_s(secs.debug_info.reader())),
        ("debug_line", mark_s(secs.debug_line.reader())),
        ("debug_line_str", mark_s(secs.debug_line_str.reader())),
        ("debug_macinfo", mark_s(secs.debug_macinfo.reader())),
        ("debug_macro", mark_s(secs.debug_macro.reader())),
        ("debug_names", mark_s(secs.debug_names.reader())),
        ("debug_str", mark_s(secs.debug_str.reader())),
        ("debug_str_offsets", mark_s(secs.debug_str_offsets.reader())),
        ("debug_types", mark_s(secs.debug_types.reader())),
        ("debug_loc", mark_s(secs.debug_loc.reader())),
        ("debug_loclists", mark_s(secs.debug_loclists.reader())),
        ("debug_ranges", mark_s(secs.debug_ranges.reader())),
        ("debug_rnglists", mark_s(secs.debug_rnglists.reader())),
    ]);
    // --- Dwarf::load (and the same through DwarfSections::borrow): slot -> marker
    let dwarf_slots = |d: &gimli::Dwarf<Sl<'_>>, m: &Markers| -> String {
        // `locations` has no accessors: find the marker each half answers for
        let loc_of = |want: gimli::SectionId| -> String {
            let mut found = Vec::new();
            for id in ALL_IDS {
                if let Some((sid, 0)) = d.locations.lookup_offset_id(m.get(*id).offset_id()) {
                    if sid == want {
                        found.push(id.name().to_string());
                    }
                }
            }
            if found.len() == 1 { found.remove(0) } else { format!("?{}", found.join("+")) }
        };
        kv(vec![
            ("debug_abbrev", mark_s(d.debug_abbrev.reader())),
            ("debug_addr", mark_s(d.debug_addr.reader())),
            ("debug_aranges", mark_s(d.debug_aranges.reader())),
            ("debug_info", mark_s(d.debug_info.reader())),
            ("debug_line", mark_s(d.debug_line.reader())),
            ("debug_line_str", mark_s(d.debug_line_str.reader())),
            ("debug_macinfo", mark_s(d.debug_macinfo.reader())),
            ("debug_macro", mark_s(d.debug_macro.reader())),
            ("debug_names", mark_s(d.debug_names.reader())),
            ("debug_str", mark_s(d.debug_str.reader())),
            ("debug_str_offsets", mark_s(d.debug_str_offsets.reader())),
            ("debug_types", mark_s(d.debug_types.reader())),
            ("locations.debug_loc", loc_of(gimli::SectionId::DebugLoc)),
            ("locations.debug_loclists", loc_of(gimli::SectionId::DebugLocLists)),
            ("ranges.debug_ranges", mark_s(d.ranges.debug_ranges().reader())),
            ("ranges.debug_rnglists", mark_s(d.ranges.debug_rnglists().reader())),
        ])
    };
    let dwarf: gimli::Dwarf<Sl<'_>> = gimli::Dwarf::load(|id| -> Result<Sl<'_>, ()> { Ok(m.get(id)) }).unwrap();
    let d = dwarf_slots(&dwarf, &m);
    // the borrow path: load owned offsets, borrow them as the marker slices
    let owned: gimli::DwarfSections<gimli::SectionId> = gimli::DwarfSections::load(|id| -> Result<gimli::SectionId, ()> { Ok(id) }).unwrap();
    let borrowed = owned.borrow(|id| m.get(*id));
    let d2 = dwarf_slots(&borrowed, &m);
    // the supplementary file: same table, found through `sup()` and flagged by lookup_offset_id
    let m2 = Markers::new();
    let mut with_sup: gimli::Dwarf<Sl<'_>> = gimli::Dwarf::load(|id| -> Result<Sl<'_>, ()> { Ok(m.get(id)) }).unwrap();
    with_sup.load_sup(|id| -> Result<Sl<'_>, ()> { Ok(m2.get(id)) }).unwrap();
    let d3 = dwarf_slots(with_sup.sup().unwrap(), &m2);
    let sup_ok = {
        // data really comes from the second buffer, and lookup flags it as supplementary
        let a = with_sup.sup().unwrap().debug_info.reader().offset_id();
        a == m2.get(gimli::SectionId::DebugInfo).offset_id() && matches!(with_sup.lookup_offset_id(a), Some((true, gimli::SectionId::DebugInfo, 0)))
    };
    // --- Dwarf::lookup_offset_id for every marker
    let l: Vec<String> = ALL_IDS
        .iter()
        .map(|id| {
            let r = dwarf.lookup_offset_id(m.get(*id).offset_id());
            format!("{}={}", id.name(), match r {
                Some((false, sid, 0)) => sid.name().to_string(),
                Some((sup, sid, off)) => format!("?{sup}/{}/{off}", sid.name()),
                None => "~".into(),
            })
        })
        .collect();
    // --- DwarfPackageSections::load
    let mut porder: Vec<String> = Vec::new();
    let pk: gimli::DwarfPackageSections<Sl<'_>> = gimli::DwarfPackageSections::load(|id| -> Result<Sl<'_>, gimli::Error> {
        porder.push(id.name().to_string());
        Ok(m.get(id))
    })
    .unwrap();
    let p = kv(vec![
        ("cu_index", mark_s(pk.cu_index.reader())),
        ("tu_index", mark_s(pk.tu_index.reader())),
        ("debug_abbrev", mark_s(pk.debug_abbrev.reader())),
        ("debug_info", mark_s(pk.debug_info.reader())),
        ("debug_line", mark_s(pk.debug_line.reader())),
        ("debug_macinfo", mark_s(pk.debug_macinfo.reader())),
        ("debug_macro", mark_s(pk.debug_macro.reader())),
        ("debug_str", mark_s(pk.debug_str.reader())),
        ("debug_str_offsets", mark_s(pk.debug_str_offsets.reader())),
        ("debug_loc", mark_s(pk.debug_loc.reader())),
        ("debug_loclists", mark_s(pk.debug_loclists.reader())),
        ("debug_rnglists", mark_s(pk.debug_rnglists.reader())),
        ("debug_types", mark_s(pk.debug_types.reader())),
    ]);
    let out = format!("S:{}|order={}|D:{}|L:{}|P:{}|porder={}", s, order.join(","), d, l.join(","), p, porder.join(","));
    // direct oracle, independent of the Model's tables: every slot holds the marker whose name is
    // the slot's own name; nothing is loaded twice
    let mut bad = None;
    for part in [&s, &d, &d2, &d3, &p] {
        for kvp in part.split(',') {
            let (k, v) = kvp.split_once('=').unwrap();
            let field = k.rsplit('.').next().unwrap();
            let want = match field {
                "cu_index" | "tu_index" => format!(".debug_{field}"),
                f => format!(".{f}"),
            };
            if want != v && bad.is_none() {
                bad = Some(format!("wrong-section slot={k} got={v}"));
            }
        }
    }
    if d != d2 && bad.is_none() {
        bad = Some("borrow-differs-from-load".to_string());
    }
    if !sup_ok && bad.is_none() {
        bad = Some("sup-not-wired".to_string());
    }
    let mut o2 = order.clone();
    o2.sort();
    o2.dedup();
    if o2.len() != order.len() && bad.is_none() {
        bad = Some("section-loaded-twice".to_string());
    }
    with_oracle(format!("ok {out}"), bad)
}

fn sec_of<'a>(secs: &'a [Vec<u8>], id: gimli::SectionId, cu: &'a [u8], tu: &'a [u8], st: &'a [u8]) -> &'a [u8] {
    use gimli::SectionId::*;
    // order of the `secs` argument: abbrev, info, line, loc, loclists, macinfo, macro, str_offsets, rnglists, types
    match id {
        DebugCuIndex => cu,
        DebugTuIndex => tu,
        DebugStr => st,
        DebugAbbrev => &secs[0],
        DebugInfo => &secs[1],
        DebugLine => &secs[2],
        DebugLoc => &secs[3],
        DebugLocLists => &secs[4],
        DebugMacinfo => &secs[5],
        DebugMacro => &secs[6],
        DebugStrOffsets => &secs[7],
        DebugRngLists => &secs[8],
        DebugTypes => &secs[9],
        _ => &[],
    }
}

/// the bytes of one half of `locations` (no accessor): probe `lookup_offset_id` over the package
/// section the slice must come from
fn loc_slice(d: &gimli::Dwarf<Sl<'_>>, want: gimli::SectionId, pkg: &[u8], e: RunTimeEndian) -> String {
    if pkg.is_empty() {
        // all empty vectors share one dangling address; a successful `dwp_range` of an empty
        // section can only be empty
        return "-".into();
    }
    let base = EndianSlice::new(pkg, e);
    let mut hits: Vec<usize> = Vec::new();
    for x in 0..=pkg.len() {
        let mut r = base;
        let _ = r.skip(x);
        if let Some((sid, _)) = d.locations.lookup_offset_id(r.offset_id()) {
            if sid == want {
                hits.push(x);
            }
        }
    }
    match (hits.first(), hits.last()) {
        (Some(a), Some(b)) => hex(&pkg[*a..*b]),
        _ => "?".into(),
    }
}

/// `row:s0,…,s9|extras` against an expectation in which `*` stands for "anything"
fn dwp_item_match(exp: &str, got: &str) -> bool {
    if exp == "*" || exp == got {
        return true;
    }
    let (Some((er, erest)), Some((gr, grest))) = (exp.split_once(':'), got.split_once(':')) else { return false };
    if er != "*" && er != gr {
        return false;
    }
    let (Some((es_, ex)), Some((gs, gx))) = (erest.split_once('|'), grest.split_once('|')) else { return false };
    if ex != "*" && ex != gx {
        return false;
    }
    let e: Vec<&str> = es_.split(',').collect();
    let g: Vec<&str> = gs.split(',').collect();
    e.len() == g.len() && e.iter().zip(g.iter()).all(|(a, b)| *a == "*" || a == b)
}

fn h_loader(op: &str, a: &[&str]) -> Option<String> {
    match (op, a) {
        ("load-wiring", []) => Some(wiring()),
        ("dwp", [e, cu, tu, secs, st, ids, exp]) => {
            use gimli::Section;
            let e = endian(e)?;
            let cu = unhex(cu)?;
            let tu = unhex(tu)?;
            let st = unhex(st)?;
            let secs: Vec<Vec<u8>> = secs.split(',').map(unhex).collect::<Option<Vec<_>>>()?;
            if secs.len() != 10 {
                return None;
            }
            let empty = EndianSlice::new(&[][..], e);
            let dwp = gimli::DwarfPackage::load(|id| -> Result<Sl<'_>, gimli::Error> { Ok(EndianSlice::new(sec_of(&secs, id, &cu, &tu, &st), e)) }, empty);
            let dwp = match dwp {
                Ok(d) => d,
                Err(x) => return Some(format!("err {}", rerr(&x))),
            };
            let mut parent: gimli::Dwarf<Sl<'_>> = gimli::Dwarf::default();
            parent.debug_addr = gimli::DebugAddr::from(EndianSlice::new(&b"ADDR"[..], e));
            parent.ranges = gimli::RangeLists::new(gimli::DebugRanges::from(EndianSlice::new(&b"RANGES"[..], e)), gimli::DebugRngLists::from(EndianSlice::new(&b"no"[..], e)));
            let mut out = Vec::new();
            for t in ids.split(',') {
                let (kind, id) = t.split_at(1);
                let id: u64 = id.parse().ok()?;
                let (ix, r) = if kind == "c" { (&dwp.cu_index, dwp.find_cu(gimli::DwoId(id), &parent)) } else { (&dwp.tu_index, dwp.find_tu(gimli::DebugTypeSignature(id), &parent)) };
                out.push(match r {
                    Ok(None) => "n".to_string(),
                    Err(x) => format!("!{}", rerr(&x)),
                    Ok(Some(d)) => {
                        let row = ix.find(id).map(|r| r.to_string()).unwrap_or("?".into());
                        let h = |r: &Sl<'_>| hex(r.slice());
                        let sl = vec![
                            h(d.debug_abbrev.reader()),
                            h(d.debug_info.reader()),
                            h(d.debug_line.reader()),
                            loc_slice(&d, gimli::SectionId::DebugLoc, &secs[3], e),
                            loc_slice(&d, gimli::SectionId::DebugLocLists, &secs[4], e),
                            h(d.debug_macinfo.reader()),
                            h(d.debug_macro.reader()),
                            h(d.debug_str_offsets.reader()),
                            h(d.ranges.debug_rnglists().reader()),
                            h(d.debug_types.reader()),
                        ];
                        let ex = vec![
                            h(d.debug_addr.reader()),
                            h(d.ranges.debug_ranges().reader()),
                            h(d.debug_str.reader()),
                            h(d.debug_aranges.reader()),
                            h(d.debug_line_str.reader()),
                            h(d.debug_names.reader()),
                        ];
                        format!("{}:{}|{}", row, sl.join(","), ex.join(","))
                    }
                });
            }
            let s = join(";", &out);
            let matches = {
                let ex: Vec<&str> = exp.split(';').collect();
                ex.len() == out.len() && ex.iter().zip(out.iter()).all(|(a, b)| dwp_item_match(a, b))
            };
            let bad = if *exp != "-" && !matches { Some(format!("dwp-unit-differs standalone={exp}")) } else { None };
            Some(with_oracle(format!("ok {s}"), bad))
        }
        ("attr", [e, f, asz, sob, ab, st, lst, so, ad, sup, kind, val, exp]) => {
            let e = endian(e)?;
            let f64_ = match *f {
                "32" => false,
                "64" => true,
                _ => return None,
            };
            let asz: u8 = asz.parse().ok()?;
            let sob: u64 = sob.parse().ok()?;
            let ab: u64 = ab.parse().ok()?;
            let (st, lst, so, ad) = (unhex(st)?, unhex(lst)?, unhex(so)?, unhex(ad)?);
            let supb = if *sup == "~" { None } else { Some(unhex(sup)?) };
            // a minimal DWARF 5 compile unit whose root DIE carries the two bases
            let big = e == RunTimeEndian::Big;
            let abbrev: Vec<u8> = vec![1, 0x11, 0, 0x72, 0x17, 0x73, 0x17, 0, 0, 0];
            let mut body = W::new(big);
            body.u16(5);
            body.u8(1);
            body.u8(asz);
            body.word(0, f64_);
            body.u8(1);
            body.word(sob, f64_);
            body.word(ab, f64_);
            let mut info = W::new(big);
            info.initial_length(body.b.len() as u64, f64_);
            info.bytes(&body.b);
            let mut dwarf: gimli::Dwarf<Sl<'_>> = gimli::Dwarf::default();
            dwarf.debug_info = gimli::DebugInfo::new(&info.b, e);
            dwarf.debug_abbrev = gimli::DebugAbbrev::new(&abbrev, e);
            dwarf.debug_str = gimli::DebugStr::new(&st, e);
            dwarf.debug_line_str = gimli::DebugLineStr::new(&lst, e);
            dwarf.debug_str_offsets = gimli::DebugStrOffsets::from(EndianSlice::new(&so[..], e));
            dwarf.debug_addr = gimli::DebugAddr::from(EndianSlice::new(&ad[..], e));
            if let Some(sb) = &supb {
                let mut sd: gimli::Dwarf<Sl<'_>> = gimli::Dwarf::default();
                sd.debug_str = gimli::DebugStr::new(sb, e);
                dwarf.set_sup(sd);
            }
            let hd = match dwarf.units().next() {
                Ok(Some(h)) => h,
                _ => return Some("panic harness: unit header".into()),
            };
            let unit = match dwarf.unit(hd) {
                Ok(u) => u,
                Err(_) => return Some("panic harness: unit".into()),
            };
            if unit.str_offsets_base.0 as u64 != sob || unit.addr_base.0 as u64 != ab {
                return Some("panic harness: bases".into());
            }
            let inline;
            let av: gimli::AttributeValue<Sl<'_>> = match *kind {
                "string" => {
                    inline = unhex(val)?;
                    gimli::AttributeValue::String(EndianSlice::new(&inline, e))
                }
                "strp" => gimli::AttributeValue::DebugStrRef(gimli::DebugStrOffset(val.parse().ok()?)),
                "strpsup" => gimli::AttributeValue::DebugStrRefSup(gimli::DebugStrOffset(val.parse().ok()?)),
                "linestrp" => gimli::AttributeValue::DebugLineStrRef(gimli::DebugLineStrOffset(val.parse().ok()?)),
                "strx" => gimli::AttributeValue::DebugStrOffsetsIndex(gimli::DebugStrOffsetsIndex(val.parse().ok()?)),
                "addr" => gimli::AttributeValue::Addr(val.parse().ok()?),
                "addrx" => gimli::AttributeValue::DebugAddrIndex(gimli::DebugAddrIndex(val.parse().ok()?)),
                "udata" => gimli::AttributeValue::Udata(val.parse().ok()?),
                "flag" => gimli::AttributeValue::Flag(*val != "0"),
                _ => return None,
            };
            let sres = res_s(dwarf.attr_string(&unit, av.clone()), |r| hex(r.slice()));
            let ares = res_s(dwarf.attr_address(&unit, av.clone()), |r| r.map(|x| x.to_string()).unwrap_or("~".into()));
            // the `UnitRef` wrappers must dispatch identically
            let ur = unit.unit_ref(&dwarf);
            let sres2 = res_s(ur.attr_string(av.clone()), |r| hex(r.slice()));
            let ares2 = res_s(ur.attr_address(av), |r| r.map(|x| x.to_string()).unwrap_or("~".into()));
            let out = format!("s={sres}|a={ares}");
            let mut bad = if *exp != "-" && *exp != out { Some(format!("attr-differs table={exp}")) } else { None };
            if (sres != sres2 || ares != ares2) && bad.is_none() {
                bad = Some("unitref-differs".into());
            }
            Some(with_oracle(format!("ok {out}"), bad))
        }
        ("ub", [e, f, ver, ft, asz, attrs, st, so, ad, nidx, exp]) => {
            use gimli::Section;
            let e = endian(e)?;
            let big = e == RunTimeEndian::Big;
            let f64_ = match *f {
                "32" => false,
                "64" => true,
                _ => return None,
            };
            let ver: u16 = ver.parse().ok()?;
            if ver != 4 && ver != 5 {
                return None;
            }
            let asz: u8 = asz.parse().ok()?;
            let nidx: usize = nidx.parse().ok()?;
            let (st, so, ad) = (unhex(st)?, unhex(so)?, unhex(ad)?);
            let attrs: Vec<(u64, u64)> = if *attrs == "-" {
                vec![]
            } else {
                attrs.split(',').map(|t| t.split_once(':').and_then(|(a, b)| Some((a.parse().ok()?, b.parse().ok()?)))).collect::<Option<Vec<_>>>()?
            };
            // a real unit: one root DIE carrying exactly the given base attributes (DW_FORM_sec_offset)
            let mut abbrev: Vec<u8> = vec![1, 0x11, 0];
            for (at, _) in &attrs {
                uleb(*at, &mut abbrev);
                abbrev.push(0x17);
            }
            abbrev.extend_from_slice(&[0, 0, 0]);
            let dwo_id: u64 = 0x1122_3344_5566_7788;
            let split = *ft != "main";
            let mut body = W::new(big);
            body.u16(ver);
            if ver == 5 {
                body.u8(if split { 5 } else { 1 });
                body.u8(asz);
                body.word(0, f64_);
                if split {
                    body.u64(dwo_id);
                }
            } else {
                body.word(0, f64_);
                body.u8(asz);
            }
            body.u8(1);
            for (_, v) in &attrs {
                body.word(*v, f64_);
            }
            let mut info = W::new(big);
            info.initial_length(body.b.len() as u64, f64_);
            info.bytes(&body.b);
            let info = info.b;
            let mut dwarf: gimli::Dwarf<Sl<'_>>;
            let cu_bytes;
            match *ft {
                "main" | "dwo" => {
                    dwarf = gimli::Dwarf::default();
                    dwarf.debug_info = gimli::DebugInfo::new(&info, e);
                    dwarf.debug_abbrev = gimli::DebugAbbrev::new(&abbrev, e);
                    dwarf.debug_str = gimli::DebugStr::new(&st, e);
                    dwarf.debug_str_offsets = gimli::DebugStrOffsets::from(EndianSlice::new(&so[..], e));
                    dwarf.debug_addr = gimli::DebugAddr::from(EndianSlice::new(&ad[..], e));
                    if *ft == "dwo" {
                        dwarf.file_type = gimli::DwarfFileType::Dwo;
                    }
                }
                "dwp" => {
                    // the same unit fetched from a package whose only unit covers the whole sections
                    let ix = AbsIndex {
                        version: if ver == 5 { 5 } else { 2 },
                        k: Some(1),
                        kvs: vec![(dwo_id, 1)],
                        cols: vec![1, 3, 6],
                        unit_count: 1,
                        offsets: vec![vec![0, 0, 0]],
                        sizes: vec![vec![info.len() as u32, abbrev.len() as u32, so.len() as u32]],
                    };
                    let slots = build_slots(1, &ix.kvs)?;
                    cu_bytes = ser_index(&ix, big, &slots, 2, None, 0);
                    let empty = EndianSlice::new(&[][..], e);
                    let dwp = gimli::DwarfPackage::load(
                        |id| -> Result<Sl<'_>, gimli::Error> {
                            Ok(EndianSlice::new(
                                match id {
                                    gimli::SectionId::DebugCuIndex => &cu_bytes[..],
                                    gimli::SectionId::DebugInfo => &info[..],
                                    gimli::SectionId::DebugAbbrev => &abbrev[..],
                                    gimli::SectionId::DebugStr => &st[..],
                                    gimli::SectionId::DebugStrOffsets => &so[..],
                                    _ => &[][..],
                                },
                                e,
                            ))
                        },
                        empty,
                    );
                    let dwp = match dwp {
                        Ok(d) => d,
                        Err(x) => return Some(format!("err {}", rerr(&x))),
                    };
                    let mut parent: gimli::Dwarf<Sl<'_>> = gimli::Dwarf::default();
                    parent.debug_addr = gimli::DebugAddr::from(EndianSlice::new(&ad[..], e));
                    match dwp.find_cu(gimli::DwoId(dwo_id), &parent) {
                        Ok(Some(d)) => dwarf = d,
                        Ok(None) => return Some("panic harness: unit not in package".into()),
                        Err(x) => return Some(format!("err {}", rerr(&x))),
                    }
                }
                _ => return None,
            }
            let hd = match dwarf.units().next() {
                Ok(Some(h)) => h,
                Ok(None) => return Some("panic harness: no unit".into()),
                Err(x) => return Some(format!("err {}", rerr(&x))),
            };
            let unit = match dwarf.unit(hd) {
                Ok(u) => u,
                Err(x) => return Some(format!("err {}", rerr(&x))),
            };
            let b = format!("{}:{}:{}:{}", unit.str_offsets_base.0, unit.addr_base.0, unit.loclists_base.0, unit.rnglists_base.0);
            let sv: Vec<String> = (0..nidx).map(|i| res_s(dwarf.string_offset(&unit, gimli::DebugStrOffsetsIndex(i)), |o| o.0.to_string())).collect();
            let tv: Vec<String> = (0..nidx)
                .map(|i| res_s(dwarf.attr_string(&unit, gimli::AttributeValue::DebugStrOffsetsIndex(gimli::DebugStrOffsetsIndex(i))), |r| hex(r.slice())))
                .collect();
            let av: Vec<String> = (0..nidx).map(|i| res_s(dwarf.address(&unit, gimli::DebugAddrIndex(i)), |v| v.to_string())).collect();
            let parts = [format!("B={b}"), format!("S={}", join(",", &sv)), format!("T={}", join(",", &tv)), format!("A={}", join(",", &av))];
            let out = parts.join("|");
            let mut bad = None;
            if *exp != "-" {
                let ex: Vec<&str> = exp.split('|').collect();
                if ex.len() != 4 {
                    return None;
                }
                for (want, got) in ex.iter().zip(parts.iter()) {
                    if &want[2..] != "*" && *want != got.as_str() && bad.is_none() {
                        bad = Some(format!("unit-table-differs written={want} read={got}"));
                    }
                }
            }
            let _ = dwarf.debug_info.reader();
            Some(with_oracle(format!("ok {out}"), bad))
        }
        ("sk", [e, f, ver, via, asz, skattrs, sklow, rng, loc, nidx, raw, exp]) => {
            use gimli::Section;
            let e = endian(e)?;
            let big = e == RunTimeEndian::Big;
            let f64_ = match *f {
                "32" => false,
                "64" => true,
                _ => return None,
            };
            let ver: u16 = ver.parse().ok()?;
            if ver != 4 && ver != 5 {
                return None;
            }
            let asz: u8 = asz.parse().ok()?;
            let nidx: usize = nidx.parse().ok()?;
            let raw: usize = raw.parse().ok()?;
            let (rng, loc) = (unhex(rng)?, unhex(loc)?);
            let skattrs: Vec<(u64, u64)> = if *skattrs == "-" {
                vec![]
            } else {
                skattrs.split(',').map(|t| t.split_once(':').and_then(|(a, b)| Some((a.parse().ok()?, b.parse().ok()?)))).collect::<Option<Vec<_>>>()?
            };
            let sklow: Option<u64> = if *sklow == "-" { None } else { Some(sklow.parse().ok()?) };
            let dwo_id: u64 = 0x0102_0304_0506_0708;
            // one-DIE unit: header, abbreviation code 1, attribute values
            let mk_unit = |unit_type: u8, lowpc: Option<u64>, attrs: &[(u64, u64)]| -> (Vec<u8>, Vec<u8>) {
                let mut abbrev: Vec<u8> = vec![1, if unit_type == 4 { 0x4a } else { 0x11 }, 0];
                if lowpc.is_some() {
                    abbrev.extend_from_slice(&[0x11, 0x01]);
                }
                for (at, _) in attrs {
                    uleb(*at, &mut abbrev);
                    abbrev.push(0x17);
                }
                abbrev.extend_from_slice(&[0, 0, 0]);
                let mut body = W::new(big);
                body.u16(ver);
                if ver == 5 {
                    body.u8(unit_type);
                    body.u8(asz);
                    body.word(0, f64_);
                    body.u64(dwo_id);
                } else {
                    body.word(0, f64_);
                    body.u8(asz);
                }
                body.u8(1);
                if let Some(l) = lowpc {
                    body.uint(l, asz as usize);
                }
                for (_, v) in attrs {
                    body.word(*v, f64_);
                }
                let mut info = W::new(big);
                info.initial_length(body.b.len() as u64, f64_);
                info.bytes(&body.b);
                (info.b, abbrev)
            };
            let (sk_info, sk_abbrev) = mk_unit(4, sklow, &skattrs);
            let (sp_info, sp_abbrev) = mk_unit(5, None, &[]);
            let mut parent: gimli::Dwarf<Sl<'_>> = gimli::Dwarf::default();
            parent.debug_info = gimli::DebugInfo::new(&sk_info, e);
            parent.debug_abbrev = gimli::DebugAbbrev::new(&sk_abbrev, e);
            parent.debug_addr = gimli::DebugAddr::from(EndianSlice::new(&b"ADDR"[..], e));
            parent.ranges = gimli::RangeLists::new(gimli::DebugRanges::from(EndianSlice::new(&b"RANGES"[..], e)), gimli::DebugRngLists::from(EndianSlice::new(&b"main-rnglists-of-the-skeleton-file"[..], e)));
            let sk_unit = match parent.units().next().and_then(|h| h.ok_or(gimli::Error::MissingUnitDie)).and_then(|h| parent.unit(h)) {
                Ok(u) => u,
                Err(x) => return Some(format!("err {}", rerr(&x))),
            };
            let cu_bytes;
            let (pk_rng, pk_loc);
            let dwo: gimli::Dwarf<Sl<'_>> = match *via {
                "dwo" => {
                    let mut d: gimli::Dwarf<Sl<'_>> = gimli::Dwarf::default();
                    d.debug_info = gimli::DebugInfo::new(&sp_info, e);
                    d.debug_abbrev = gimli::DebugAbbrev::new(&sp_abbrev, e);
                    d.ranges = gimli::RangeLists::new(gimli::DebugRanges::from(EndianSlice::new(&b"own"[..], e)), gimli::DebugRngLists::from(EndianSlice::new(&rng[..], e)));
                    d.locations = gimli::LocationLists::new(gimli::DebugLoc::from(EndianSlice::new(&[][..], e)), gimli::DebugLocLists::from(EndianSlice::new(&loc[..], e)));
                    d.make_dwo(&parent);
                    d
                }
                "dwp" => {
                    // our contributions are not the first ones of the package sections
                    pk_rng = [&b"earlier-unit-rng"[..], &rng[..], &b"later"[..]].concat();
                    pk_loc = [&b"earlier-loc"[..], &loc[..], &b"later-unit"[..]].concat();
                    let v5 = ver == 5;
                    let ix = AbsIndex {
                        version: if v5 { 5 } else { 2 },
                        k: Some(1),
                        kvs: vec![(dwo_id, 1)],
                        cols: if v5 { vec![1, 3, 5, 8] } else { vec![1, 3] },
                        unit_count: 1,
                        offsets: vec![if v5 { vec![0, 0, 11, 16] } else { vec![0, 0] }],
                        sizes: vec![if v5 { vec![sp_info.len() as u32, sp_abbrev.len() as u32, loc.len() as u32, rng.len() as u32] } else { vec![sp_info.len() as u32, sp_abbrev.len() as u32] }],
                    };
                    let slots = build_slots(1, &ix.kvs)?;
                    cu_bytes = ser_index(&ix, big, &slots, 2, None, 0);
                    let empty = EndianSlice::new(&[][..], e);
                    let dwp = gimli::DwarfPackage::load(
                        |id| -> Result<Sl<'_>, gimli::Error> {
                            Ok(EndianSlice::new(
                                match id {
                                    gimli::SectionId::DebugCuIndex => &cu_bytes[..],
                                    gimli::SectionId::DebugInfo => &sp_info[..],
                                    gimli::SectionId::DebugAbbrev => &sp_abbrev[..],
                                    gimli::SectionId::DebugRngLists => &pk_rng[..],
                                    gimli::SectionId::DebugLocLists => &pk_loc[..],
                                    _ => &[][..],
                                },
                                e,
                            ))
                        },
                        empty,
                    );
                    let dwp = match dwp {
                        Ok(d) => d,
                        Err(x) => return Some(format!("err {}", rerr(&x))),
                    };
                    match dwp.find_cu(gimli::DwoId(dwo_id), &parent) {
                        Ok(Some(d)) => d,
                        Ok(None) => return Some("panic harness: unit not in package".into()),
                        Err(x) => return Some(format!("err {}", rerr(&x))),
                    }
                }
                _ => return None,
            };
            let mut unit = match dwo.units().next().and_then(|h| h.ok_or(gimli::Error::MissingUnitDie)).and_then(|h| dwo.unit(h)) {
                Ok(u) => u,
                Err(x) => return Some(format!("err {}", rerr(&x))),
            };
            // the documented skeleton hand-over
            unit.copy_relocated_attributes(&sk_unit);
            let b = format!("{}:{}:{}:{}:{}", unit.str_offsets_base.0, unit.addr_base.0, unit.loclists_base.0, unit.rnglists_base.0, unit.low_pc);
            let rv: Vec<String> = (0..nidx).map(|i| res_s(dwo.ranges_offset(&unit, gimli::DebugRngListsIndex(i)), |o| o.0.to_string())).collect();
            let lv: Vec<String> = (0..nidx).map(|i| res_s(dwo.locations_offset(&unit, gimli::DebugLocListsIndex(i)), |o| o.0.to_string())).collect();
            let w = dwo.ranges_offset_from_raw(&unit, gimli::RawRangeListsOffset(raw)).0;
            let d = format!("{},{}", hex(dwo.debug_addr.reader().slice()), hex(dwo.ranges.debug_ranges().reader().slice()));
            let parts = [format!("B={b}"), format!("R={}", join(",", &rv)), format!("L={}", join(",", &lv)), format!("W={w}"), format!("D={d}")];
            let out = parts.join("|");
            let mut bad = None;
            if *exp != "-" {
                let ex: Vec<&str> = exp.split('|').collect();
                if ex.len() != parts.len() {
                    return None;
                }
                for (want, got) in ex.iter().zip(parts.iter()) {
                    if &want[2..] != "*" && *want != got.as_str() && bad.is_none() {
                        bad = Some(format!("split-unit-table-differs written={want} read={got}"));
                    }
                }
            }
            Some(with_oracle(format!("ok {out}"), bad))
        }
        ("stroff", [e, f, h, base, index, exp]) => {
            let e = endian(e)?;
            let f = match *f {
                "32" => gimli::Format::Dwarf32,
                "64" => gimli::Format::Dwarf64,
                _ => return None,
            };
            let bs = unhex(h)?;
            let base: usize = base.parse().ok()?;
            let index: usize = index.parse().ok()?;
            let sec = gimli::DebugStrOffsets::from(EndianSlice::new(&bs[..], e));
            let r = sec.get_str_offset(f, gimli::DebugStrOffsetsBase(base), gimli::DebugStrOffsetsIndex(index));
            let s = match &r {
                Ok(v) => format!("ok {}", v.0),
                Err(x) => format!("err {}", rerr(x)),
            };
            let bad = if *exp != "-" && format!("ok {exp}") != s { Some(format!("stroff-differs table={exp}")) } else { None };
            Some(with_oracle(s, bad))
        }
        ("addrx", [e, sz, h, base, index, exp]) => {
            let e = endian(e)?;
            let sz: u8 = sz.parse().ok()?;
            let bs = unhex(h)?;
            let base: usize = base.parse().ok()?;
            let index: usize = index.parse().ok()?;
            let sec = gimli::DebugAddr::from(EndianSlice::new(&bs[..], e));
            let r = sec.get_address(sz, gimli::DebugAddrBase(base), gimli::DebugAddrIndex(index));
            let s = match &r {
                Ok(v) => format!("ok {}", v),
                Err(x) => format!("err {}", rerr(x)),
            };
            let bad = if *exp != "-" && format!("ok {exp}") != s { Some(format!("addrx-differs table={exp}")) } else { None };
            Some(with_oracle(s, bad))
        }
        _ => None,
    }
}

pub fn handle(op: &str, a: &[&str]) -> Option<String> {
    h_index(op, a).or_else(|| h_aranges(op, a)).or_else(|| h_pub(op, a)).or_else(|| h_names(op, a)).or_else(|| h_loader(op, a))
}

// =================================================================== generators

struct W {
    big: bool,
    b: Vec<u8>,
}
impl W {
    fn new(big: bool) -> W {
        W { big, b: Vec::new() }
    }
    fn uint(&mut self, v: u64, n: usize) {
        let le = v.to_le_bytes();
        if self.big {
            for i in (0..n).rev() {
                self.b.push(le[i]);
            }
        } else {
            self.b.extend_from_slice(&le[..n]);
        }
    }
    fn u8(&mut self, v: u8) {
        self.b.push(v);
    }
    fn u16(&mut self, v: u16) {
        self.uint(v as u64, 2);
    }
    fn u32(&mut self, v: u32) {
        self.uint(v as u64, 4);
    }
    fn u64(&mut self, v: u64) {
        self.uint(v, 8);
    }
    fn word(&mut self, v: u64, f64_: bool) {
        self.uint(v, if f64_ { 8 } else { 4 });
    }
    fn bytes(&mut self, bs: &[u8]) {
        self.b.extend_from_slice(bs);
    }
    /// initial length for a body of `len` bytes
    fn initial_length(&mut self, len: u64, f64_: bool) {
        if f64_ {
            self.u32(0xffff_ffff);
            self.u64(len);
        } else {
            self.u32(len as u32);
        }
    }
}

fn es(big: bool) -> &'static str {
    if big { "be" } else { "le" }
}

// ---------- index

const V2_KINDS: &[(u32, &str)] = &[
    (1, "DebugInfo"),
    (2, "DebugTypes"),
    (3, "DebugAbbrev"),
    (4, "DebugLine"),
    (5, "DebugLoc"),
    (6, "DebugStrOffsets"),
    (7, "DebugMacinfo"),
    (8, "DebugMacro"),
];
const V5_KINDS: &[(u32, &str)] = &[
    (1, "DebugInfo"),
    (3, "DebugAbbrev"),
    (4, "DebugLine"),
    (5, "DebugLocLists"),
    (6, "DebugStrOffsets"),
    (7, "DebugMacro"),
    (8, "DebugRngLists"),
];

/// abstract index: everything a `.debug_cu_index` says
#[derive(Clone)]
struct AbsIndex {
    version: u16,
    /// log2 of the slot count; `None` = zero slots
    k: Option<u32>,
    /// (signature, row) in insertion order; rows are 1-based
    kvs: Vec<(u64, u32)>,
    /// column kinds (DW_SECT numbers)
    cols: Vec<u32>,
    /// header unit count; `offsets`/`sizes` have that many rows
    unit_count: u32,
    offsets: Vec<Vec<u32>>,
    sizes: Vec<Vec<u32>>,
}

/// the standard's insertion (DWARF 5 §7.3.5.3), written independently of gimli and of the Model
fn build_slots(k: u32, kvs: &[(u64, u32)]) -> Option<Vec<(u64, u32)>> {
    let n = 1u64 << k;
    let mask = n - 1;
    let mut slots = vec![(0u64, 0u32); n as usize];
    for &(id, row) in kvs {
        let mut h = id & mask;
        let stride = ((id >> 32) & mask) | 1;
        let mut placed = false;
        for _ in 0..n {
            if slots[h as usize].0 == 0 {
                slots[h as usize] = (id, row);
                placed = true;
                break;
            }
            h = (h + stride) % n;
        }
        if !placed {
            return None;
        }
    }
    Some(slots)
}

fn ser_index(ix: &AbsIndex, big: bool, slots: &[(u64, u32)], slot_count_field: u32, version_word: Option<u32>, pad: u16) -> Vec<u8> {
    let mut w = W::new(big);
    match version_word {
        Some(v) => w.u32(v),
        None => {
            if ix.version == 2 {
                w.u32(2)
            } else {
                w.u16(ix.version);
                w.u16(pad);
            }
        }
    }
    w.u32(ix.cols.len() as u32);
    w.u32(ix.unit_count);
    w.u32(slot_count_field);
    for s in slots {
        w.u64(s.0);
    }
    for s in slots {
        w.u32(s.1);
    }
    for c in &ix.cols {
        w.u32(*c);
    }
    for r in &ix.offsets {
        for v in r {
            w.u32(*v);
        }
    }
    for r in &ix.sizes {
        for v in r {
            w.u32(*v);
        }
    }
    w.b
}

fn kind_str(version: u16, c: u32) -> &'static str {
    let t = if version == 2 { V2_KINDS } else { V5_KINDS };
    t.iter().find(|(n, _)| *n == c).map(|(_, s)| *s).unwrap_or("?")
}

/// linear scan of the abstract matrices for `sections(row)`
fn exp_sections(ix: &AbsIndex, row: u64) -> String {
    if row == 0 || row > ix.unit_count as u64 {
        return "!InvalidIndexRow".into();
    }
    let r = (row - 1) as usize;
    let v: Vec<String> = ix
        .cols
        .iter()
        .enumerate()
        .map(|(c, kind)| format!("{}:{}:{}", kind_str(ix.version, *kind), ix.offsets[r][c], ix.sizes[r][c]))
        .collect();
    join(",", &v)
}

fn rand_id(rng: &mut Rng) -> u64 {
    let v = match rng.below(4) {
        0 => rng.boundary_u64(),
        _ => rng.next(),
    };
    if v == 0 { 1 } else { v }
}

/// ids for a table of 2^k slots under a collision regime
fn gen_ids(rng: &mut Rng, k: u32, n: usize, regime: u64) -> Vec<u64> {
    let mask = (1u64 << k) - 1;
    let mut ids: Vec<u64> = Vec::new();
    let low = rng.next() & mask;
    let hi = rng.next() & mask;
    let mut guard = 0;
    while ids.len() < n && guard < 100 * n + 100 {
        guard += 1;
        let r = rng.next();
        let id = match regime {
            // same primary hash
            1 => (r & !mask) | low,
            // same stride
            2 => (r & !(mask << 32)) | (hi << 32),
            // same primary hash and same stride: one single probe chain
            3 => (r & !mask & !(mask << 32)) | low | (hi << 32),
            // even "stride bits" (the `| 1` matters)
            4 => r & !(1u64 << 32),
            _ => rand_id(rng),
        };
        if id != 0 && !ids.contains(&id) {
            ids.push(id);
        }
    }
    ids
}

fn gen_index(ctx: &Ctx, emit: &mut dyn FnMut(String)) {
    let mut rng = ctx.rng(1701);
    let kmax = if ctx.tier == Tier::Thorough { 10 } else { 7 };
    let reps = ctx.n(2, 12);
    // --- hash tables at every load factor, collision regimes, both versions, both endians
    for k in 0..=kmax {
        let n = 1usize << k;
        let mut loads: Vec<usize> = vec![0, 1, n / 4, n / 2, (3 * n) / 4, n.saturating_sub(2), n - 1, n];
        loads.sort();
        loads.dedup();
        for &load in &loads {
            for regime in 0..5u64 {
                for _ in 0..(if k <= 4 { reps } else { 1 }) {
                    let big = rng.chance(1, 2);
                    let version = if rng.chance(1, 2) { 2 } else { 5 };
                    let ids = gen_ids(&mut rng, k as u32, load, regime);
                    let load = ids.len();
                    // rows: a permutation of 1..=load
                    let mut rows: Vec<u32> = (1..=load as u32).collect();
                    for i in (1..rows.len()).rev() {
                        let j = rng.below(i as u64 + 1) as usize;
                        rows.swap(i, j);
                    }
                    let kvs: Vec<(u64, u32)> = ids.iter().cloned().zip(rows.into_iter()).collect();
                    let Some(slots) = build_slots(k as u32, &kvs) else { continue };
                    // a full table cannot announce all its units (slot_count > unit_count is required)
                    let unit_count = if load == n { (n - 1) as u32 } else { load as u32 };
                    let table = if version == 2 { V2_KINDS } else { V5_KINDS };
                    let ncols = rng.range(0, table.len().min(8) as u64) as usize;
                    let mut cols: Vec<u32> = table.iter().map(|x| x.0).collect();
                    for i in (1..cols.len()).rev() {
                        let j = rng.below(i as u64 + 1) as usize;
                        cols.swap(i, j);
                    }
                    cols.truncate(ncols);
                    let mk = |rng: &mut Rng| -> Vec<Vec<u32>> {
                        (0..unit_count).map(|_| (0..ncols).map(|_| if rng.chance(1, 8) { rng.boundary_u64() as u32 } else { rng.next() as u32 }).collect()).collect()
                    };
                    let offsets = mk(&mut rng);
                    let sizes = mk(&mut rng);
                    let ix = AbsIndex { version, k: Some(k as u32), kvs: kvs.clone(), cols, unit_count, offsets, sizes };
                    let mut bs = ser_index(&ix, big, &slots, n as u32, None, if rng.chance(1, 4) { rng.next() as u16 } else { 0 });
                    if rng.chance(1, 3) {
                        bs.extend(rng.bytes_below(9));
                    }
                    let h = hex(&bs);
                    // probe every present key and as many absent ones (incl. colliding with present)
                    let mut probe_ids: Vec<u64> = Vec::new();
                    let mut exps: Vec<String> = Vec::new();
                    for (id, row) in &kvs {
                        probe_ids.push(*id);
                        exps.push(row.to_string());
                    }
                    let mask = (n as u64) - 1;
                    let mut absent: Vec<u64> = gen_ids(&mut rng, k as u32, load.max(2).min(64), regime);
                    for (id, _) in kvs.iter().take(32) {
                        // same slot and same stride as a present key, other bits differ
                        absent.push(id ^ (1u64 << 63));
                        absent.push((id & (mask | (mask << 32))) | (rng.next() & !(mask | (mask << 32))));
                        absent.push(id.wrapping_add(1));
                    }
                    for id in absent {
                        if id != 0 && !kvs.iter().any(|kv| kv.0 == id) && !probe_ids.contains(&id) {
                            probe_ids.push(id);
                            exps.push("n".into());
                        }
                    }
                    // id 0 is the "unused" marker and can never be a present key
                    probe_ids.push(0);
                    exps.push("n".into());
                    let ids_s = probe_ids.iter().map(|x| x.to_string()).collect::<Vec<_>>();
                    emit(format!("ix-find {} {} {} {}", es(big), h, join(",", &ids_s), join(",", &exps)));
                    if k <= 5 {
                        let mut rows: Vec<u64> = (0..=(unit_count as u64 + 1)).collect();
                        rows.push(u32::MAX as u64);
                        let exp: Vec<String> = rows.iter().map(|r| exp_sections(&ix, *r)).collect();
                        emit(format!(
                            "ix-sect {} {} {} {}",
                            es(big),
                            h,
                            join(",", &rows.iter().map(|x| x.to_string()).collect::<Vec<_>>()),
                            join(";", &exp)
                        ));
                        emit(format!("ix-parse {} {}", es(big), h));
                    }
                }
            }
        }
    }
    // --- every section-kind subset, versions 2 and 5 (each subset in table order and one shuffle)
    for version in [2u16, 5] {
        let table = if version == 2 { V2_KINDS } else { V5_KINDS };
        for subset in 0u32..(1 << table.len()) {
            for shuffle in [false, true] {
                let big = (subset & 1 == 1) ^ shuffle;
                let mut cols: Vec<u32> = table.iter().enumerate().filter(|(i, _)| subset >> i & 1 == 1).map(|(_, x)| x.0).collect();
                if shuffle {
                    if cols.len() < 2 {
                        continue;
                    }
                    for i in (1..cols.len()).rev() {
                        let j = rng.below(i as u64 + 1) as usize;
                        cols.swap(i, j);
                    }
                }
                let units = rng.range(1, 3) as u32;
                let ncols = cols.len();
                let offsets: Vec<Vec<u32>> = (0..units).map(|_| (0..ncols).map(|_| rng.next() as u32).collect()).collect();
                let sizes: Vec<Vec<u32>> = (0..units).map(|_| (0..ncols).map(|_| rng.next() as u32).collect()).collect();
                let kvs: Vec<(u64, u32)> = (1..=units).map(|r| (rand_id(&mut rng), r)).collect();
                let slots = build_slots(2, &kvs).unwrap();
                let ix = AbsIndex { version, k: Some(2), kvs, cols, unit_count: units, offsets, sizes };
                let h = hex(&ser_index(&ix, big, &slots, 4, None, 0));
                let rows: Vec<u64> = (0..=(units as u64 + 1)).collect();
                let exp: Vec<String> = rows.iter().map(|r| exp_sections(&ix, *r)).collect();
                emit(format!("ix-sect {} {} {} {}", es(big), h, join(",", &rows.iter().map(|x| x.to_string()).collect::<Vec<_>>()), join(";", &exp)));
                if shuffle {
                    emit(format!("ix-parse {} {}", es(big), h));
                }
            }
        }
    }
    // --- malformed: slot counts that are not powers of two / not above the unit count, bad
    // versions, too many sections, unknown kinds, duplicated kinds, truncation at every byte,
    // byte mutations, tables not built by insertion (no expectation: correspondence only)
    emit("ix-parse le -".into());
    emit("ix-find le - 0,1,2 -".into());
    emit("ix-sect be - 0,1 -".into());
    for slot_count in 0u32..=40 {
        for unit_count in [0u32, 1, slot_count.saturating_sub(1), slot_count, slot_count + 1] {
            let big = (slot_count + unit_count) % 2 == 0;
            let version = if slot_count % 3 == 0 { 5 } else { 2 };
            let slots: Vec<(u64, u32)> = (0..slot_count).map(|i| if rng.chance(1, 2) { (rand_id(&mut rng), i + 1) } else { (0, 0) }).collect();
            let units = unit_count.min(6);
            let ix = AbsIndex {
                version,
                k: None,
                kvs: vec![],
                cols: vec![1, 3],
                unit_count,
                offsets: (0..units).map(|_| vec![rng.next() as u32, rng.next() as u32]).collect(),
                sizes: (0..units).map(|_| vec![rng.next() as u32, rng.next() as u32]).collect(),
            };
            let h = hex(&ser_index(&ix, big, &slots, slot_count, None, 0));
            emit(format!("ix-parse {} {}", es(big), h));
            let ids: Vec<String> = slots.iter().filter(|s| s.0 != 0).map(|s| s.0.to_string()).chain(["1".to_string(), "0".to_string(), u64::MAX.to_string()]).collect();
            emit(format!("ix-find {} {} {} -", es(big), h, join(",", &ids)));
        }
    }
    let base = {
        let kvs = vec![(0x1111_2222_3333_4444u64, 1u32), (0xaaaa_bbbb_cccc_ddddu64, 2)];
        let slots = build_slots(2, &kvs).unwrap();
        let ix = AbsIndex { version: 5, k: Some(2), kvs, cols: vec![1, 3, 6], unit_count: 2, offsets: vec![vec![1, 2, 3], vec![4, 5, 6]], sizes: vec![vec![7, 8, 9], vec![10, 11, 12]] };
        (ix, slots)
    };
    for big in [false, true] {
        for vw in [0u32, 1, 3, 4, 5, 6, 0x0002_0000, 0x0200_0000, 0x0005_0000, 0x0500_0000, 0x0005_0005, 0x0002_0005, 0xffff_ffff, 0x0002_0002] {
            let h = hex(&ser_index(&base.0, big, &base.1, 4, Some(vw), 0));
            emit(format!("ix-parse {} {}", es(big), h));
        }
        for ncols in [8usize, 9, 10, 255] {
            let mut ix = base.0.clone();
            ix.version = 2;
            ix.cols = (0..ncols).map(|i| (i % 8) as u32 + 1).collect();
            ix.unit_count = 1;
            ix.offsets = vec![(0..ncols as u32).collect()];
            ix.sizes = vec![(100..100 + ncols as u32).collect()];
            let h = hex(&ser_index(&ix, big, &base.1, 4, None, 0));
            emit(format!("ix-parse {} {}", es(big), h));
            emit(format!("ix-sect {} {} 1 -", es(big), h));
        }
        for version in [2u16, 5] {
            for kind in [0u32, 1, 2, 3, 4, 5, 6, 7, 8, 9, 10, 0x100, 0xffff_ffff] {
                let mut ix = base.0.clone();
                ix.version = version;
                ix.cols = vec![1, kind, 3];
                let h = hex(&ser_index(&ix, big, &base.1, 4, None, 0));
                emit(format!("ix-parse {} {}", es(big), h));
                // duplicated column kind
                ix.cols = vec![kind.clamp(3, 4), 1, kind.clamp(3, 4)];
                let h = hex(&ser_index(&ix, big, &base.1, 4, None, 0));
                emit(format!("ix-sect {} {} 1,2 -", es(big), h));
            }
        }
        let full = ser_index(&base.0, big, &base.1, 4, None, 0);
        for cut in 0..full.len() {
            let h = hex(&full[..cut]);
            emit(format!("ix-parse {} {}", es(big), h));
            if cut % 3 == 0 {
                emit(format!("ix-find {} {} {},{},7 -", es(big), h, base.0.kvs[0].0, base.0.kvs[1].0));
                emit(format!("ix-sect {} {} 0,1,2,3 -", es(big), h));
            }
        }
    }
    // random mutations of valid tables; tables whose slots were filled without the probe rule
    let n = ctx.n(300, 5000);
    for _ in 0..n {
        let big = rng.chance(1, 2);
        let k = rng.below(5) as u32;
        let nslots = 1usize << k;
        let load = rng.below(nslots as u64 + 1) as usize;
        let regime = rng.below(5);
        let ids = gen_ids(&mut rng, k, load, regime);
        let kvs: Vec<(u64, u32)> = ids.iter().enumerate().map(|(i, id)| (*id, i as u32 + 1)).collect();
        let mut slots = build_slots(k, &kvs).unwrap();
        let units = (load as u32).min(nslots as u32 - (nslots > 0) as u32).min(3);
        let ix = AbsIndex {
            version: if rng.chance(1, 2) { 2 } else { 5 },
            k: Some(k),
            kvs: kvs.clone(),
            cols: vec![1, 3, 4],
            unit_count: units,
            offsets: (0..units).map(|_| vec![rng.next() as u32; 3]).collect(),
            sizes: (0..units).map(|_| vec![rng.next() as u32; 3]).collect(),
        };
        if rng.chance(1, 2) {
            // scramble: slots no longer follow the probe rule
            for i in (1..slots.len()).rev() {
                let j = rng.below(i as u64 + 1) as usize;
                slots.swap(i, j);
            }
        }
        let mut bs = ser_index(&ix, big, &slots, nslots as u32, None, 0);
        if rng.chance(2, 3) {
            for _ in 0..rng.range(1, 3) {
                let i = rng.below(bs.len() as u64) as usize;
                bs[i] = match rng.below(4) {
                    0 => 0,
                    1 => 0xff,
                    2 => bs[i].wrapping_add(1),
                    _ => rng.next() as u8,
                };
            }
        }
        let h = hex(&bs);
        let mut ids_s: Vec<String> = kvs.iter().map(|x| x.0.to_string()).collect();
        ids_s.push(rand_id(&mut rng).to_string());
        ids_s.push("0".into());
        emit(format!("ix-find {} {} {} -", es(big), h, join(",", &ids_s)));
        emit(format!("ix-sect {} {} 0,1,2,3,4 -", es(big), h));
    }
}

// ---------- aranges

#[derive(Clone)]
struct ArSet {
    f64_: bool,
    version: u16,
    asz: u8,
    dio: u64,
    tuples: Vec<(u64, u64)>,
    /// junk after the last tuple, shorter than a tuple
    tail: Vec<u8>,
}

fn ar_mask(asz: u8) -> u64 {
    if asz >= 8 { u64::MAX } else { (1u64 << (8 * asz as u32)) - 1 }
}

/// serialise with the padding the standard asks for (first tuple at a multiple of the tuple size
/// from the start of the set), computed here independently
fn ser_arset(s: &ArSet, big: bool) -> Vec<u8> {
    let mut body = W::new(big);
    body.u16(s.version);
    body.word(s.dio, s.f64_);
    body.u8(s.asz);
    body.u8(0);
    let hdr = if s.f64_ { 12 } else { 4 } + body.b.len();
    let tuple = 2 * s.asz as usize;
    let mut pos = hdr;
    while pos % tuple != 0 {
        body.u8(0xcc);
        pos += 1;
    }
    for (b, l) in &s.tuples {
        body.uint(*b, s.asz as usize);
        body.uint(*l, s.asz as usize);
    }
    body.bytes(&s.tail);
    let mut w = W::new(big);
    w.initial_length(body.b.len() as u64, s.f64_);
    w.bytes(&body.b);
    w.b
}

/// linear scan of the abstract tuple list: what the entry iterator has to yield
fn exp_arset(s: &ArSet, off: usize, len: usize) -> String {
    let mask = ar_mask(s.asz);
    let mut ents = Vec::new();
    for (b, l) in &s.tuples {
        if *b == 0 && *l == 0 {
            continue; // null tuple: skipped (HEAD)
        }
        if *b >= mask - 1 {
            continue; // tombstone -1 / -2
        }
        match b.checked_add(*l) {
            Some(e) if e <= mask => ents.push(format!("{b}-{e}-{l}")),
            _ => ents.push("!AddressOverflow".into()),
        }
    }
    let body_len = len - if s.f64_ { 12 } else { 4 };
    format!("H:{}:{}:{}:{}:{}:{}={}", off, if s.f64_ { "64" } else { "32" }, s.version, s.asz, body_len, s.dio, join(",", &ents))
}

fn gen_tuples(rng: &mut Rng, asz: u8, n: usize) -> Vec<(u64, u64)> {
    let mask = ar_mask(asz);
    (0..n)
        .map(|_| match rng.below(12) {
            0 => (0, 0),
            1 => (mask, rng.next() & mask),
            2 => (mask - 1, rng.next() & mask),
            3 => (mask - 2, 1),
            4 => (mask - 2, 2),
            5 => (rng.next() & mask, mask),
            6 => (0, rng.next() & mask),
            7 => (rng.next() & mask, 0),
            8 => (rng.boundary_u64() & mask, rng.boundary_u64() & mask),
            _ => {
                let b = rng.next() & (mask >> 1);
                (b, rng.next() & (mask >> 2))
            }
        })
        .collect()
}

fn gen_aranges(ctx: &Ctx, emit: &mut dyn FnMut(String)) {
    let mut rng = ctx.rng(1702);
    let reps = ctx.n(6, 60);
    for f64_ in [false, true] {
        for asz in [1u8, 2, 4, 8] {
            for big in [false, true] {
                for version in [2u16, 3] {
                    for rep in 0..reps {
                        let nsets = if rep % 3 == 0 { rng.range(2, 4) } else { 1 } as usize;
                        let mut bs = Vec::new();
                        let mut exp = Vec::new();
                        for _ in 0..nsets {
                            let n = match rep {
                                0 => 0,
                                1 => 1,
                                _ => rng.below(9) as usize,
                            };
                            let mut tuples = gen_tuples(&mut rng, asz, n);
                            if rng.chance(2, 3) {
                                tuples.push((0, 0)); // the usual terminator
                            }
                            if rng.chance(1, 6) {
                                // run of null tuples in the middle
                                let at = rng.below(tuples.len() as u64 + 1) as usize;
                                for _ in 0..rng.range(1, 5) {
                                    tuples.insert(at, (0, 0));
                                }
                            }
                            let tail = if rng.chance(1, 4) { rng.bytes_below(2 * asz as u64) } else { vec![] };
                            let s = ArSet { f64_, version, asz, dio: if f64_ { rng.boundary_u64() } else { rng.next() & 0xffff_ffff }, tuples, tail };
                            let one = ser_arset(&s, big);
                            exp.push(exp_arset(&s, bs.len(), one.len()));
                            bs.extend(one);
                        }
                        emit(format!("ar {} {} {}", es(big), hex(&bs), join(";", &exp)));
                    }
                }
            }
        }
    }
    // malformed / boundary headers: correspondence only
    let good = ArSet { f64_: false, version: 2, asz: 4, dio: 0x1234, tuples: vec![(0x1000, 0x10), (0x2000, 0x20), (0, 0)], tail: vec![] };
    for big in [false, true] {
        for f64_ in [false, true] {
            let mut s = good.clone();
            s.f64_ = f64_;
            let bs = ser_arset(&s, big);
            for cut in 0..=bs.len() {
                emit(format!("ar {} {} -", es(big), hex(&bs[..cut])));
            }
            let hl = if f64_ { 12 } else { 4 };
            // version, address size and segment size sweeps
            for v in [0u16, 1, 2, 3, 4, 5, 0x0200, 0xffff] {
                let mut b = bs.clone();
                let vb = if big { v.to_be_bytes() } else { v.to_le_bytes() };
                b[hl] = vb[0];
                b[hl + 1] = vb[1];
                emit(format!("ar {} {} -", es(big), hex(&b)));
            }
            let as_at = hl + 2 + if f64_ { 8 } else { 4 };
            for a in 0..=255u8 {
                let mut b = bs.clone();
                b[as_at] = a;
                emit(format!("ar {} {} -", es(big), hex(&b)));
            }
            for sg in [1u8, 2, 4, 8, 0xff] {
                let mut b = bs.clone();
                b[as_at + 1] = sg;
                emit(format!("ar {} {} -", es(big), hex(&b)));
            }
            // length too short for the padding / for a tuple; too long for the section
            for asz in [1u8, 2, 4, 8] {
                let mut s2 = s.clone();
                s2.asz = asz;
                s2.tuples = vec![(1, 1)];
                let full = ser_arset(&s2, big);
                let body = full.len() - hl;
                for newlen in (0..=body + 1).chain([body + 100]) {
                    let mut w = W::new(big);
                    w.initial_length(newlen as u64, f64_);
                    let mut b = w.b;
                    b.extend_from_slice(&full[hl..]);
                    emit(format!("ar {} {} -", es(big), hex(&b)));
                }
            }
        }
        // reserved initial lengths
        for l in [0xffff_fff0u32, 0xffff_fffe, 0xffff_ffef] {
            let mut w = W::new(big);
            w.u32(l);
            w.bytes(&[0; 24]);
            emit(format!("ar {} {} -", es(big), hex(&w.b)));
        }
    }
    let n = ctx.n(300, 5000);
    for _ in 0..n {
        let big = rng.chance(1, 2);
        let asz = *rng.pick(&[1u8, 2, 4, 8]);
        let s = ArSet { f64_: rng.chance(1, 2), version: 2, asz, dio: rng.next() & 0xffff_ffff, tuples: { let n = rng.below(5) as usize; gen_tuples(&mut rng, asz, n) }, tail: vec![] };
        let mut bs = ser_arset(&s, big);
        bs.extend(ser_arset(&good, big));
        for _ in 0..rng.range(1, 3) {
            let i = rng.below(bs.len() as u64) as usize;
            bs[i] = match rng.below(3) {
                0 => 0,
                1 => 0xff,
                _ => rng.next() as u8,
            };
        }
        emit(format!("ar {} {} -", es(big), hex(&bs)));
    }
}

// ---------- pubnames / pubtypes

struct PubSet {
    f64_: bool,
    unit_offset: u64,
    unit_length: u64,
    entries: Vec<(u64, Vec<u8>)>,
    terminator: bool,
}

fn ser_pubset(s: &PubSet, big: bool) -> Vec<u8> {
    let mut body = W::new(big);
    body.u16(2);
    body.word(s.unit_offset, s.f64_);
    body.word(s.unit_length, s.f64_);
    for (off, name) in &s.entries {
        body.word(*off, s.f64_);
        body.bytes(name);
        body.u8(0);
    }
    if s.terminator {
        body.word(0, s.f64_);
    }
    let mut w = W::new(big);
    w.initial_length(body.b.len() as u64, s.f64_);
    w.bytes(&body.b);
    w.b
}

fn gen_pub(ctx: &Ctx, emit: &mut dyn FnMut(String)) {
    let mut rng = ctx.rng(1703);
    let n = ctx.n(400, 6000);
    for i in 0..n {
        let big = rng.chance(1, 2);
        let which = if i % 2 == 0 { "names" } else { "types" };
        let nsets = rng.range(0, 3) as usize;
        let mut bs = Vec::new();
        let mut exp = Vec::new();
        for _ in 0..nsets {
            let f64_ = rng.chance(1, 2);
            let wmask = if f64_ { u64::MAX } else { 0xffff_ffff };
            let ne = rng.below(6) as usize;
            let entries: Vec<(u64, Vec<u8>)> = (0..ne)
                .map(|_| {
                    let off = (if rng.chance(1, 3) { rng.boundary_u64() } else { rng.next() }) & wmask;
                    let off = if off == 0 { 1 } else { off };
                    let name: Vec<u8> = (0..rng.below(7)).map(|_| (rng.next() as u8).max(1)).collect();
                    (off, name)
                })
                .collect();
            let s = PubSet { f64_, unit_offset: rng.boundary_u64() & wmask, unit_length: rng.next() & wmask, entries, terminator: rng.chance(3, 4) };
            for (off, name) in &s.entries {
                exp.push(format!("{}:{}:{}", off, hex(name), s.unit_offset));
            }
            bs.extend(ser_pubset(&s, big));
        }
        emit(format!("pub {} {} {} {}", which, es(big), hex(&bs), join(",", &exp)));
    }
    // malformed: truncation at every byte, version sweep, entries after the terminator,
    // missing NUL, mutations (correspondence only)
    for big in [false, true] {
        for f64_ in [false, true] {
            let s = PubSet { f64_, unit_offset: 0x10, unit_length: 0x99, entries: vec![(0x20, b"ab".to_vec()), (0x30, b"".to_vec()), (0x40, b"xyz".to_vec())], terminator: true };
            let mut bs = ser_pubset(&s, big);
            let s2 = PubSet { f64_: !f64_, unit_offset: 0x50, unit_length: 0x1, entries: vec![(0x60, b"q".to_vec())], terminator: false };
            bs.extend(ser_pubset(&s2, big));
            for cut in 0..=bs.len() {
                emit(format!("pub names {} {} -", es(big), hex(&bs[..cut])));
            }
            let hl = if f64_ { 12 } else { 4 };
            for v in [0u16, 1, 3, 4, 5, 0x0200] {
                let mut b = bs.clone();
                let vb = if big { v.to_be_bytes() } else { v.to_le_bytes() };
                b[hl] = vb[0];
                b[hl + 1] = vb[1];
                emit(format!("pub types {} {} -", es(big), hex(&b)));
            }
            // entries after a zero offset inside the set are not reported (the set ends there)
            let mut s3 = PubSet { f64_, unit_offset: 1, unit_length: 2, entries: vec![(5, b"a".to_vec())], terminator: true };
            let mut b3 = ser_pubset(&s3, big);
            s3.entries = vec![(6, b"hidden".to_vec())];
            s3.terminator = false;
            let extra = ser_pubset(&s3, big);
            // splice the second set's entries (after its header) into the first set's body
            let ehdr = hl + 2 + 2 * if f64_ { 8 } else { 4 };
            let add = &extra[ehdr..];
            let newlen = (b3.len() - hl + add.len()) as u64;
            let mut w = W::new(big);
            w.initial_length(newlen, f64_);
            let mut spliced = w.b;
            spliced.extend_from_slice(&b3[hl..]);
            spliced.extend_from_slice(add);
            b3 = spliced;
            emit(format!("pub names {} {} -", es(big), hex(&b3)));
        }
    }
    let n = ctx.n(300, 5000);
    for _ in 0..n {
        let big = rng.chance(1, 2);
        let f64_ = rng.chance(1, 3);
        let s = PubSet { f64_, unit_offset: 7, unit_length: 8, entries: (0..rng.below(4)).map(|i| (i + 1, rng.bytes_below(5))).collect(), terminator: rng.chance(1, 2) };
        let mut bs = ser_pubset(&s, big);
        bs.extend(ser_pubset(&s, big));
        for _ in 0..rng.range(0, 2) {
            let i = rng.below(bs.len() as u64) as usize;
            bs[i] = match rng.below(3) {
                0 => 0,
                1 => 0xff,
                _ => rng.next() as u8,
            };
        }
        emit(format!("pub names {} {} -", es(big), hex(&bs)));
    }
}

// ---------- .debug_names

fn uleb(mut v: u64, out: &mut Vec<u8>) {
    loop {
        let b = (v & 0x7f) as u8;
        v >>= 7;
        if v != 0 {
            out.push(b | 0x80);
        } else {
            out.push(b);
            break;
        }
    }
}

#[derive(Clone)]
struct NAbbrev {
    code: u64,
    tag: u16,
    attrs: Vec<(u16, u16)>,
}
#[derive(Clone)]
struct NEntry {
    ab: usize,
    /// one value per attribute (ignored for `DW_IDX_parent`/ref4, which takes `parent`)
    vals: Vec<u64>,
    /// (name index, entry index) of the parent entry
    parent: (usize, usize),
}
#[derive(Clone)]
struct NName {
    s: Vec<u8>,
    hash: u32,
    entries: Vec<NEntry>,
    terminated: bool,
}
#[derive(Clone)]
struct AbsNames {
    f64_: bool,
    aug: Vec<u8>,
    cus: Vec<u64>,
    ltus: Vec<u64>,
    ftus: Vec<u64>,
    bucket_count: u32,
    names: Vec<NName>,
    abbrevs: Vec<NAbbrev>,
    abbrev_terminator: bool,
}

fn form_write(w: &mut W, form: u16, v: u64) {
    match form {
        0x0c | 0x0b | 0x11 => w.u8(v as u8),
        0x19 => {}
        0x05 | 0x12 => w.u16(v as u16),
        0x06 | 0x13 => w.u32(v as u32),
        0x07 | 0x14 => w.u64(v),
        0x0f | 0x15 => uleb(v, &mut w.b),
        _ => {}
    }
}
fn form_mask(form: u16) -> u64 {
    match form {
        0x0c | 0x0b | 0x11 => 0xff,
        0x19 => 0,
        0x05 | 0x12 => 0xffff,
        0x06 | 0x13 => 0xffff_ffff,
        _ => u64::MAX,
    }
}
fn form_value_s(form: u16, v: u64) -> String {
    match form {
        0x0c => if v != 0 { "f1".into() } else { "f0".into() },
        0x19 => "f1".into(),
        0x0b | 0x05 | 0x06 | 0x07 | 0x0f => format!("u{v}"),
        _ => format!("o{v}"),
    }
}

/// serialise one name index; returns (bytes, expected dump of this index given its section offset)
fn ser_names(a: &AbsNames, big: bool, sec_off: usize, str_off: &[u64], hashes: &[u64]) -> (Vec<u8>, String) {
    let wsz = if a.f64_ { 8 } else { 4 };
    // abbreviation table
    let mut ab = Vec::new();
    for x in &a.abbrevs {
        uleb(x.code, &mut ab);
        uleb(x.tag as u64, &mut ab);
        for (n, f) in &x.attrs {
            uleb(*n as u64, &mut ab);
            uleb(*f as u64, &mut ab);
        }
        ab.push(0);
        ab.push(0);
    }
    if a.abbrev_terminator {
        ab.push(0);
    }
    // entry pool, parents patched in a second pass
    let mut pool = W::new(big);
    let mut eoff: Vec<Vec<usize>> = Vec::new();
    let mut series: Vec<usize> = Vec::new();
    let mut patches: Vec<(usize, (usize, usize))> = Vec::new();
    for nm in &a.names {
        series.push(pool.b.len());
        let mut offs = Vec::new();
        for en in &nm.entries {
            offs.push(pool.b.len());
            let x = &a.abbrevs[en.ab];
            uleb(x.code, &mut pool.b);
            for (i, (n, f)) in x.attrs.iter().enumerate() {
                if *n == 4 && *f == 0x13 {
                    patches.push((pool.b.len(), en.parent));
                    pool.u32(0);
                } else {
                    form_write(&mut pool, *f, en.vals[i]);
                }
            }
        }
        if nm.terminated {
            pool.u8(0);
        }
        eoff.push(offs);
    }
    for (at, (pn, pe)) in &patches {
        let mut w = W::new(big);
        w.u32(eoff[*pn][*pe] as u32);
        pool.b[*at..*at + 4].copy_from_slice(&w.b);
    }
    // body
    let mut w = W::new(big);
    w.u16(5);
    w.u16(0);
    w.u32(a.cus.len() as u32);
    w.u32(a.ltus.len() as u32);
    w.u32(a.ftus.len() as u32);
    w.u32(a.bucket_count);
    w.u32(a.names.len() as u32);
    w.u32(ab.len() as u32);
    w.u32(a.aug.len() as u32);
    w.bytes(&a.aug);
    while (w.b.len() % 4) != 0 {
        w.u8(0);
    }
    for v in &a.cus {
        w.word(*v, a.f64_);
    }
    for v in &a.ltus {
        w.word(*v, a.f64_);
    }
    for v in &a.ftus {
        w.u64(*v);
    }
    let mut buckets: Vec<Vec<usize>> = vec![Vec::new(); a.bucket_count as usize];
    if a.bucket_count > 0 {
        for (i, nm) in a.names.iter().enumerate() {
            buckets[(nm.hash % a.bucket_count) as usize].push(i);
        }
        for b in &buckets {
            w.u32(b.first().map(|i| *i as u32 + 1).unwrap_or(0));
        }
        for nm in &a.names {
            w.u32(nm.hash);
        }
    }
    for i in 0..a.names.len() {
        w.word(str_off[i], a.f64_);
    }
    for i in 0..a.names.len() {
        w.word(series[i] as u64, a.f64_);
    }
    w.bytes(&ab);
    w.bytes(&pool.b);
    let mut out = W::new(big);
    out.initial_length(w.b.len() as u64, a.f64_);
    out.bytes(&w.b);
    let _ = wsz;

    // ---- the expected dump: a linear scan of the abstract index
    let nums = |v: &[u64]| join(",", &v.iter().map(|x| x.to_string()).collect::<Vec<_>>());
    let mut tu: Vec<String> = a.ltus.iter().map(|o| format!("L{o}")).collect();
    tu.extend(a.ftus.iter().map(|o| format!("F{o}")));
    let abs_: Vec<String> = a
        .abbrevs
        .iter()
        .map(|x| format!("{}:{}:{}", x.code, x.tag, join("+", &x.attrs.iter().map(|(n, f)| format!("{n}.{f}")).collect::<Vec<_>>())))
        .collect();
    let bk: Vec<String> = buckets
        .iter()
        .map(|b| if b.is_empty() { "~".to_string() } else { join(",", &b.iter().map(|i| format!("{}.{}", i, a.names[*i].hash)).collect::<Vec<_>>()) })
        .collect();
    let head = |pn: usize, pe: usize| {
        let x = &a.abbrevs[a.names[pn].entries[pe].ab];
        format!("{}.{}.{}", eoff[pn][pe], x.code, x.tag)
    };
    let nm: Vec<String> = a
        .names
        .iter()
        .enumerate()
        .map(|(ni, nmx)| {
            let ents: Vec<String> = nmx
                .entries
                .iter()
                .enumerate()
                .map(|(ei, en)| {
                    let x = &a.abbrevs[en.ab];
                    let mut attrs = Vec::new();
                    let (mut cu, mut tus, mut die, mut par, mut th) = ("~".to_string(), "~".to_string(), "~".to_string(), "~".to_string(), "~".to_string());
                    for (i, (n, f)) in x.attrs.iter().enumerate() {
                        let v = if *n == 4 && *f == 0x13 { eoff[en.parent.0][en.parent.1] as u64 } else { en.vals[i] };
                        attrs.push(format!("{}.{}.{}", n, f, form_value_s(*f, v)));
                        match *n {
                            1 => cu = a.cus[v as usize].to_string(),
                            2 => tus = tu[v as usize].clone(),
                            3 => die = v.to_string(),
                            4 => par = if *f == 0x13 { format!("{}>{}", v, head(en.parent.0, en.parent.1)) } else { "N".into() },
                            5 => th = v.to_string(),
                            _ => {}
                        }
                    }
                    format!("{}({})cu={}/tu={}/die={}/par={}/th={}", head(ni, ei), join("+", &attrs), cu, tus, die, par, th)
                })
                .collect();
            format!("{}:{}:E[{}]", str_off[ni], hex(&nmx.s), join(",", &ents))
        })
        .collect();
    let hq: Vec<String> = hashes
        .iter()
        .map(|h| {
            let v: Vec<String> = a.names.iter().enumerate().filter(|(_, n)| n.hash as u64 == *h).map(|(i, _)| i.to_string()).collect();
            format!("{}>{}", h, join(",", &v))
        })
        .collect();
    let exp = format!(
        "I{}:{}:{}:5:{}:{}:{}:{}:{}:{}:{}|CU={}|LTU={}|FTU={}|TU={}|AB={}|BK={}|NM={}|HQ={}",
        sec_off,
        if a.f64_ { "64" } else { "32" },
        w.b.len(),
        a.cus.len(),
        a.ltus.len(),
        a.ftus.len(),
        a.bucket_count,
        a.names.len(),
        ab.len(),
        if a.aug.is_empty() { "~".to_string() } else { hex(&a.aug) },
        nums(&a.cus),
        nums(&a.ltus),
        nums(&a.ftus),
        join(",", &tu),
        join(",", &abs_),
        join(";", &bk),
        join(";", &nm),
        join(";", &hq)
    );
    (out.b, exp)
}

fn gen_abs_names(rng: &mut Rng, bucket_mode: u64, nnames: usize) -> AbsNames {
    let f64_ = rng.chance(1, 3);
    let wmask = if f64_ { u64::MAX } else { 0xffff_ffff };
    let cus: Vec<u64> = (0..rng.range(1, 3)).map(|_| rng.boundary_u64() & wmask).collect();
    let ltus: Vec<u64> = (0..rng.range(0, 2)).map(|_| rng.next() & wmask).collect();
    let mut ftus: Vec<u64> = (0..rng.range(0, 2)).map(|_| rng.next()).collect();
    if ltus.is_empty() && ftus.is_empty() {
        ftus.push(rng.next());
    }
    let ntu = (ltus.len() + ftus.len()) as u64;
    // abbreviations
    let nab = rng.range(1, 4) as usize;
    let mut abbrevs: Vec<NAbbrev> = Vec::new();
    for i in 0..nab {
        let code = if rng.chance(1, 5) { 0x80 + i as u64 * 0x4000 + rng.below(100) } else { i as u64 + 1 };
        let tag = *rng.pick(&[0x2eu16, 0x34, 0x13, 0x24, 0x39, 0x4109, 0xffff, 1]);
        let mut attrs = Vec::new();
        if rng.chance(2, 3) {
            attrs.push((1u16, *rng.pick(&[0x0bu16, 0x05, 0x06, 0x0f])));
        }
        if rng.chance(1, 2) {
            attrs.push((2, *rng.pick(&[0x0bu16, 0x05, 0x06, 0x0f])));
        }
        if rng.chance(4, 5) {
            attrs.push((3, *rng.pick(&[0x11u16, 0x12, 0x13, 0x14, 0x15])));
        }
        if rng.chance(2, 3) {
            attrs.push((4, *rng.pick(&[0x13u16, 0x19])));
        }
        if rng.chance(1, 3) {
            attrs.push((5, 0x07));
        }
        if rng.chance(1, 4) {
            attrs.push((0x2000, *rng.pick(&[0x0cu16, 0x05, 0x0f])));
        }
        if rng.chance(1, 4) {
            let n = attrs.len();
            if n > 1 {
                let j = rng.below(n as u64) as usize;
                attrs.swap(0, j);
            }
        }
        abbrevs.push(NAbbrev { code, tag, attrs });
    }
    let bucket_count = match bucket_mode {
        0 => 0,
        1 => 1,
        2 => nnames.max(1) as u32,
        3 => (nnames as u32 / 2).max(2),
        _ => rng.range(2, 9) as u32,
    };
    // names with colliding hashes: a small pool of hash values, some sharing a bucket
    let pool: Vec<u32> = (0..(nnames / 2).max(1)).map(|_| if rng.chance(1, 4) { rng.boundary_u64() as u32 } else { rng.next() as u32 }).collect();
    let mut names: Vec<NName> = (0..nnames)
        .map(|i| {
            let hash = match rng.below(4) {
                0 => *rng.pick(&pool),
                1 if bucket_count > 0 => rng.pick(&pool).wrapping_add(bucket_count.wrapping_mul(rng.below(5) as u32)),
                _ => rng.next() as u32,
            };
            let s: Vec<u8> = format!("n{}_{}", i, rng.below(1000)).into_bytes();
            let ne = rng.range(0, 3) as usize;
            let entries = (0..ne)
                .map(|_| {
                    let ab = rng.below(abbrevs.len() as u64) as usize;
                    let vals = abbrevs[ab]
                        .attrs
                        .iter()
                        .map(|(n, f)| match *n {
                            1 => rng.below(cus.len() as u64),
                            2 => rng.below(ntu),
                            _ => (if rng.chance(1, 3) { rng.boundary_u64() } else { rng.next() }) & form_mask(*f),
                        })
                        .collect();
                    NEntry { ab, vals, parent: (0, 0) }
                })
                .collect();
            NName { s, hash, entries, terminated: true }
        })
        .collect();
    if bucket_count > 0 {
        names.sort_by_key(|n| n.hash % bucket_count);
    }
    // parents: any entry of any name
    let all: Vec<(usize, usize)> = names.iter().enumerate().flat_map(|(i, n)| (0..n.entries.len()).map(move |j| (i, j))).collect();
    if !all.is_empty() {
        for n in names.iter_mut() {
            for en in n.entries.iter_mut() {
                en.parent = *rng.pick(&all);
            }
        }
    }
    if let Some(last) = names.last_mut() {
        if rng.chance(1, 4) {
            last.terminated = false;
        }
    }
    AbsNames { f64_, aug: rng.bytes_below(10), cus, ltus, ftus, bucket_count, names, abbrevs, abbrev_terminator: rng.chance(3, 4) }
}

fn emit_names(rng: &mut Rng, big: bool, parts: &[AbsNames], emit: &mut dyn FnMut(String), with_exp: bool, op: &str) -> (Vec<u8>, Vec<u8>) {
    // one `.debug_str` for all indexes
    let mut dstr: Vec<u8> = vec![b'x', 0];
    let mut sec = Vec::new();
    let mut exps = Vec::new();
    let mut hashes: Vec<u64> = Vec::new();
    let has_no_table = parts.iter().any(|a| a.bucket_count == 0);
    if !has_no_table || !with_exp {
        for a in parts {
            for n in &a.names {
                if !hashes.contains(&(n.hash as u64)) {
                    hashes.push(n.hash as u64);
                }
                // absent hashes: same bucket, neighbouring bucket
                let h2 = n.hash.wrapping_add(a.bucket_count.max(1));
                for h in [h2 as u64, n.hash.wrapping_add(1) as u64] {
                    if rng.chance(1, 3) && !hashes.contains(&h) {
                        hashes.push(h);
                    }
                }
            }
        }
        hashes.push(0);
        hashes.push(u32::MAX as u64);
        hashes.dedup();
        let mut seen = std::collections::HashSet::new();
        hashes.retain(|h| seen.insert(*h));
    }
    for a in parts {
        let mut so = Vec::new();
        for n in &a.names {
            so.push(dstr.len() as u64);
            dstr.extend_from_slice(&n.s);
            dstr.push(0);
        }
        let (bs, exp) = ser_names(a, big, sec.len(), &so, &hashes);
        sec.extend(bs);
        exps.push(exp);
    }
    let hs = join(",", &hashes.iter().map(|x| x.to_string()).collect::<Vec<_>>());
    emit(format!("{} {} {} {} {} {}", op, es(big), hex(&sec), hex(&dstr), hs, if with_exp { join("#", &exps) } else { "-".into() }));
    (sec, dstr)
}

fn gen_names(ctx: &Ctx, emit: &mut dyn FnMut(String)) {
    let mut rng = ctx.rng(1704);
    let reps = ctx.n(12, 150);
    let mut keep: Vec<(bool, Vec<u8>, Vec<u8>)> = Vec::new();
    for bucket_mode in 0..5u64 {
        for nnames in [0usize, 1, 2, 3, 5, 8, 13] {
            for rep in 0..reps {
                if nnames > 5 && rep >= reps / 2 {
                    break;
                }
                let big = rng.chance(1, 2);
                let nparts = if rng.chance(1, 5) { 2 } else { 1 };
                let parts: Vec<AbsNames> = (0..nparts).map(|_| gen_abs_names(&mut rng, bucket_mode, nnames)).collect();
                let (sec, dstr) = emit_names(&mut rng, big, &parts, emit, true, "nm");
                if bucket_mode == 0 || rep == 0 {
                    // hash queries without a hash table; out-of-range indexes: correspondence only
                    emit_names(&mut rng, big, &parts, emit, false, "nm-oob");
                }
                if rep < 2 && nnames <= 5 && nnames > 0 {
                    keep.push((big, sec, dstr));
                }
            }
        }
    }
    // malformed: truncation at every byte (small tables), single byte mutations, header field
    // sweeps; tables whose names are not grouped by bucket; buckets pointing past the names
    let mut k = 0;
    for (big, sec, dstr) in &keep {
        k += 1;
        let step = if ctx.tier == Tier::Thorough { 1 } else { 1 + sec.len() / 24 };
        for cut in (0..sec.len()).step_by(step) {
            emit(format!("nm {} {} {} 0,1,5381 -", es(*big), hex(&sec[..cut]), hex(dstr)));
        }
        let nmut = ctx.n(24, 400);
        for _ in 0..nmut {
            let mut b = sec.clone();
            for _ in 0..rng.range(1, 2) {
                let i = rng.below(b.len() as u64) as usize;
                b[i] = match rng.below(5) {
                    0 => 0,
                    1 => 0xff,
                    2 => b[i].wrapping_add(1),
                    3 => b[i].wrapping_sub(1),
                    _ => rng.next() as u8,
                };
            }
            let hs = format!("{},{},0", rng.next() as u32, rng.below(16));
            emit(format!("{} {} {} {} {} -", if k % 2 == 0 { "nm" } else { "nm-oob" }, es(*big), hex(&b), hex(dstr), hs));
        }
        // `.debug_str` too short / without NUL
        emit(format!("nm {} {} {} 0 -", es(*big), hex(sec), hex(&dstr[..dstr.len() / 2])));
        emit(format!("nm {} {} - 0 -", es(*big), hex(sec)));
    }
    // version / reserved length / augmentation size sweeps on a tiny index
    for big in [false, true] {
        for f64_ in [false, true] {
            let a = AbsNames {
                f64_,
                aug: vec![],
                cus: vec![0x10],
                ltus: vec![],
                ftus: vec![7],
                bucket_count: 2,
                names: vec![NName { s: b"a".to_vec(), hash: 4, entries: vec![NEntry { ab: 0, vals: vec![0, 9], parent: (0, 0) }], terminated: true }],
                abbrevs: vec![NAbbrev { code: 1, tag: 0x2e, attrs: vec![(1, 0x0b), (3, 0x13)] }],
                abbrev_terminator: true,
            };
            for auglen in 0..=9usize {
                let mut a2 = a.clone();
                a2.aug = (0..auglen as u8).map(|x| x + 0x41).collect();
                emit_names(&mut rng, big, &[a2], emit, true, "nm");
            }
            let (bs, _) = ser_names(&a, big, 0, &[2], &[]);
            let hl = if f64_ { 12 } else { 4 };
            for v in [0u16, 1, 2, 3, 4, 6, 0x0500, 0xffff] {
                let mut b = bs.clone();
                let vb = if big { v.to_be_bytes() } else { v.to_le_bytes() };
                b[hl] = vb[0];
                b[hl + 1] = vb[1];
                emit(format!("nm {} {} 780061 4 -", es(big), hex(&b)));
            }
            // every header count field set to boundary values
            for field in 0..7usize {
                for v in [0u32, 1, 2, 3, 0x7fff_ffff, 0xffff_ffff, 0x4000_0000] {
                    let mut b = bs.clone();
                    let at = hl + 4 + 4 * field;
                    let vb = if big { v.to_be_bytes() } else { v.to_le_bytes() };
                    b[at..at + 4].copy_from_slice(&vb);
                    emit(format!("nm-oob {} {} 780061 4,5 -", es(big), hex(&b)));
                }
            }
        }
    }
    // abbreviation table edge cases (tag 0, name 0 / form 0, duplicate codes, unknown forms,
    // unknown code in the pool, code 0 first)
    let abbrev_cases: Vec<(Vec<NAbbrev>, &str)> = vec![
        (vec![NAbbrev { code: 1, tag: 0, attrs: vec![] }], "tag0"),
        (vec![NAbbrev { code: 1, tag: 5, attrs: vec![(0, 0x0b)] }], "name0"),
        (vec![NAbbrev { code: 1, tag: 5, attrs: vec![(3, 0)] }], "form0"),
        (vec![NAbbrev { code: 1, tag: 5, attrs: vec![(3, 0x13)] }, NAbbrev { code: 1, tag: 6, attrs: vec![(3, 0x11)] }], "dup"),
        (vec![NAbbrev { code: 1, tag: 5, attrs: vec![(3, 0x08)] }], "badform"),
        (vec![NAbbrev { code: 1, tag: 5, attrs: vec![(3, 0x1f01)] }], "bigform"),
        (vec![NAbbrev { code: 2, tag: 5, attrs: vec![(3, 0x13)] }], "unknowncode"),
        (vec![NAbbrev { code: 1, tag: 5, attrs: vec![(1, 0x07), (2, 0x07), (3, 0x0b), (4, 0x0c), (5, 0x11)] }], "wrongforms"),
        (vec![NAbbrev { code: 1, tag: 5, attrs: vec![(3, 0x13), (3, 0x11), (4, 0x19), (4, 0x13)] }], "dupattr"),
    ];
    for (abs_, what) in abbrev_cases {
        for big in [false, true] {
            let ab_idx = if what == "unknowncode" { 0 } else { 0 };
            let nvals = abs_[0].attrs.len();
            let mut a = AbsNames {
                f64_: false,
                aug: vec![],
                cus: vec![0x10, 0x20],
                ltus: vec![0x30],
                ftus: vec![7],
                bucket_count: 1,
                names: vec![NName { s: b"a".to_vec(), hash: 4, entries: vec![NEntry { ab: ab_idx, vals: (0..nvals as u64).map(|i| if what == "wrongforms" { [0, 1, 2, 1, 3][i as usize] } else { 1 + i }).collect(), parent: (0, 0) }], terminated: true }],
                abbrevs: abs_.clone(),
                abbrev_terminator: true,
            };
            if what == "unknowncode" {
                // the pool uses code 2's encoding but the table only knows another code
                a.abbrevs[0].code = 3;
                let (mut bs, _) = ser_names(&a, big, 0, &[2], &[]);
                // patch the code in the table back to 2 -> pool entry (code 3) is unknown
                if let Some(p) = bs.iter().rposition(|b| *b == 3) {
                    let _ = p;
                }
                a.abbrevs[0].code = 2;
                let (bs2, _) = ser_names(&a, big, 0, &[2], &[]);
                // table from bs2, pool from bs: differ in exactly two bytes; take table byte only
                let d: Vec<usize> = (0..bs.len()).filter(|i| bs[*i] != bs2[*i]).collect();
                if d.len() == 2 {
                    bs[d[0]] = bs2[d[0]];
                }
                emit(format!("nm {} {} 780061 4 -", es(big), hex(&bs)));
            } else {
                let (bs, _) = ser_names(&a, big, 0, &[2], &[]);
                emit(format!("nm {} {} 780061 4 -", es(big), hex(&bs)));
            }
        }
    }
    // ungrouped names / buckets past the end: build a valid table, then scramble hashes/buckets
    let n = ctx.n(150, 3000);
    for _ in 0..n {
        let big = rng.chance(1, 2);
        let nn = rng.range(1, 6) as usize;
        let mut a = gen_abs_names(&mut rng, 4, nn);
        let mode = rng.below(3);
        if mode == 0 {
            // hashes no longer match the bucket grouping
            for nm in a.names.iter_mut() {
                if rng.chance(1, 2) {
                    nm.hash = rng.next() as u32;
                }
            }
            let bc = a.bucket_count;
            // keep the *order*; `ser_names` recomputes the bucket heads from the scrambled hashes
            let _ = bc;
        }
        let so: Vec<u64> = (0..a.names.len() as u64).map(|i| i * 2).collect();
        let dstr: Vec<u8> = (0..a.names.len()).flat_map(|_| [b'z', 0]).collect();
        let hashes: Vec<u64> = a.names.iter().map(|n| n.hash as u64).collect();
        let (mut bs, _) = ser_names(&a, big, 0, &so, &hashes);
        if mode >= 1 {
            // overwrite a bucket entry with an arbitrary start index
            let hl = if a.f64_ { 12 } else { 4 };
            let augpad = (a.aug.len() + 3) / 4 * 4;
            let wsz = if a.f64_ { 8 } else { 4 };
            let bstart = hl + 32 + augpad + a.cus.len() * wsz + a.ltus.len() * wsz + a.ftus.len() * 8;
            let b = rng.below(a.bucket_count as u64) as usize;
            let v = *rng.pick(&[0u32, 1, a.names.len() as u32, a.names.len() as u32 + 1, a.names.len() as u32 + 2, u32::MAX]);
            let vb = if big { v.to_be_bytes() } else { v.to_le_bytes() };
            bs[bstart + 4 * b..bstart + 4 * b + 4].copy_from_slice(&vb);
        }
        let hs = join(",", &hashes.iter().map(|x| x.to_string()).collect::<Vec<_>>());
        emit(format!("nm {} {} {} {} -", es(big), hex(&bs), hex(&dstr), hs));
    }
    // the DJB hash on ASCII strings
    let n = ctx.n(200, 5000);
    emit("djb-ascii -".into());
    for _ in 0..n {
        let len = rng.below(24) as usize;
        let s: Vec<u8> = (0..len).map(|_| if rng.chance(1, 3) { b'A' + rng.below(26) as u8 } else { rng.below(128) as u8 }).collect();
        emit(format!("djb-ascii {}", hex(&s)));
    }
}

// ---------- package units, indexed tables, loader wiring

/// position in the `secs` argument / `sliceOrder` for a column kind number of a version
fn slice_pos(version: u16, kind: u32) -> usize {
    match (version, kind) {
        (_, 3) => 0,
        (_, 1) => 1,
        (_, 4) => 2,
        (2, 5) => 3,
        (5, 5) => 4,
        (2, 7) => 5,
        (2, 8) => 6,
        (5, 7) => 6,
        (_, 6) => 7,
        (5, 8) => 8,
        (2, 2) => 9,
        _ => 0,
    }
}

fn gen_dwp(ctx: &Ctx, emit: &mut dyn FnMut(String)) {
    let mut rng = ctx.rng(1705);
    let n = ctx.n(250, 4000);
    for case in 0..n {
        let big = rng.chance(1, 2);
        let version: u16 = if rng.chance(1, 2) { 2 } else { 5 };
        let table = if version == 2 { V2_KINDS } else { V5_KINDS };
        let mut secs: Vec<Vec<u8>> = vec![Vec::new(); 10];
        let mut exp: Vec<String> = Vec::new();
        let mut ids_s: Vec<String> = Vec::new();
        let dstr = rng.bytes_below(6);
        let mut index_bytes: Vec<Vec<u8>> = Vec::new();
        let malformed = case % 10 == 9;
        for which in ["c", "t"] {
            let nunits = if which == "t" && rng.chance(1, 2) { 0 } else { rng.range(0, 5) as usize };
            if nunits == 0 && rng.chance(1, 2) {
                index_bytes.push(Vec::new()); // missing index section
                let id = rand_id(&mut rng);
                ids_s.push(format!("{which}{id}"));
                exp.push("n".into());
                continue;
            }
            let mut cols: Vec<u32> = table.iter().map(|x| x.0).filter(|_| rng.chance(2, 3)).collect();
            for i in (1..cols.len()).rev() {
                let j = rng.below(i as u64 + 1) as usize;
                cols.swap(i, j);
            }
            let k = {
                let mut k = 0;
                while (1usize << k) <= nunits {
                    k += 1;
                }
                k + rng.below(2) as u32
            };
            let regime = rng.below(4);
            let ids = gen_ids(&mut rng, k, nunits, regime);
            let nunits = ids.len();
            let kvs: Vec<(u64, u32)> = ids.iter().enumerate().map(|(i, id)| (*id, i as u32 + 1)).collect();
            let slots = build_slots(k, &kvs).unwrap();
            let mut offsets = vec![vec![0u32; cols.len()]; nunits];
            let mut sizes = vec![vec![0u32; cols.len()]; nunits];
            let mut contrib: Vec<Vec<Vec<u8>>> = vec![vec![Vec::new(); cols.len()]; nunits];
            for u in 0..nunits {
                for (c, kind) in cols.iter().enumerate() {
                    let sp = slice_pos(version, *kind);
                    if rng.chance(1, 4) {
                        let gap = rng.bytes_below(3);
                        secs[sp].extend(gap); // padding between contributions
                    }
                    let data = rng.bytes_below(7);
                    offsets[u][c] = secs[sp].len() as u32;
                    sizes[u][c] = data.len() as u32;
                    secs[sp].extend_from_slice(&data);
                    contrib[u][c] = data;
                }
            }
            if malformed && nunits > 0 && !cols.is_empty() {
                let u = rng.below(nunits as u64) as usize;
                let c = rng.below(cols.len() as u64) as usize;
                if rng.chance(1, 2) {
                    offsets[u][c] = offsets[u][c].wrapping_add(*rng.pick(&[1u32, 7, 0x100, 0xffff_ff00]));
                } else {
                    sizes[u][c] = sizes[u][c].wrapping_add(*rng.pick(&[1u32, 9, 0x8000_0000]));
                }
            }
            let ix = AbsIndex { version, k: Some(k), kvs: kvs.clone(), cols: cols.clone(), unit_count: nunits as u32, offsets, sizes };
            index_bytes.push(ser_index(&ix, big, &slots, 1u32 << k, None, 0));
            // every present key, some absent ones
            for (u, (id, row)) in kvs.iter().enumerate() {
                ids_s.push(format!("{which}{id}"));
                let mut sl = vec!["-".to_string(); 10];
                for (c, kind) in cols.iter().enumerate() {
                    sl[slice_pos(version, *kind)] = hex(&contrib[u][c]);
                }
                exp.push(format!("{}:{}|41444452,52414e474553,{},-,-,-", row, sl.join(","), hex(&dstr)));
            }
            for _ in 0..2 {
                let id = rand_id(&mut rng);
                if !kvs.iter().any(|x| x.0 == id) {
                    ids_s.push(format!("{which}{id}"));
                    exp.push("n".into());
                }
            }
            if rng.chance(1, 3) {
                ids_s.push(format!("{which}0"));
                exp.push("n".into());
            }
        }
        emit(format!(
            "dwp {} {} {} {} {} {} {}",
            es(big),
            hex(&index_bytes[0]),
            hex(&index_bytes[1]),
            secs.iter().map(|b| hex(b)).collect::<Vec<_>>().join(","),
            hex(&dstr),
            ids_s.join(","),
            if malformed { "-".to_string() } else { join(";", &exp) }
        ));
    }
    // index sections that do not parse: the package cannot be built
    for big in [false, true] {
        let e10 = vec!["-"; 10].join(",");
        emit(format!("dwp {} 01000000 - {} - c1 -", es(big), e10));
        emit(format!("dwp {} - 0500 {} - t1 -", es(big), e10));
        emit(format!("dwp {} - - {} - c1,t1,c0 -", es(big), e10));
    }
}

fn gen_indexed(ctx: &Ctx, emit: &mut dyn FnMut(String)) {
    let mut rng = ctx.rng(1706);
    let n = ctx.n(150, 3000);
    for _ in 0..n {
        let big = rng.chance(1, 2);
        // .debug_str_offsets: header junk, then `cnt` offsets
        let f64_ = rng.chance(1, 2);
        let wmask = if f64_ { u64::MAX } else { 0xffff_ffff };
        let base = rng.below(17) as usize;
        let cnt = rng.below(9) as usize;
        let vals: Vec<u64> = (0..cnt).map(|_| (if rng.chance(1, 3) { rng.boundary_u64() } else { rng.next() }) & wmask).collect();
        let mut w = W::new(big);
        w.bytes(&rng.bytes(base));
        for v in &vals {
            w.word(*v, f64_);
        }
        if rng.chance(1, 3) {
            w.bytes(&rng.bytes_below(if f64_ { 8 } else { 4 }));
        }
        let h = hex(&w.b);
        let fs = if f64_ { "64" } else { "32" };
        for (i, v) in vals.iter().enumerate() {
            emit(format!("stroff {} {} {} {} {} {}", es(big), fs, h, base, i, v));
        }
        for idx in [cnt as u64, cnt as u64 + 1, u64::MAX, u64::MAX / 4, u64::MAX / 8 + 1, 1 << 61, 1 << 62, rng.boundary_u64()] {
            emit(format!("stroff {} {} {} {} {} -", es(big), fs, h, base, idx));
        }
        emit(format!("stroff {} {} {} {} 0 -", es(big), fs, h, w.b.len() + rng.below(3) as usize));
        emit(format!("stroff {} {} {} {} 0 -", es(big), fs, h, rng.boundary_u64()));
        // .debug_addr
        let asz = *rng.pick(&[1u8, 2, 4, 8]);
        let amask = ar_mask(asz);
        let vals: Vec<u64> = (0..cnt).map(|_| (if rng.chance(1, 3) { rng.boundary_u64() } else { rng.next() }) & amask).collect();
        let mut w = W::new(big);
        w.bytes(&rng.bytes(base));
        for v in &vals {
            w.uint(*v, asz as usize);
        }
        let h = hex(&w.b);
        for (i, v) in vals.iter().enumerate() {
            emit(format!("addrx {} {} {} {} {} {}", es(big), asz, h, base, i, v));
        }
        for idx in [cnt as u64, u64::MAX, u64::MAX / asz as u64, (u64::MAX / asz as u64).wrapping_add(1), 1 << 63, rng.boundary_u64()] {
            emit(format!("addrx {} {} {} {} {} -", es(big), asz, h, base, idx));
        }
        let bad = *rng.pick(&[0u8, 3, 5, 7, 9, 16, 255]);
        emit(format!("addrx {} {} {} {} {} -", es(big), bad, h, base, rng.below(3)));
        emit(format!("addrx {} {} {} {} {} -", es(big), bad, h, base, u64::MAX));
    }
}


fn gen_attr(ctx: &Ctx, emit: &mut dyn FnMut(String)) {
    let mut rng = ctx.rng(1707);
    let n = ctx.n(120, 2500);
    for _ in 0..n {
        let big = rng.chance(1, 2);
        let f64_ = rng.chance(1, 2);
        let asz = *rng.pick(&[1u8, 2, 4, 8]);
        // string sections: a few NUL terminated strings each
        let mk_strs = |rng: &mut Rng, tag: u8| -> (Vec<u8>, Vec<(u64, Vec<u8>)>) {
            let mut sec = Vec::new();
            let mut at = Vec::new();
            for i in 0..rng.range(1, 4) {
                let s: Vec<u8> = (0..rng.below(5)).map(|j| tag + (i * 5 + j) as u8 % 20).collect();
                at.push((sec.len() as u64, s.clone()));
                sec.extend_from_slice(&s);
                sec.push(0);
            }
            (sec, at)
        };
        let (st, st_at) = mk_strs(&mut rng, b'a');
        let (lst, lst_at) = mk_strs(&mut rng, b'A');
        let (sup, sup_at) = mk_strs(&mut rng, b'0');
        let has_sup = rng.chance(2, 3);
        // .debug_str_offsets: header, then offsets of the strings of .debug_str (permuted)
        let sob = rng.range(0, 12);
        let mut so = W::new(big);
        so.bytes(&rng.bytes(sob as usize));
        let mut strx: Vec<(u64, Vec<u8>)> = Vec::new();
        for i in 0..rng.range(1, 5) {
            let (off, s) = rng.pick(&st_at).clone();
            so.word(off, f64_);
            strx.push((i, s));
        }
        // .debug_addr
        let ab = rng.range(0, 12);
        let mut ad = W::new(big);
        ad.bytes(&rng.bytes(ab as usize));
        let mut addrx: Vec<(u64, u64)> = Vec::new();
        for i in 0..rng.range(1, 5) {
            let v = rng.boundary_u64() & ar_mask(asz);
            ad.uint(v, asz as usize);
            addrx.push((i, v));
        }
        let pre = format!(
            "attr {} {} {} {} {} {} {} {} {} {}",
            es(big),
            if f64_ { "64" } else { "32" },
            asz,
            sob,
            ab,
            hex(&st),
            hex(&lst),
            hex(&so.b),
            hex(&ad.b),
            if has_sup { hex(&sup) } else { "~".into() }
        );
        let inl = rng.bytes_below(5);
        emit(format!("{pre} string {} s={}|a=~", hex(&inl), hex(&inl)));
        for (off, s) in &st_at {
            emit(format!("{pre} strp {off} s={}|a=~", hex(s)));
        }
        for (off, s) in &lst_at {
            emit(format!("{pre} linestrp {off} s={}|a=~", hex(s)));
        }
        for (off, s) in &sup_at {
            if has_sup {
                emit(format!("{pre} strpsup {off} s={}|a=~", hex(s)));
            } else {
                emit(format!("{pre} strpsup {off} s=!ExpectedStringAttributeValue|a=~"));
            }
        }
        for (i, s) in &strx {
            emit(format!("{pre} strx {i} s={}|a=~", hex(s)));
        }
        for (i, v) in &addrx {
            emit(format!("{pre} addrx {i} s=!ExpectedStringAttributeValue|a={v}"));
        }
        let a = rng.boundary_u64();
        emit(format!("{pre} addr {a} s=!ExpectedStringAttributeValue|a={a}"));
        emit(format!("{pre} udata {} s=!ExpectedStringAttributeValue|a=~", rng.boundary_u64()));
        emit(format!("{pre} flag 1 s=!ExpectedStringAttributeValue|a=~"));
        // out of range offsets / indexes: correspondence only
        emit(format!("{pre} strp {} -", st.len() as u64 + rng.below(3)));
        emit(format!("{pre} linestrp {} -", rng.boundary_u64()));
        emit(format!("{pre} strpsup {} -", sup.len() as u64 + rng.below(2)));
        emit(format!("{pre} strx {} -", strx.len() as u64 + rng.below(2)));
        emit(format!("{pre} strx {} -", rng.boundary_u64()));
        emit(format!("{pre} addrx {} -", addrx.len() as u64 + rng.below(2)));
        emit(format!("{pre} addrx {} -", rng.boundary_u64()));
    }
}


// ---------- tool-made tables (thorough tier): gcc/clang objects, dwp / llvm-dwp packages,
// expectations parsed from llvm-dwarfdump's dumps.  Everything is built under harness/target/.

const REAL_A: &str = "struct point { int x, y; };\nstatic int helper(int v) { return v * 3; }\nint alpha(struct point *p) { return helper(p->x) + p->y; }\nint Beta_Value = 7;\nint GAMMA(int q) { return q ^ Beta_Value; }\n";
const REAL_B: &str = "typedef struct node { struct node *next; long val; } node_t;\nlong walk(node_t *n) { long s = 0; while (n) { s += n->val; n = n->next; } return s; }\nunsigned char delta_tab[3] = {1, 2, 3};\nlong Walk2(node_t *n) { return walk(n) * 2; }\n";

fn tool(dir: &std::path::Path, cmd: &str, args: &[&str]) -> Option<String> {
    let out = std::process::Command::new("timeout").arg("30").arg(cmd).args(args).current_dir(dir).output().ok()?;
    if !out.status.success() {
        return None;
    }
    Some(String::from_utf8_lossy(&out.stdout).into_owned())
}

fn elf_section(dir: &std::path::Path, file: &str, name: &str) -> Vec<u8> {
    let tmp = "sec.bin";
    let _ = std::fs::remove_file(dir.join(tmp));
    // (`-O binary` drops non-alloc sections)
    if tool(dir, "objcopy", &["--dump-section", &format!("{name}={tmp}"), file, "objcopy.out"]).is_none() {
        return vec![];
    }
    std::fs::read(dir.join(tmp)).unwrap_or_default()
}

fn parse_hex_u64(s: &str) -> Option<u64> {
    u64::from_str_radix(s.trim().trim_start_matches("0x"), 16).ok()
}

/// `key = 0x…` fields of a llvm-dwarfdump header line
fn field(line: &str, key: &str) -> Option<u64> {
    let i = line.find(&format!("{key} = "))? + key.len() + 3;
    let rest = &line[i..];
    let end = rest.find(|c: char| c == ',' || c.is_whitespace()).unwrap_or(rest.len());
    parse_hex_u64(&rest[..end])
}

fn gen_real(ctx: &Ctx, emit: &mut dyn FnMut(String)) {
    if ctx.tier != Tier::Thorough {
        return;
    }
    let Ok(exe) = std::env::current_exe() else { return };
    // …/harness/target/<profile>/gvh -> …/harness/target/c17-real
    let Some(target) = exe.parent().and_then(|p| p.parent()) else { return };
    let dir = target.join("c17-real");
    if std::fs::create_dir_all(&dir).is_err() {
        return;
    }
    let _ = std::fs::write(dir.join("a.c"), REAL_A);
    let _ = std::fs::write(dir.join("b.c"), REAL_B);
    // --- linked objects: .debug_aranges, .debug_pubnames/.debug_pubtypes, .debug_names
    for (cc, ver) in [("gcc", "4"), ("gcc", "5"), ("clang", "4"), ("clang", "5")] {
        let so = format!("lib_{cc}{ver}.so");
        let mut args = vec!["-g".to_string(), format!("-gdwarf-{ver}"), "-gpubnames".into(), "-O1".into(), "-shared".into(), "-fPIC".into(), "a.c".into(), "b.c".into(), "-o".into(), so.clone()];
        if cc == "clang" {
            args.insert(0, "-gdwarf-aranges".into());
        }
        let argr: Vec<&str> = args.iter().map(|x| x.as_str()).collect();
        if tool(&dir, cc, &argr).is_none() {
            continue;
        }
        // aranges
        let ar = elf_section(&dir, &so, ".debug_aranges");
        if !ar.is_empty() {
            if let Some(dump) = tool(&dir, "llvm-dwarfdump", &["--debug-aranges", &so]) {
                let mut sets: Vec<String> = Vec::new();
                let mut off = 0u64;
                let mut ok = true;
                let mut cur: Option<(String, Vec<String>)> = None;
                for l in dump.lines() {
                    if l.starts_with("Address Range Header:") {
                        if let Some((h, e)) = cur.take() {
                            sets.push(format!("{h}={}", join(",", &e)));
                        }
                        let (Some(len), Some(ver), Some(cu), Some(asz)) = (field(l, "length"), field(l, "version"), field(l, "cu_offset"), field(l, "addr_size")) else {
                            ok = false;
                            break;
                        };
                        let fmt = if l.contains("DWARF64") { 64 } else { 32 };
                        cur = Some((format!("H:{off}:{fmt}:{ver}:{asz}:{len}:{cu}"), Vec::new()));
                        off += len + if fmt == 64 { 12 } else { 4 };
                    } else if l.starts_with('[') {
                        let t: Vec<&str> = l.trim_matches(|c| c == '[' || c == ')').split(", ").collect();
                        if let (Some(c), [a, b]) = (cur.as_mut(), &t[..]) {
                            if let (Some(a), Some(b)) = (parse_hex_u64(a), parse_hex_u64(b)) {
                                c.1.push(format!("{a}-{b}-{}", b - a));
                            } else {
                                ok = false;
                            }
                        }
                    }
                }
                if let Some((h, e)) = cur.take() {
                    sets.push(format!("{h}={}", join(",", &e)));
                }
                emit(format!("ar le {} {}", hex(&ar), if ok && !sets.is_empty() { join(";", &sets) } else { "-".into() }));
            }
        }
        // pubnames / pubtypes
        for (which, secname, flag) in [("names", ".debug_pubnames", "--debug-pubnames"), ("types", ".debug_pubtypes", "--debug-pubtypes")] {
            let pb = elf_section(&dir, &so, secname);
            if pb.is_empty() {
                continue;
            }
            let mut exp: Vec<String> = Vec::new();
            let mut ok = false;
            if let Some(dump) = tool(&dir, "llvm-dwarfdump", &[flag, &so]) {
                ok = true;
                let mut unit = 0u64;
                for l in dump.lines() {
                    if l.starts_with("length = ") {
                        match field(l, "unit_offset") {
                            Some(u) => unit = u,
                            None => ok = false,
                        }
                    } else if l.starts_with("0x") {
                        if let Some((o, n)) = l.split_once(' ') {
                            let n = n.trim().trim_matches('"');
                            match parse_hex_u64(o) {
                                Some(o) => exp.push(format!("{}:{}:{}", o, hex(n.as_bytes()), unit)),
                                None => ok = false,
                            }
                        }
                    }
                }
            }
            emit(format!("pub {} le {} {}", which, hex(&pb), if ok && !exp.is_empty() { join(",", &exp) } else { "-".into() }));
        }
        // names (clang -gdwarf-5): hashes from the dump are probed; the handler checks that every
        // name is found through the DJB hash of its string and through its bucket
        let nm = elf_section(&dir, &so, ".debug_names");
        if !nm.is_empty() {
            let st = elf_section(&dir, &so, ".debug_str");
            let mut hashes: Vec<String> = Vec::new();
            if let Some(dump) = tool(&dir, "llvm-dwarfdump", &["--debug-names", &so]) {
                for l in dump.lines() {
                    if let Some(h) = l.trim().strip_prefix("Hash: ") {
                        if let Some(h) = parse_hex_u64(h) {
                            hashes.push(h.to_string());
                            hashes.push((h ^ 1).to_string());
                        }
                    }
                }
            }
            emit(format!("nm le {} {} {} djb", hex(&nm), hex(&st), join(",", &hashes)));
        }
    }
    // --- split DWARF packages
    for (cc, ver, extra) in [("gcc", "4", "-fdebug-types-section"), ("clang", "4", "-fdebug-types-section"), ("clang", "5", "-fdebug-types-section"), ("gcc", "5", "-O1")] {
        let mut dwos = Vec::new();
        for f in ["a", "b"] {
            let o = format!("{f}_{cc}{ver}.o");
            if tool(&dir, cc, &["-c", "-g", &format!("-gdwarf-{ver}"), "-gsplit-dwarf", extra, "-O1", &format!("{f}.c"), "-o", &o]).is_some() {
                dwos.push(format!("{f}_{cc}{ver}.dwo"));
            }
        }
        if dwos.len() != 2 {
            continue;
        }
        for packer in ["dwp", "llvm-dwp"] {
            // llvm-dwp 14 does not terminate on gcc's DWARF 5 objects; GNU dwp 2.40 writes an empty index for DWARF 5
            if (packer == "llvm-dwp" && cc == "gcc" && ver == "5") || (packer == "dwp" && ver == "5") {
                continue;
            }
            let pk = format!("{packer}_{cc}{ver}.dwp");
            if tool(&dir, packer, &["-o", &pk, &dwos[0], &dwos[1]]).is_none() {
                continue;
            }
            let names = [".debug_abbrev.dwo", ".debug_info.dwo", ".debug_line.dwo", ".debug_loc.dwo", ".debug_loclists.dwo", ".debug_macinfo.dwo", ".debug_macro.dwo", ".debug_str_offsets.dwo", ".debug_rnglists.dwo", ".debug_types.dwo"];
            let secs: Vec<Vec<u8>> = names.iter().map(|n| elf_section(&dir, &pk, n)).collect();
            let cu = elf_section(&dir, &pk, ".debug_cu_index");
            let tu = elf_section(&dir, &pk, ".debug_tu_index");
            let st = elf_section(&dir, &pk, ".debug_str.dwo");
            if cu.is_empty() {
                continue;
            }
            let Some(dump) = tool(&dir, "llvm-dwarfdump", &["--debug-cu-index", "--debug-tu-index", &pk]) else { continue };
            let mut which = "c";
            let mut cols: Vec<usize> = Vec::new();
            let mut ids: Vec<String> = Vec::new();
            let mut exp_dump: Vec<String> = Vec::new();
            let mut exp_alone: Vec<String> = Vec::new();
            let mut ok = true;
            let alone: Vec<(Vec<u8>, Vec<u8>)> = dwos.iter().map(|d| (elf_section(&dir, d, ".debug_info.dwo"), elf_section(&dir, d, ".debug_abbrev.dwo"))).collect();
            for l in dump.lines() {
                if l.starts_with(".debug_tu_index") {
                    which = "t";
                } else if l.starts_with("Index") {
                    cols = l
                        .split_whitespace()
                        .skip(2)
                        .map(|c| match c {
                            "ABBREV" => 0,
                            "INFO" => 1,
                            "LINE" => 2,
                            "LOC" => 3,
                            "LOCLISTS" => 4,
                            "MACINFO" => 5,
                            "MACRO" => 6,
                            "STR_OFFSETS" => 7,
                            "RNGLISTS" => 8,
                            "TYPES" => 9,
                            _ => 99,
                        })
                        .collect();
                } else if let Some(rest) = l.trim_start().split_once(" 0x") {
                    if !rest.0.chars().all(|c| c.is_ascii_digit()) || rest.0.is_empty() {
                        continue;
                    }
                    let (sig, ranges) = rest.1.split_at(16);
                    let Some(sig) = parse_hex_u64(sig) else { continue };
                    let mut sl = vec!["-".to_string(); 10];
                    let rs: Vec<&str> = ranges.split('[').skip(1).collect();
                    if rs.len() != cols.len() || cols.contains(&99) {
                        ok = false;
                        continue;
                    }
                    for (c, r) in cols.iter().zip(rs.iter()) {
                        let t: Vec<&str> = r.trim().trim_end_matches(')').split(", ").collect();
                        if let [a, b] = &t[..] {
                            if let (Some(a), Some(b)) = (parse_hex_u64(a), parse_hex_u64(b)) {
                                if (b as usize) <= secs[*c].len() && a <= b {
                                    sl[*c] = hex(&secs[*c][a as usize..b as usize]);
                                    continue;
                                }
                            }
                        }
                        ok = false;
                    }
                    ids.push(format!("{which}{sig}"));
                    exp_dump.push(format!("*:{}|*", sl.join(",")));
                    // the same unit in its standalone object: .debug_info.dwo and .debug_abbrev.dwo are copied verbatim
                    let info = if which == "c" { &sl[1] } else { "" };
                    match alone.iter().find(|(i, _)| !i.is_empty() && hex(i) == *info) {
                        Some((i, ab)) => exp_alone.push(format!("*:{},{},*,*,*,*,*,*,*,*|*", hex(ab), hex(i))),
                        None => exp_alone.push("*".into()),
                    }
                }
            }
            if ids.is_empty() {
                continue;
            }
            ids.push("c1".into());
            exp_dump.push("n".into());
            exp_alone.push("n".into());
            let pre = format!("dwp le {} {} {} {} {}", hex(&cu), hex(&tu), secs.iter().map(|b| hex(b)).collect::<Vec<_>>().join(","), hex(&st), ids.join(","));
            emit(format!("{pre} {}", if ok { exp_dump.join(";") } else { "-".into() }));
            if exp_alone.iter().any(|x| x.len() > 1) {
                emit(format!("{pre} {}", exp_alone.join(";")));
            }
            emit(format!("ix-parse le {}", hex(&cu)));
        }
    }
}


fn gen_unit_bases(ctx: &Ctx, emit: &mut dyn FnMut(String)) {
    let mut rng = ctx.rng(1708);
    let reps = ctx.n(3, 40);
    for big in [false, true] {
        for f64_ in [false, true] {
            for ver in [4u16, 5] {
                for ft in ["main", "dwo", "dwp"] {
                    // which bases the root DIE gives explicitly: none / strings / addresses / all
                    for explicit in 0..4u32 {
                        for _ in 0..reps {
                            let asz = *rng.pick(&[1u8, 2, 4, 8]);
                            let ws = if f64_ { 8 } else { 4 };
                            let n = rng.range(1, 6) as usize;
                            // .debug_str and the table of offsets into it
                            let mut st: Vec<u8> = Vec::new();
                            let mut at: Vec<(u64, Vec<u8>)> = Vec::new();
                            for i in 0..rng.range(2, 5) {
                                let sbytes: Vec<u8> = (0..rng.below(4)).map(|j| b'a' + ((i * 3 + j) % 26) as u8).collect();
                                at.push((st.len() as u64, sbytes.clone()));
                                st.extend_from_slice(&sbytes);
                                st.push(0);
                            }
                            let entries: Vec<(u64, Vec<u8>)> = (0..n).map(|_| rng.pick(&at).clone()).collect();
                            // .debug_str_offsets: DWARF 5 has a header, the GNU v4 section has none;
                            // optionally another contribution in front (then only an explicit base can be right)
                            let mut so = W::new(big);
                            let front = explicit & 1 == 1 && rng.chance(1, 2);
                            if front {
                                let k = ws * rng.range(1, 3) as usize;
                                so.bytes(&rng.bytes(k));
                            }
                            if ver == 5 {
                                so.initial_length((4 + n * ws) as u64, f64_);
                                so.u16(5);
                                so.u16(0);
                            }
                            let so_start = so.b.len() as u64;
                            for (off, _) in &entries {
                                so.word(*off, f64_);
                            }
                            if rng.chance(1, 3) {
                                so.bytes(&rng.bytes_below(ws as u64));
                            }
                            // .debug_addr
                            let mut ad = W::new(big);
                            if ver == 5 {
                                ad.initial_length((4 + n * asz as usize) as u64, f64_);
                                ad.u16(5);
                                ad.u8(asz);
                                ad.u8(0);
                            }
                            let ad_start = ad.b.len() as u64;
                            let addrs: Vec<u64> = (0..n).map(|_| rng.boundary_u64() & ar_mask(asz)).collect();
                            for a in &addrs {
                                ad.uint(*a, asz as usize);
                            }
                            // explicit attributes (GNU names in version 4)
                            let mut attrs: Vec<(u64, u64)> = Vec::new();
                            let ll = rng.below(64);
                            let rl = rng.below(64);
                            if explicit & 1 == 1 {
                                attrs.push((0x72, so_start));
                            }
                            if explicit & 2 == 2 {
                                attrs.push((if ver == 5 { 0x73 } else { 0x2133 }, ad_start));
                            }
                            if explicit == 3 {
                                attrs.push((if ver == 5 { 0x74 } else { 0x2132 }, rl));
                                if ver == 5 {
                                    attrs.push((0x8c, ll));
                                }
                                if rng.chance(1, 3) {
                                    // a second, later attribute of the same kind wins
                                    attrs.insert(0, (0x72, rng.below(9)));
                                }
                            }
                            let dwo5 = ver >= 5 && ft != "main";
                            let so_base = if explicit & 1 == 1 { so_start } else if dwo5 { if f64_ { 16 } else { 8 } } else { 0 };
                            let ad_base = if explicit & 2 == 2 { ad_start } else { 0 };
                            let lists_default = if dwo5 { if f64_ { 20 } else { 12 } } else { 0 };
                            let rl_base = if explicit == 3 { rl } else { lists_default };
                            let ll_base = if explicit == 3 && ver == 5 { ll } else { lists_default };
                            // what a linear walk over the table the generator wrote yields
                            let exp_b = format!("B={so_base}:{ad_base}:{ll_base}:{rl_base}");
                            let (exp_s, exp_t) = if so_base == so_start {
                                (
                                    format!("S={}", join(",", &entries.iter().map(|x| x.0.to_string()).collect::<Vec<_>>())),
                                    format!("T={}", join(",", &entries.iter().map(|x| hex(&x.1)).collect::<Vec<_>>())),
                                )
                            } else {
                                ("S=*".to_string(), "T=*".to_string())
                            };
                            let exp_a = if ad_base == ad_start { format!("A={}", join(",", &addrs.iter().map(|x| x.to_string()).collect::<Vec<_>>())) } else { "A=*".to_string() };
                            let attrs_s = join(",", &attrs.iter().map(|(a, v)| format!("{a}:{v}")).collect::<Vec<_>>());
                            emit(format!(
                                "ub {} {} {} {} {} {} {} {} {} {} {}|{}|{}|{}",
                                es(big),
                                if f64_ { "64" } else { "32" },
                                ver,
                                ft,
                                asz,
                                attrs_s,
                                hex(&st),
                                hex(&so.b),
                                hex(&ad.b),
                                n,
                                exp_b,
                                exp_s,
                                exp_t,
                                exp_a
                            ));
                            // out-of-range probes and damaged tables: correspondence only
                            if rng.chance(1, 4) {
                                let cut = rng.below(so.b.len() as u64 + 1) as usize;
                                emit(format!(
                                    "ub {} {} {} {} {} {} {} {} {} {} -",
                                    es(big),
                                    if f64_ { "64" } else { "32" },
                                    ver,
                                    ft,
                                    asz,
                                    attrs_s,
                                    hex(&st[..st.len() / 2]),
                                    hex(&so.b[..cut]),
                                    hex(&ad.b),
                                    n + 2
                                ));
                            }
                        }
                    }
                }
            }
        }
    }
}


fn gen_skeleton_pairs(ctx: &Ctx, emit: &mut dyn FnMut(String)) {
    let mut rng = ctx.rng(1709);
    let reps = ctx.n(3, 40);
    for big in [false, true] {
        for f64_ in [false, true] {
            for ver in [4u16, 5] {
                for via in ["dwo", "dwp"] {
                    // skeleton's ranges base: absent / the first contribution of the main file / a later one
                    for skbase in 0..4u32 {
                        for _ in 0..reps {
                            let asz = *rng.pick(&[4u8, 8]);
                            let ws = if f64_ { 8usize } else { 4 };
                            let hdr = if f64_ { 20u64 } else { 12 };
                            let n = rng.range(1, 5) as usize;
                            // a DWARF 5 list table: header, offsets array (relative to the end of the
                            // header), then the lists themselves
                            let mk_table = |rng: &mut Rng| -> (Vec<u8>, Vec<u64>) {
                                let mut lists: Vec<u8> = Vec::new();
                                let mut offs: Vec<u64> = Vec::new();
                                for _ in 0..n {
                                    offs.push((n * ws + lists.len()) as u64);
                                    lists.extend(rng.bytes_below(4));
                                    lists.push(0);
                                }
                                if rng.chance(1, 4) {
                                    offs[0] = rng.boundary_u64() & if f64_ { u64::MAX } else { 0xffff_ffff };
                                }
                                let mut w = W::new(big);
                                w.initial_length((8 + n * ws + lists.len()) as u64, f64_);
                                w.u16(5);
                                w.u8(asz);
                                w.u8(0);
                                w.u32(n as u32);
                                for o in &offs {
                                    w.word(*o, f64_);
                                }
                                w.bytes(&lists);
                                (w.b, offs)
                            };
                            let (rtab, roffs) = mk_table(&mut rng);
                            let (ltab, loffs) = mk_table(&mut rng);
                            let gnu_v4_dwp = ver == 4 && via == "dwp"; // a v2 index has no list columns
                            let sk_rl: Option<u64> = match skbase {
                                0 => None,
                                1 => Some(hdr),
                                2 => Some(hdr + 8 * rng.range(1, 40)),
                                _ => Some(rng.boundary_u64() & if f64_ { u64::MAX } else { 0xffff_ffff }),
                            };
                            let sk_ab: Option<u64> = if rng.chance(2, 3) { Some(8 * rng.range(0, 9)) } else { None };
                            let sk_low: Option<u64> = if rng.chance(2, 3) { Some(rng.boundary_u64() & ar_mask(asz)) } else { None };
                            let mut skattrs: Vec<(u64, u64)> = Vec::new();
                            if let Some(a) = sk_ab {
                                skattrs.push((if ver == 5 { 0x73 } else { 0x2133 }, a));
                            }
                            if let Some(r) = sk_rl {
                                skattrs.push((if ver == 5 { 0x74 } else { 0x2132 }, r));
                            }
                            if ver == 5 && rng.chance(1, 3) {
                                skattrs.push((0x72, 8));
                                skattrs.push((0x8c, hdr + 40));
                            }
                            let raw = rng.below(1 << 20);
                            // expectations: a walk over what was written
                            let v5 = ver == 5;
                            let so = if v5 { if f64_ { 16 } else { 8 } } else { 0 };
                            let ll = if v5 { hdr } else { 0 };
                            let rl = if v5 { hdr } else { sk_rl.unwrap_or(0) };
                            let exp_b = format!("B={}:{}:{}:{}:{}", so, sk_ab.unwrap_or(0), ll, rl, sk_low.unwrap_or(0));
                            let col = |offs: &[u64]| -> String {
                                offs.iter().map(|o| match hdr.checked_add(*o) { Some(v) => v.to_string(), None => "!UnsupportedOffset".into() }).collect::<Vec<_>>().join(",")
                            };
                            let (exp_r, exp_l) = if v5 { (format!("R={}", col(&roffs)), format!("L={}", col(&loffs))) } else { ("R=*".into(), "L=*".into()) };
                            let exp_w = format!("W={}", if v5 { raw } else { raw.wrapping_add(rl) });
                            emit(format!(
                                "sk {} {} {} {} {} {} {} {} {} {} {} {}|{}|{}|{}|D=41444452,52414e474553",
                                es(big),
                                if f64_ { "64" } else { "32" },
                                ver,
                                via,
                                asz,
                                join(",", &skattrs.iter().map(|(a, v)| format!("{a}:{v}")).collect::<Vec<_>>()),
                                sk_low.map(|x| x.to_string()).unwrap_or("-".into()),
                                if gnu_v4_dwp { "-".to_string() } else { hex(&rtab) },
                                if gnu_v4_dwp { "-".to_string() } else { hex(&ltab) },
                                n,
                                raw,
                                exp_b,
                                if gnu_v4_dwp { "R=*".to_string() } else { exp_r },
                                if gnu_v4_dwp { "L=*".to_string() } else { exp_l },
                                exp_w
                            ));
                            if rng.chance(1, 5) && !gnu_v4_dwp {
                                // out-of-range indexes, truncated table: correspondence only
                                let cut = rng.below(rtab.len() as u64 + 1) as usize;
                                emit(format!(
                                    "sk {} {} {} {} {} {} - {} {} {} {} -",
                                    es(big),
                                    if f64_ { "64" } else { "32" },
                                    ver,
                                    via,
                                    asz,
                                    join(",", &skattrs.iter().map(|(a, v)| format!("{a}:{v}")).collect::<Vec<_>>()),
                                    hex(&rtab[..cut]),
                                    hex(&ltab),
                                    n + 2,
                                    u64::MAX - rng.below(3)
                                ));
                            }
                        }
                    }
                }
            }
        }
    }
}

pub fn gen(ctx: &Ctx, emit: &mut dyn FnMut(String)) {
    gen_index(ctx, emit);
    gen_aranges(ctx, emit);
    gen_pub(ctx, emit);
    gen_names(ctx, emit);
    gen_dwp(ctx, emit);
    gen_indexed(ctx, emit);
    gen_attr(ctx, emit);
    gen_unit_bases(ctx, emit);
    gen_skeleton_pairs(ctx, emit);
    gen_real(ctx, emit);
    emit("load-wiring".into());
}

#[allow(dead_code)]
fn _unused(_: EndianSlice<'static, RunTimeEndian>) {}
