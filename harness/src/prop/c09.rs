//! C09 — primitive codecs. Implementation side + direct oracle (u128 arithmetic).
use crate::prop::{Ctx, Tier};
use crate::util::{digest_step, hex, rerr, str_hash, unhex, werr, DIGEST_INIT};
use gimli::leb128;
use gimli::write::Writer;
use gimli::{BigEndian, EndianSlice, Format, LittleEndian, Reader, RunTimeEndian};

type Res<T> = Result<T, gimli::read::Error>;

fn vc<T: std::fmt::Display>(len: usize, rest: usize, r: Res<T>) -> String {
    match r {
        Ok(v) => format!("ok {} {}", v, len - rest),
        Err(e) => format!("err {}", rerr(&e)),
    }
}

/// mathematical decode of the first LEB128 number in `bs`: (value, consumed); `None` if no byte
/// without continuation bit
fn math_uleb(bs: &[u8]) -> Option<(u128, usize, bool)> {
    // returns (value mod 2^128, consumed, overflowed beyond 2^127)
    let mut v: u128 = 0;
    let mut big = false;
    for (i, b) in bs.iter().enumerate() {
        let low = (b & 0x7f) as u128;
        if 7 * i >= 121 {
            if low != 0 {
                big = true;
            }
        } else {
            v |= low << (7 * i);
        }
        if b & 0x80 == 0 {
            return Some((v, i + 1, big));
        }
    }
    None
}

fn oracle_uleb(bs: &[u8], r: &Res<u64>, consumed: usize, bits: u32, maxlen: usize) -> Option<String> {
    match (math_uleb(bs), r) {
        (Some((v, n, big)), Ok(got)) => {
            if big || v != *got as u128 || n != consumed || v >> bits != 0 {
                return Some(format!("wrong-value math={v} consumed={n} got={got}/{consumed}"));
            }
            None
        }
        (None, Ok(got)) => Some(format!("accepted-unterminated got={got}")),
        (Some((v, n, big)), Err(_)) => {
            if !big && v >> bits == 0 && n <= maxlen {
                Some(format!("rejected-fitting math={v} len={n}"))
            } else {
                None
            }
        }
        (None, Err(_)) => None,
    }
}

fn math_sleb(bs: &[u8]) -> Option<(i128, usize, bool)> {
    let (v, n, big) = math_uleb(bs)?;
    if 7 * n > 120 {
        return Some((0, n, big || true));
    }
    let sign = bs[n - 1] & 0x40 != 0;
    let v = if sign { v as i128 - (1i128 << (7 * n)) } else { v as i128 };
    Some((v, n, big))
}

fn with_endian<T: PartialEq + std::fmt::Debug>(
    e: &str,
    bs: &[u8],
    f: impl Fn(&mut dyn FnMut() -> ()) -> (),
) {
    let _ = (e, bs, f);
}

/// run `f` with the static endianity type and with `RunTimeEndian`; both must agree
macro_rules! both_endians {
    ($e:expr, $bs:expr, |$r:ident| $body:expr) => {{
        let big = $e == "be";
        let a = if big {
            let mut $r = EndianSlice::new($bs, BigEndian);
            let v = $body;
            (v, $r.len())
        } else {
            let mut $r = EndianSlice::new($bs, LittleEndian);
            let v = $body;
            (v, $r.len())
        };
        let b = {
            let mut $r = EndianSlice::new($bs, if big { RunTimeEndian::Big } else { RunTimeEndian::Little });
            let v = $body;
            (v, $r.len())
        };
        let agree = format!("{:?}", a) == format!("{:?}", b);
        (a.0, a.1, agree)
    }};
}

fn be_le_val(big: bool, bs: &[u8]) -> u128 {
    let mut v: u128 = 0;
    if big {
        for b in bs {
            v = (v << 8) | *b as u128;
        }
    } else {
        for b in bs.iter().rev() {
            v = (v << 8) | *b as u128;
        }
    }
    v
}

fn words_vc(r: &Res<u64>, consumed: usize) -> Vec<u64> {
    match r {
        Ok(v) => vec![0, *v, consumed as u64],
        Err(e) => vec![1, str_hash(&rerr(e))],
    }
}

fn enum_fold(len: usize, pre: &mut Vec<u8>, f: &mut dyn FnMut(&[u8]) -> Vec<u64>, h: &mut u64, bad: &mut Option<String>) {
    if pre.len() >= len {
        for w in f(pre) {
            *h = digest_step(*h, w);
        }
        return;
    }
    for b in 0..=255u8 {
        pre.push(b);
        enum_fold(len, pre, f, h, bad);
        pre.pop();
    }
}

pub fn handle(op: &str, a: &[&str]) -> Option<String> {
    let with_oracle = |s: String, o: Option<String>| match o {
        Some(w) => format!("{s} #oracle:{w}"),
        None => s,
    };
    match (op, a) {
        ("uleb", [h]) => {
            let bs = unhex(h)?;
            let mut r = EndianSlice::new(&bs, LittleEndian);
            let v = leb128::read::unsigned(&mut r);
            let consumed = bs.len() - r.len();
            let o = oracle_uleb(&bs, &v, consumed, 64, 10);
            // Reader::read_uleb128 must be the same function
            let mut r2 = EndianSlice::new(&bs, BigEndian);
            let v2 = r2.read_uleb128();
            let o = o.or_else(|| if format!("{v:?}") != format!("{v2:?}") { Some("read_uleb128-differs".into()) } else { None });
            Some(with_oracle(vc(bs.len(), r.len(), v), o))
        }
        ("u16leb", [h]) => {
            let bs = unhex(h)?;
            let mut r = EndianSlice::new(&bs, LittleEndian);
            let v = leb128::read::u16(&mut r);
            let consumed = bs.len() - r.len();
            let v64 = v.map(u64::from);
            let o = oracle_uleb(&bs, &v64, consumed, 16, 3);
            Some(with_oracle(vc(bs.len(), r.len(), v64), o))
        }
        ("ulebu32", [h]) => {
            let bs = unhex(h)?;
            let mut r = EndianSlice::new(&bs, LittleEndian);
            let v = r.read_uleb128_u32().map(u64::from);
            let consumed = bs.len() - r.len();
            let o = oracle_uleb(&bs, &v, consumed, 32, 10);
            Some(with_oracle(vc(bs.len(), r.len(), v), o))
        }
        ("sleb", [h]) => {
            let bs = unhex(h)?;
            let mut r = EndianSlice::new(&bs, LittleEndian);
            let v = leb128::read::signed(&mut r);
            let consumed = bs.len() - r.len();
            let o = match (math_sleb(&bs), &v) {
                (Some((m, n, big)), Ok(got)) => {
                    if big || m != *got as i128 || n != consumed {
                        Some(format!("wrong-value math={m} consumed={n} got={got}/{consumed}"))
                    } else {
                        None
                    }
                }
                (None, Ok(_)) => Some("accepted-unterminated".into()),
                (Some((m, n, big)), Err(_)) => {
                    if !big && n <= 10 && m >= i64::MIN as i128 && m <= i64::MAX as i128 {
                        Some(format!("rejected-fitting math={m} len={n}"))
                    } else {
                        None
                    }
                }
                (None, Err(_)) => None,
            };
            Some(with_oracle(vc(bs.len(), r.len(), v), o))
        }
        ("skipleb", [h]) => {
            let bs = unhex(h)?;
            let mut r = EndianSlice::new(&bs, LittleEndian);
            let v = leb128::read::skip(&mut r);
            let consumed = bs.len() - r.len();
            let o = match (math_uleb(&bs), &v) {
                (Some((_, n, _)), Ok(())) if n == consumed => None,
                (None, Err(_)) => None,
                _ => Some("skip-mismatch".to_string()),
            };
            Some(with_oracle(
                match v {
                    Ok(()) => format!("ok {consumed}"),
                    Err(e) => format!("err {}", rerr(&e)),
                },
                o,
            ))
        }
        ("encu", [v]) => {
            let v: u64 = v.parse().ok()?;
            let enc = leb128::write::Leb128::unsigned(v);
            let size = leb128::write::uleb128_size(v);
            let mut w = gimli::write::EndianVec::new(LittleEndian);
            w.write_uleb128(v).ok()?;
            let mut o = None;
            if w.slice() != enc.bytes() || enc.len() != enc.bytes().len() {
                o = Some("writer-differs".to_string());
            }
            let mut r = EndianSlice::new(enc.bytes(), LittleEndian);
            if leb128::read::unsigned(&mut r) != Ok(v) || !r.is_empty() {
                o = Some("roundtrip".into());
            }
            if size != enc.bytes().len() {
                o = Some("size".into());
            }
            Some(with_oracle(format!("ok {} {}", hex(enc.bytes()), size), o))
        }
        ("encs", [v]) => {
            let v: i64 = v.parse().ok()?;
            let enc = leb128::write::Leb128::signed(v);
            let size = leb128::write::sleb128_size(v);
            let mut w = gimli::write::EndianVec::new(LittleEndian);
            w.write_sleb128(v).ok()?;
            let mut o = None;
            if w.slice() != enc.bytes() {
                o = Some("writer-differs".to_string());
            }
            let mut r = EndianSlice::new(enc.bytes(), LittleEndian);
            if leb128::read::signed(&mut r) != Ok(v) || !r.is_empty() {
                o = Some("roundtrip".into());
            }
            if size != enc.bytes().len() {
                o = Some("size".into());
            }
            Some(with_oracle(format!("ok {} {}", hex(enc.bytes()), size), o))
        }
        ("fixed", [e, n, h]) => {
            let n: usize = n.parse().ok()?;
            let bs = unhex(h)?;
            let big = *e == "be";
            if *e != "be" && *e != "le" {
                return None;
            }
            let (v, rest, agree): (Res<u128>, usize, bool) = match n {
                1 => both_endians!(*e, &bs, |r| r.read_u8().map(u128::from)),
                2 => both_endians!(*e, &bs, |r| r.read_u16().map(u128::from)),
                4 => both_endians!(*e, &bs, |r| r.read_u32().map(u128::from)),
                8 => both_endians!(*e, &bs, |r| r.read_u64().map(u128::from)),
                16 => both_endians!(*e, &bs, |r| r.read_u128()),
                _ => return Some("bad-op".into()),
            };
            let mut o = if agree { None } else { Some("runtime-endian-differs".to_string()) };
            match &v {
                Ok(x) => {
                    if bs.len() < n || *x != be_le_val(big, &bs[..n]) || bs.len() - rest != n {
                        o = Some("wrong-value".into());
                    }
                }
                Err(_) => {
                    if bs.len() >= n {
                        o = Some("rejected".into());
                    }
                }
            }
            // signed variants agree with the two's complement reading
            if n == 8 {
                if let Ok(x) = &v {
                    let mut r = EndianSlice::new(&bs, if big { RunTimeEndian::Big } else { RunTimeEndian::Little });
                    if r.read_i64().ok() != Some(*x as u64 as i64) {
                        o = Some("i64".into());
                    }
                }
            }
            Some(with_oracle(vc(bs.len(), rest, v), o))
        }
        ("uint", [e, n, h]) => {
            let n: usize = n.parse().ok()?;
            let bs = unhex(h)?;
            if *e != "be" && *e != "le" {
                return None;
            }
            let big = *e == "be";
            let (v, rest, agree) = both_endians!(*e, &bs, |r| r.read_uint(n));
            let mut o = if agree { None } else { Some("runtime-endian-differs".to_string()) };
            match &v {
                Ok(x) => {
                    if bs.len() < n || *x as u128 != be_le_val(big, &bs[..n]) || bs.len() - rest != n {
                        o = Some("wrong-value".into());
                    }
                }
                Err(_) => {
                    if bs.len() >= n {
                        o = Some("rejected".into());
                    }
                }
            }
            Some(with_oracle(vc(bs.len(), rest, v), o))
        }
        ("addr", [e, n, h]) => {
            let n: u8 = n.parse().ok()?;
            let bs = unhex(h)?;
            if *e != "be" && *e != "le" {
                return None;
            }
            let big = *e == "be";
            let (v, rest, agree) = both_endians!(*e, &bs, |r| r.read_address(n));
            let mut o = if agree { None } else { Some("runtime-endian-differs".to_string()) };
            let valid = matches!(n, 1 | 2 | 4 | 8);
            match &v {
                Ok(x) => {
                    if !valid || bs.len() < n as usize || *x as u128 != be_le_val(big, &bs[..n as usize]) || bs.len() - rest != n as usize {
                        o = Some("wrong-value".into());
                    }
                }
                Err(_) => {
                    if valid && bs.len() >= n as usize {
                        o = Some("rejected".into());
                    }
                }
            }
            Some(with_oracle(vc(bs.len(), rest, v), o))
        }
        ("addrsize", [h]) => {
            let bs = unhex(h)?;
            let mut r = EndianSlice::new(&bs, LittleEndian);
            let v = r.read_address_size().map(u64::from);
            let o = match (&v, bs.first()) {
                (Ok(x), Some(b)) if *x == *b as u64 && matches!(b, 1 | 2 | 4 | 8) => None,
                (Err(_), Some(b)) if !matches!(b, 1 | 2 | 4 | 8) => None,
                (Err(_), None) => None,
                _ => Some("addrsize".to_string()),
            };
            Some(with_oracle(vc(bs.len(), r.len(), v), o))
        }
        ("sizedoff", [e, ob, n, h]) => {
            if *ob != "64" {
                return Some("bad-op".into());
            }
            let n: u8 = n.parse().ok()?;
            let bs = unhex(h)?;
            if *e != "be" && *e != "le" {
                return None;
            }
            let big = *e == "be";
            let (v, rest, agree) = both_endians!(*e, &bs, |r| r.read_sized_offset(n).map(|x| x as u64));
            let mut o = if agree { None } else { Some("runtime-endian-differs".to_string()) };
            let valid = matches!(n, 1 | 2 | 4 | 8);
            match &v {
                Ok(x) => {
                    if !valid || bs.len() < n as usize || *x as u128 != be_le_val(big, &bs[..n as usize]) || bs.len() - rest != n as usize {
                        o = Some("wrong-value".into());
                    }
                }
                Err(_) => {
                    if valid && bs.len() >= n as usize {
                        o = Some("rejected".into());
                    }
                }
            }
            Some(with_oracle(vc(bs.len(), rest, v), o))
        }
        ("word", [e, ob, f, h]) => {
            if *ob != "64" {
                return Some("bad-op".into());
            }
            let bs = unhex(h)?;
            let format = match *f {
                "32" => Format::Dwarf32,
                "64" => Format::Dwarf64,
                _ => return None,
            };
            if *e != "be" && *e != "le" {
                return None;
            }
            let big = *e == "be";
            let n = format.word_size() as usize;
            let (v, rest, agree) = both_endians!(*e, &bs, |r| r.read_offset(format).map(|x| x as u64));
            let (v2, _, _) = both_endians!(*e, &bs, |r| r.read_length(format).map(|x| x as u64));
            let mut o = if agree && format!("{v:?}") == format!("{v2:?}") { None } else { Some("variants-differ".to_string()) };
            match &v {
                Ok(x) => {
                    if bs.len() < n || *x as u128 != be_le_val(big, &bs[..n]) || bs.len() - rest != n {
                        o = Some("wrong-value".into());
                    }
                }
                Err(_) => {
                    if bs.len() >= n {
                        o = Some("rejected".into());
                    }
                }
            }
            Some(with_oracle(vc(bs.len(), rest, v), o))
        }
        ("initlen", [e, ob, h]) => {
            if *ob != "64" {
                return Some("bad-op".into());
            }
            let bs = unhex(h)?;
            if *e != "be" && *e != "le" {
                return None;
            }
            let big = *e == "be";
            let (v, rest, agree) = both_endians!(*e, &bs, |r| r.read_initial_length());
            let mut o = if agree { None } else { Some("runtime-endian-differs".to_string()) };
            let consumed = bs.len() - rest;
            // direct oracle
            if bs.len() >= 4 {
                let w = be_le_val(big, &bs[..4]);
                match &v {
                    Ok((len, Format::Dwarf32)) => {
                        if !(w < 0xffff_fff0 && *len as u128 == w && consumed == 4) {
                            o = Some("initlen32".into());
                        }
                    }
                    Ok((len, Format::Dwarf64)) => {
                        if !(w == 0xffff_ffff && bs.len() >= 12 && *len as u128 == be_le_val(big, &bs[4..12]) && consumed == 12) {
                            o = Some("initlen64".into());
                        }
                    }
                    Err(_) => {
                        if w < 0xffff_fff0 || (w == 0xffff_ffff && bs.len() >= 12) {
                            o = Some("rejected".into());
                        }
                    }
                }
            } else if v.is_ok() {
                o = Some("accepted-short".into());
            }
            let s = match v {
                Ok((len, f)) => format!("ok {} {} {}", len, if f == Format::Dwarf32 { "32" } else { "64" }, consumed),
                Err(e) => format!("err {}", rerr(&e)),
            };
            Some(with_oracle(s, o))
        }
        ("udata", [e, v, n]) | ("sdata", [e, v, n]) => {
            let n: u8 = n.parse().ok()?;
            if *e != "be" && *e != "le" {
                return None;
            }
            let big = *e == "be";
            let signed = op == "sdata";
            let (res, bytes) = {
                macro_rules! go {
                    ($end:expr) => {{
                        let mut w = gimli::write::EndianVec::new($end);
                        let r = if signed { w.write_sdata(v.parse::<i64>().ok()?, n) } else { w.write_udata(v.parse::<u64>().ok()?, n) };
                        (r, w.into_vec())
                    }};
                }
                if big { go!(RunTimeEndian::Big) } else { go!(LittleEndian) }
            };
            let mut o = None;
            match &res {
                Ok(()) => {
                    // read back
                    let got = be_le_val(big, &bytes);
                    let ok = if signed {
                        let x: i64 = v.parse().ok()?;
                        let bits = 8 * n as u32;
                        let back = if bits == 64 { got as u64 as i64 } else { (((got as u64) << (64 - bits)) as i64) >> (64 - bits) };
                        back == x && bytes.len() == n as usize
                    } else {
                        got == v.parse::<u64>().ok()? as u128 && bytes.len() == n as usize
                    };
                    if !ok || !matches!(n, 1 | 2 | 4 | 8) {
                        o = Some("roundtrip".to_string());
                    }
                }
                Err(_) => {
                    if matches!(n, 1 | 2 | 4 | 8) {
                        let fits = if signed {
                            let x: i64 = v.parse().ok()?;
                            n == 8 || (x >= -(1i64 << (8 * n - 1)) && x < (1i64 << (8 * n - 1)))
                        } else {
                            let x: u64 = v.parse().ok()?;
                            n == 8 || x < (1u64 << (8 * n))
                        };
                        if fits {
                            o = Some("rejected-fitting".into());
                        }
                    }
                    if !bytes.is_empty() {
                        o = Some("partial-write".into());
                    }
                }
            }
            let s = match res {
                Ok(()) => format!("ok {}", hex(&bytes)),
                Err(e) => format!("err {}", werr(&e)),
            };
            Some(with_oracle(s, o))
        }
        ("winitlen", [e, f, v]) => {
            let v: u64 = v.parse().ok()?;
            let format = match *f {
                "32" => Format::Dwarf32,
                "64" => Format::Dwarf64,
                _ => return None,
            };
            if *e != "be" && *e != "le" {
                return None;
            }
            let big = *e == "be";
            let mut w = gimli::write::EndianVec::new(if big { RunTimeEndian::Big } else { RunTimeEndian::Little });
            let res = w.write_initial_length(format).and_then(|off| w.write_initial_length_at(off, v, format));
            let mut o = None;
            let s = match res {
                Ok(()) => {
                    let bytes = w.slice().to_vec();
                    let mut r = EndianSlice::new(&bytes, if big { RunTimeEndian::Big } else { RunTimeEndian::Little });
                    match r.read_initial_length() {
                        Ok((l, f2)) if l as u64 == v && f2 == format && r.is_empty() => {}
                        // a 32-bit length >= 0xffff_fff0 cannot be read back: the writer does not reject it
                        other => o = Some(format!("readback {:?}", other)),
                    }
                    format!("ok {}", hex(&bytes))
                }
                Err(e) => format!("err {}", werr(&e)),
            };
            Some(with_oracle(s, o))
        }
        ("wfixed", [e, n, v]) => {
            let n: usize = n.parse().ok()?;
            let v: u128 = v.parse().ok()?;
            if *e != "be" && *e != "le" {
                return None;
            }
            let big = *e == "be";
            let mut w = gimli::write::EndianVec::new(if big { RunTimeEndian::Big } else { RunTimeEndian::Little });
            match n {
                1 => w.write_u8(v as u8),
                2 => w.write_u16(v as u16),
                4 => w.write_u32(v as u32),
                8 => w.write_u64(v as u64),
                16 => w.write_u128(v),
                _ => return Some("bad-op".into()),
            }
            .ok()?;
            let bytes = w.into_vec();
            let o = if be_le_val(big, &bytes) == v && bytes.len() == n { None } else { Some("roundtrip".to_string()) };
            Some(with_oracle(format!("ok {}", hex(&bytes)), o))
        }
        ("blk-u16leb", [len, pre]) | ("blk-uleb", [len, pre]) | ("blk-sleb", [len, pre]) => {
            let len: usize = len.parse().ok()?;
            let mut pre = unhex(pre)?;
            let mut h = DIGEST_INIT;
            let mut bad: Option<String> = None;
            let mut badc = 0u64;
            let mut f = |bs: &[u8]| -> Vec<u64> {
                let mut r = EndianSlice::new(bs, LittleEndian);
                match op {
                    "blk-u16leb" => {
                        let v = leb128::read::u16(&mut r).map(u64::from);
                        let c = bs.len() - r.len();
                        if let Some(w) = oracle_uleb(bs, &v, c, 16, 3) {
                            badc += 1;
                            bad.get_or_insert(format!("{}:{}", hex(bs), w));
                        }
                        words_vc(&v, c)
                    }
                    "blk-uleb" => {
                        let v = leb128::read::unsigned(&mut r);
                        let c = bs.len() - r.len();
                        if let Some(w) = oracle_uleb(bs, &v, c, 64, 10) {
                            badc += 1;
                            bad.get_or_insert(format!("{}:{}", hex(bs), w));
                        }
                        words_vc(&v, c)
                    }
                    _ => {
                        let v = leb128::read::signed(&mut r);
                        let c = bs.len() - r.len();
                        match (math_sleb(bs), &v) {
                            (Some((m, n, big)), Ok(got)) if big || m != *got as i128 || n != c => {
                                badc += 1;
                                bad.get_or_insert(format!("{}:wrong", hex(bs)));
                            }
                            (None, Ok(_)) => {
                                badc += 1;
                                bad.get_or_insert(format!("{}:unterminated", hex(bs)));
                            }
                            (Some((m, n, big)), Err(_)) if !big && n <= 10 && m >= i64::MIN as i128 && m <= i64::MAX as i128 => {
                                badc += 1;
                                bad.get_or_insert(format!("{}:rejected", hex(bs)));
                            }
                            _ => {}
                        }
                        words_vc(&v.map(|x| x as u64), c)
                    }
                }
            };
            let mut dummy = None;
            enum_fold(len, &mut pre, &mut f, &mut h, &mut dummy);
            Some(with_oracle(format!("digest {h}"), bad.map(|b| format!("{badc}-cases-first={b}"))))
        }
        _ => None,
    }
}

const TAILS: &[u8] = &[0x00, 0x01, 0x02, 0x7e, 0x7f, 0x80, 0x81, 0xfe, 0xff];

pub fn gen(ctx: &Ctx, emit: &mut dyn FnMut(String)) {
    let mut rng = ctx.rng(9);
    // exhaustive blocks (digest): every string of length <=2 (quick) / <=3 (thorough) for the
    // 16-bit reader, 1..3-byte strings for the 64-bit readers
    for len in 0..=2usize {
        emit(format!("blk-u16leb {len} -"));
        emit(format!("blk-uleb {len} -"));
        emit(format!("blk-sleb {len} -"));
    }
    if ctx.tier == Tier::Thorough {
        for b in 0..=255u8 {
            emit(format!("blk-u16leb 3 {:02x}", b));
            emit(format!("blk-uleb 3 {:02x}", b));
            emit(format!("blk-sleb 3 {:02x}", b));
        }
    } else {
        // quick: a seed-chosen sample of the 256 length-3 blocks
        for _ in 0..8 {
            let b = rng.below(256) as u8;
            emit(format!("blk-u16leb 3 {:02x}", b));
            emit(format!("blk-uleb 3 {:02x}", b));
            emit(format!("blk-sleb 3 {:02x}", b));
        }
    }
    // every 1..2-byte string individually (so that a digest mismatch is localised cheaply)
    for b in 0..=255u8 {
        emit(format!("u16leb {:02x}", b));
        emit(format!("uleb {:02x}", b));
        emit(format!("sleb {:02x}", b));
    }
    // all boundary 9..11-byte strings: continuation prefix, then every combination of tail bytes
    for total in 9..=11usize {
        for fill in [0x80u8, 0xff, 0x81] {
            for &t1 in TAILS {
                for &t2 in TAILS {
                    for &t3 in TAILS {
                        let mut bs = vec![fill; total - 3];
                        bs.extend_from_slice(&[t1, t2, t3]);
                        let h = hex(&bs);
                        emit(format!("uleb {h}"));
                        emit(format!("sleb {h}"));
                        if fill == 0x80 && t1 >= 0x80 {
                            emit(format!("ulebu32 {h}"));
                            emit(format!("skipleb {h}"));
                        }
                    }
                }
            }
        }
    }
    // ulebu32 boundaries
    for v in [0u64, 0x7f, 0x80, 0xffff_ffff, 0x1_0000_0000, 0xffff_fffe, u64::MAX] {
        let enc = leb128::write::Leb128::unsigned(v);
        emit(format!("ulebu32 {}", hex(enc.bytes())));
        let mut padded = enc.bytes().to_vec();
        let n = padded.len();
        padded[n - 1] |= 0x80;
        padded.push(0);
        emit(format!("ulebu32 {}", hex(&padded)));
        emit(format!("uleb {}", hex(&padded)));
    }
    // all 2^16 values for 16-bit write/read, both orders; and encode of the 16-bit range
    let step16 = if ctx.tier == Tier::Thorough { 1 } else { 1 };
    for v in (0..=0xffffu32).step_by(step16) {
        let e = if v & 1 == 0 { "le" } else { "be" };
        emit(format!("wfixed {e} 2 {v}"));
        if ctx.tier == Tier::Thorough || v % 7 == 0 {
            emit(format!("encu {v}"));
            emit(format!("encs {}", v as i32 - 0x8000));
            emit(format!("fixed {} 2 {:04x}", if v & 1 == 0 { "be" } else { "le" }, v));
        }
    }
    // random and boundary 64/128-bit values
    let n = ctx.n(4000, 200_000);
    for i in 0..n {
        let v = rng.boundary_u64();
        let s = rng.boundary_i64();
        let e = if rng.chance(1, 2) { "le" } else { "be" };
        emit(format!("encu {v}"));
        emit(format!("encs {s}"));
        // decode of the encoding followed by junk
        let mut bs = leb128::write::Leb128::unsigned(v).bytes().to_vec();
        bs.extend(rng.bytes_below(3));
        emit(format!("uleb {}", hex(&bs)));
        let mut bs = leb128::write::Leb128::signed(s).bytes().to_vec();
        bs.extend(rng.bytes_below(3));
        emit(format!("sleb {}", hex(&bs)));
        // random byte strings biased to continuation bytes
        let len = rng.below(13) as usize;
        let bs: Vec<u8> = (0..len).map(|_| if rng.chance(3, 4) { rng.next() as u8 | 0x80 } else { rng.next() as u8 }).collect();
        emit(format!("uleb {}", hex(&bs)));
        emit(format!("sleb {}", hex(&bs)));
        emit(format!("u16leb {}", hex(&bs[..bs.len().min(4)])));
        emit(format!("skipleb {}", hex(&bs)));
        // sized writes/reads
        let size = *rng.pick(&[1u8, 2, 4, 8, 0, 3, 16, 255]);
        emit(format!("udata {e} {v} {size}"));
        emit(format!("sdata {e} {s} {size}"));
        let w = *rng.pick(&[1usize, 2, 4, 8, 16]);
        let val: u128 = ((rng.boundary_u64() as u128) << 64 | rng.boundary_u64() as u128) & if w == 16 { u128::MAX } else { (1u128 << (8 * w)) - 1 };
        emit(format!("wfixed {e} {w} {val}"));
        let bs = rng.bytes_below(18);
        emit(format!("fixed {e} {w} {}", hex(&bs)));
        if i % 4 == 0 {
            let f = if rng.chance(1, 2) { "32" } else { "64" };
            emit(format!("winitlen {e} {f} {}", rng.boundary_u64()));
            let mut bs = rng.bytes_below(14);
            if rng.chance(1, 2) && bs.len() >= 4 {
                let k = *rng.pick(&[0xffu8, 0xf0, 0xef, 0xfe]);
                if e == "le" {
                    bs[0] = k;
                    bs[1] = 0xff;
                    bs[2] = 0xff;
                    bs[3] = 0xff;
                } else {
                    bs[3] = k;
                    bs[0] = 0xff;
                    bs[1] = 0xff;
                    bs[2] = 0xff;
                }
            }
            emit(format!("initlen {e} 64 {}", hex(&bs)));
            emit(format!("word {e} 64 {f} {}", hex(&bs)));
        }
    }
    // every n in 1..8 for n-byte reads; every size argument 0..255 for sized reads
    for e in ["le", "be"] {
        for n in 0..=8usize {
            for len in [0usize, n.saturating_sub(1), n, n + 1, 9] {
                let bs = rng.bytes(len);
                emit(format!("uint {e} {n} {}", hex(&bs)));
            }
        }
        for size in 0..=255u32 {
            let bs = rng.bytes(9);
            emit(format!("addr {e} {size} {}", hex(&bs)));
            emit(format!("sizedoff {e} 64 {size} {}", hex(&bs)));
            emit(format!("addr {e} {size} {}", hex(&bs[..(size as usize).min(9).saturating_sub(1)])));
            emit(format!("udata {e} {} {size}", rng.boundary_u64()));
            emit(format!("sdata {e} {} {size}", rng.boundary_i64()));
            emit(format!("addrsize {:02x}{}", size, if size & 1 == 0 { "" } else { "aa" }));
        }
    }
    emit("addrsize -".into());
}
