//! C12, frame-table component — `FrameTable::from` (read → write conversion of `.debug_frame` /
//! `.eh_frame`) preserves the unwind rows and the CIE parameters, or fails.
//!
//! `c12-cfi <df|eh> <le|be> <address size> <section hex>`: the section is read with
//! `DebugFrame` / `EhFrame` (`set_address_size`, vendor AArch64), converted with
//! `FrameTable::from(&section, &|a| Some(Address::Constant(a)))` and written with
//! `write_debug_frame` / `write_eh_frame`.  Reply: `ok <output hex>` |
//! `ok failed:convert:<ConvertError>` | `ok failed:write:<write::Error>`; the Lean Model
//! (`Model/ConvFrame.lean` ∘ `Model/WCfi.lean`, on C05's entry Model and C06's decoder) predicts
//! it byte for byte.
//!
//! Direct oracle (independent of the Model): input and output are both read back with gimli and
//! compared FDE by FDE — `#oracle:rows-differ` when the address range or the unwind rows differ
//! (rows as a map address → rules over the FDE's range: empty rows dropped, adjacent rows with equal
//! rules merged), `#oracle:cie-params-differ` when version, format, address size, alignment
//! factors, return address register, augmentation (personality, LSDA / FDE encodings, signal
//! trampoline) or the FDE's LSDA differ.  Nothing is claimed for an FDE whose input rows gimli
//! itself cannot evaluate to the end.
use crate::prop::{Ctx, Tier};
use crate::util::{hex, rerr, unhex, Rng};
use gimli::write as w;
use gimli::{
    BaseAddresses, CfaRule, CieOrFde, DebugFrame, EhFrame, EndianSlice, Pointer, Register, RegisterRule, RunTimeEndian, UnwindContext,
    UnwindContextStorage, UnwindSection, UnwindTableRow, Vendor,
};

type Rd<'a> = EndianSlice<'a, RunTimeEndian>;

struct StVec;
impl<T: gimli::ReaderOffset> UnwindContextStorage<T> for StVec {
    type Rules = Vec<(Register, RegisterRule<T>)>;
    type Stack = Vec<UnwindTableRow<T, Self>>;
}

// ---------------------------------------------------------------- the request

fn cerr_name(e: &w::ConvertError) -> String {
    match e {
        w::ConvertError::Read(r) => format!("Read.{}", rerr(r)),
        w::ConvertError::Write(x) => format!("Write.{}", werr_plain(x)),
        other => {
            let s = format!("{other:?}");
            s.split(|c: char| c == '(' || c == ' ' || c == '{').next().unwrap_or("?").to_string()
        }
    }
}

fn werr_plain(e: &w::Error) -> String {
    let s = format!("{e:?}");
    s.split(|c: char| c == '(' || c == ' ' || c == '{').next().unwrap_or("?").to_string()
}

fn convert_write(eh: bool, endian: RunTimeEndian, asz: u8, sec: &[u8]) -> Result<Vec<u8>, String> {
    let conv = &|a| Some(w::Address::Constant(a));
    if eh {
        let mut s = EhFrame::new(sec, endian);
        s.set_address_size(asz);
        s.set_vendor(Vendor::AArch64);
        let t = w::FrameTable::from(&s, conv).map_err(|e| format!("failed:convert:{}", cerr_name(&e)))?;
        let mut o = w::EhFrame::from(w::EndianVec::new(endian));
        t.write_eh_frame(&mut o).map_err(|e| format!("failed:write:{}", werr_plain(&e)))?;
        Ok(o.slice().to_vec())
    } else {
        let mut s = DebugFrame::new(sec, endian);
        s.set_address_size(asz);
        s.set_vendor(Vendor::AArch64);
        let t = w::FrameTable::from(&s, conv).map_err(|e| format!("failed:convert:{}", cerr_name(&e)))?;
        let mut o = w::DebugFrame::from(w::EndianVec::new(endian));
        t.write_debug_frame(&mut o).map_err(|e| format!("failed:write:{}", werr_plain(&e)))?;
        Ok(o.slice().to_vec())
    }
}

// ---------------------------------------------------------------- reading a section for the oracle

fn ex_bytes(sec: &[u8], e: &gimli::UnwindExpression<usize>) -> String {
    match sec.get(e.offset..e.offset.wrapping_add(e.length)) {
        Some(b) => hex(b),
        None => format!("!oob{}+{}", e.offset, e.length),
    }
}

fn rule_s(r: &RegisterRule<usize>, sec: &[u8]) -> String {
    match r {
        RegisterRule::Undefined => "U".into(),
        RegisterRule::SameValue => "S".into(),
        RegisterRule::Offset(n) => format!("O{n}"),
        RegisterRule::ValOffset(n) => format!("V{n}"),
        RegisterRule::Register(r) => format!("R{}", r.0),
        RegisterRule::Expression(e) => format!("E{}", ex_bytes(sec, e)),
        RegisterRule::ValExpression(e) => format!("X{}", ex_bytes(sec, e)),
        RegisterRule::Architectural => "A".into(),
        RegisterRule::Constant(v) => format!("C{v}"),
        #[allow(unreachable_patterns)]
        other => format!("?{:?}", other).replace(' ', ""),
    }
}

fn ptr_s(p: Pointer) -> String {
    match p {
        Pointer::Direct(v) => format!("d{v}"),
        Pointer::Indirect(v) => format!("i{v}"),
    }
}

struct FdeView {
    /// CIE parameters and the FDE's LSDA, canonical text
    params: String,
    initial: u64,
    len: u64,
    /// the CIE's address size
    asz: u8,
    /// (start, end, rules text), `Err` when gimli cannot evaluate the rows to the end
    rows: Result<Vec<(u64, u64, String)>, String>,
}

fn view<'a, S: UnwindSection<Rd<'a>>>(s: &S, sec: &'a [u8]) -> Result<Vec<FdeView>, String> {
    let bases = BaseAddresses::default().set_eh_frame(0);
    let mut out = vec![];
    let mut it = s.entries(&bases);
    loop {
        let e = match it.next() {
            Ok(Some(e)) => e,
            Ok(None) => break,
            Err(e) => return Err(rerr(&e)),
        };
        let CieOrFde::Fde(p) = e else { continue };
        let f = p.parse(S::cie_from_offset).map_err(|e| rerr(&e))?;
        let c = f.cie();
        let enc = c.encoding();
        let params = format!(
            "v{} f{} a{} caf{} daf{} ra{} pers{:?} lsdaenc{:?} fdeenc{} sig{} lsda{:?}",
            c.version(),
            if enc.format == gimli::Format::Dwarf64 { 64 } else { 32 },
            c.address_size(),
            c.code_alignment_factor(),
            c.data_alignment_factor(),
            c.return_address_register().0,
            c.personality_with_encoding().map(|(e, p)| (e.0, ptr_s(p))),
            c.lsda_encoding().map(|e| e.0),
            c.fde_address_encoding().map(|e| e.0).unwrap_or(0),
            c.is_signal_trampoline(),
            f.lsda().map(ptr_s)
        );
        let mut ctx: Box<UnwindContext<usize, StVec>> = Box::new(UnwindContext::new_in());
        let rows = (|| {
            let mut table = f.rows(s, &bases, &mut ctx).map_err(|e| rerr(&e))?;
            let mut rows = vec![];
            loop {
                match table.next_row() {
                    Ok(Some(row)) => {
                        let cfa = match row.cfa() {
                            CfaRule::RegisterAndOffset { register, offset } => format!("ro:{}:{}", register.0, offset),
                            CfaRule::Expression(e) => format!("ex:{}", ex_bytes(sec, e)),
                        };
                        let mut listed: Vec<(u16, String)> = row.registers().map(|(r, rule)| (r.0, rule_s(rule, sec))).collect();
                        listed.sort();
                        let rules: Vec<String> = listed.iter().map(|(k, v)| format!("{k}={v}")).collect();
                        rows.push((row.start_address(), row.end_address(), format!("{cfa},{},{}", row.saved_args_size(), rules.join(";"))));
                    }
                    Ok(None) => return Ok(rows),
                    Err(e) => return Err(rerr(&e)),
                }
                if rows.len() > 100_000 {
                    return Err("too-many-rows".into());
                }
            }
        })();
        out.push(FdeView { params, initial: f.initial_address(), len: f.len(), asz: f.cie().address_size(), rows });
    }
    Ok(out)
}

/// rows as a map over `[initial, end)`: clipped, empty rows dropped, adjacent equal rules merged
fn canon_rows(rows: &[(u64, u64, String)], initial: u64, end: u64) -> Vec<(u64, u64, String)> {
    let mut out: Vec<(u64, u64, String)> = vec![];
    for (s, e, t) in rows {
        let s = (*s).max(initial);
        let e = (*e).min(end);
        if s >= e {
            continue;
        }
        if let Some(last) = out.last_mut() {
            if last.1 == s && last.2 == *t {
                last.1 = e;
                continue;
            }
        }
        out.push((s, e, t.clone()));
    }
    out
}

fn view_of(eh: bool, endian: RunTimeEndian, asz: u8, sec: &[u8]) -> Result<Vec<FdeView>, String> {
    if eh {
        let mut s = EhFrame::new(sec, endian);
        s.set_address_size(asz);
        s.set_vendor(Vendor::AArch64);
        view(&s, sec)
    } else {
        let mut s = DebugFrame::new(sec, endian);
        s.set_address_size(asz);
        s.set_vendor(Vendor::AArch64);
        view(&s, sec)
    }
}

fn oracle(eh: bool, endian: RunTimeEndian, asz: u8, input: &[u8], output: &[u8]) -> Option<String> {
    // the conversion succeeded, so the input parses (the converter read every FDE)
    let a = match view_of(eh, endian, asz, input) {
        Ok(v) => v,
        Err(e) => return Some(format!("input-unreadable converted although reading the input fails with {e}")),
    };
    let b = match view_of(eh, endian, asz, output) {
        Ok(v) => v,
        Err(e) => return Some(format!("rows-differ the output section does not parse: {e}")),
    };
    if a.len() != b.len() {
        return Some(format!("rows-differ {} FDEs in, {} FDEs out", a.len(), b.len()));
    }
    for (k, (x, y)) in a.iter().zip(b.iter()).enumerate() {
        let mask: u64 = if x.asz >= 8 || x.asz == 0 { u64::MAX } else { (1u64 << (8 * x.asz as u32)) - 1 };
        if x.params != y.params {
            return Some(format!("cie-params-differ fde {k}: in {} out {}", x.params.replace(' ', ","), y.params.replace(' ', ",")));
        }
        if x.initial != y.initial || x.len != y.len {
            return Some(format!("rows-differ fde {k}: range in {}+{} out {}+{}", x.initial, x.len, y.initial, y.len));
        }
        let Ok(rx) = &x.rows else { continue };
        let ry = match &y.rows {
            Ok(r) => r,
            Err(e) => return Some(format!("rows-differ fde {k}: input rows evaluate, output rows fail with {e}")),
        };
        let end = x.initial.wrapping_add(x.len) & mask;
        let (cx, cy) = (canon_rows(rx, x.initial, end), canon_rows(ry, x.initial, end));
        if cx != cy {
            let i = (0..cx.len().min(cy.len())).find(|&i| cx[i] != cy[i]).unwrap_or(cx.len().min(cy.len()));
            return Some(format!("rows-differ fde {k}: row {i}: in {} out {}", format!("{:?}", cx.get(i)).replace(' ', ""), format!("{:?}", cy.get(i)).replace(' ', "")));
        }
    }
    None
}

pub fn handle(op: &str, a: &[&str]) -> Option<String> {
    match (op, a) {
        ("c12-cfi", [sec, en, asz, h]) => {
            let eh = match *sec {
                "df" => false,
                "eh" => true,
                _ => return None,
            };
            let endian = match *en {
                "le" => RunTimeEndian::Little,
                "be" => RunTimeEndian::Big,
                _ => return None,
            };
            let asz: u8 = asz.parse().ok()?;
            let input = unhex(h)?;
            Some(match convert_write(eh, endian, asz, &input) {
                Err(why) => format!("ok {why}"),
                Ok(out) => {
                    let r = format!("ok {}", hex(&out));
                    match oracle(eh, endian, asz, &input, &out) {
                        Some(o) => {
                            let mut it = o.splitn(2, ' ');
                            let class = it.next().unwrap_or("x");
                            format!("{r} #oracle:{class} {}", it.next().unwrap_or(""))
                        }
                        None => r,
                    }
                }
            })
        }
        _ => None,
    }
}

// ---------------------------------------------------------------- a small frame-section assembler

fn uleb(mut v: u64) -> Vec<u8> {
    let mut o = vec![];
    loop {
        let b = (v & 0x7f) as u8;
        v >>= 7;
        if v == 0 {
            o.push(b);
            return o;
        }
        o.push(b | 0x80);
    }
}

fn sleb(mut v: i64) -> Vec<u8> {
    let mut o = vec![];
    loop {
        let b = (v & 0x7f) as u8;
        v >>= 7;
        let done = (v == 0 && b & 0x40 == 0) || (v == -1 && b & 0x40 != 0);
        if done {
            o.push(b);
            return o;
        }
        o.push(b | 0x80);
    }
}

fn fixed(v: u64, n: usize, big: bool) -> Vec<u8> {
    let mut b: Vec<u8> = (0..n).map(|i| (v >> (8 * i)) as u8).collect();
    if big {
        b.reverse();
    }
    b
}

#[derive(Clone)]
struct GCie {
    fmt64: bool,
    ver: u8,
    /// the `address_size` field of a version 4 `.debug_frame` CIE
    asz: u8,
    caf: u64,
    daf: i64,
    ra: u64,
    pers: Option<(u8, u64)>,
    lsda: Option<u8>,
    fdeenc: Option<u8>,
    sig: bool,
    instrs: Vec<u8>,
}

#[derive(Clone)]
struct GFde {
    cie: usize,
    initial: u64,
    len: u64,
    lsda: u64,
    instrs: Vec<u8>,
}

struct Asm {
    eh: bool,
    big: bool,
    /// the section's address size (`set_address_size`)
    asz: u8,
    out: Vec<u8>,
}

impl Asm {
    /// an encoded pointer at the current position (section address 0)
    fn ptr(&mut self, buf: &mut Vec<u8>, base_pos: usize, enc: u8, v: u64, asz: u8) {
        let pos = (base_pos + buf.len()) as u64;
        let val = if enc & 0x70 == 0x10 { v.wrapping_sub(pos) } else { v };
        match enc & 0x0f {
            0x00 => buf.extend(fixed(val, asz as usize, self.big)),
            0x01 => buf.extend(uleb(val)),
            0x02 | 0x0a => buf.extend(fixed(val, 2, self.big)),
            0x03 | 0x0b => buf.extend(fixed(val, 4, self.big)),
            0x04 | 0x0c => buf.extend(fixed(val, 8, self.big)),
            0x09 => buf.extend(sleb(val as i64)),
            _ => buf.extend(fixed(val, 4, self.big)),
        }
    }

    fn entry(&mut self, fmt64: bool, body: Vec<u8>, pad_to: u8) -> usize {
        let off = self.out.len();
        let lf = if fmt64 { 12 } else { 4 };
        let mut body = body;
        let a = pad_to.max(1) as usize;
        while (lf + body.len()) % a != 0 {
            body.push(0);
        }
        if fmt64 {
            self.out.extend([0xff, 0xff, 0xff, 0xff]);
            self.out.extend(fixed(body.len() as u64, 8, self.big));
        } else {
            self.out.extend(fixed(body.len() as u64, 4, self.big));
        }
        self.out.extend(body);
        off
    }

    fn cie(&mut self, c: &GCie) -> usize {
        let off = self.out.len();
        let lf = if c.fmt64 { 12 } else { 4 };
        let mut b: Vec<u8> = vec![];
        if self.eh {
            b.extend(fixed(0, 4, self.big));
        } else if c.fmt64 {
            b.extend(fixed(u64::MAX, 8, self.big));
        } else {
            b.extend(fixed(0xffff_ffff, 4, self.big));
        }
        b.push(c.ver);
        let has_aug = c.pers.is_some() || c.lsda.is_some() || c.fdeenc.is_some() || c.sig;
        if has_aug {
            b.push(b'z');
            if c.lsda.is_some() {
                b.push(b'L');
            }
            if c.pers.is_some() {
                b.push(b'P');
            }
            if c.fdeenc.is_some() {
                b.push(b'R');
            }
            if c.sig {
                b.push(b'S');
            }
        }
        b.push(0);
        let asz = if !self.eh && c.ver == 4 { c.asz } else { self.asz };
        if !self.eh && c.ver == 4 {
            b.push(c.asz);
            b.push(0);
        }
        b.extend(uleb(c.caf));
        b.extend(sleb(c.daf));
        if c.ver == 1 {
            b.push(c.ra as u8);
        } else {
            b.extend(uleb(c.ra));
        }
        if has_aug {
            // the data length is one byte here (always < 0x80)
            let mut d: Vec<u8> = vec![];
            let base = off + lf + b.len() + 1;
            if let Some(e) = c.lsda {
                d.push(e);
            }
            if let Some((e, v)) = c.pers {
                d.push(e);
                self.ptr(&mut d, base, e, v, asz);
            }
            if let Some(e) = c.fdeenc {
                d.push(e);
            }
            b.push(d.len() as u8);
            b.extend(d);
        }
        b.extend(&c.instrs);
        self.entry(c.fmt64, b, asz)
    }

    fn fde(&mut self, f: &GFde, c: &GCie, cie_off: usize) -> usize {
        let off = self.out.len();
        let lf = if c.fmt64 { 12 } else { 4 };
        let asz = if !self.eh && c.ver == 4 { c.asz } else { self.asz };
        let mut b: Vec<u8> = vec![];
        if self.eh {
            b.extend(fixed((off + lf - cie_off) as u64, 4, self.big));
        } else if c.fmt64 {
            b.extend(fixed(cie_off as u64, 8, self.big));
        } else {
            b.extend(fixed(cie_off as u64, 4, self.big));
        }
        match c.fdeenc {
            Some(e) => {
                self.ptr(&mut b, off + lf, e, f.initial, asz);
                // the range uses the format only
                self.ptr(&mut b, off + lf, e & 0x0f, f.len, asz);
            }
            None => {
                b.extend(fixed(f.initial, asz as usize, self.big));
                b.extend(fixed(f.len, asz as usize, self.big));
            }
        }
        let has_aug = c.pers.is_some() || c.lsda.is_some() || c.fdeenc.is_some() || c.sig;
        if has_aug {
            let mut d: Vec<u8> = vec![];
            if let Some(e) = c.lsda {
                let base = off + lf + b.len() + 1;
                self.ptr(&mut d, base, e, f.lsda, asz);
            }
            b.push(d.len() as u8);
            b.extend(d);
        }
        b.extend(&f.instrs);
        self.entry(c.fmt64, b, asz)
    }
}

// ---------------------------------------------------------------- instruction generators

/// expressions whose conversion and re-encoding is the identity on bytes
const EXPRS: &[&[u8]] = &[&[], &[0x9c], &[0x77, 0x08], &[0x77, 0x08, 0x06], &[0x91, 0x70], &[0x92, 0x21, 0x7f], &[0x9c, 0x23, 0x10], &[0x7f, 0x80, 0x01, 0x06, 0x23, 0x08]];

const UVALS: &[u64] = &[
    0, 1, 8, 0x3f, 0x40, 0x7f, 0x80, 0xff, 0x100, 0xffff, 0x10000, 0x7fff_ffff, 0x8000_0000, 0xffff_ffff, 0x1_0000_0000, (1 << 62), (1 << 63) - 1, 1 << 63,
    u64::MAX,
];
const SVALS: &[i64] = &[
    0, 1, -1, 2, -2, 8, -8, 16, -16, 63, 64, -64, -65, 127, 128, -128, -129, 0x7fff_ffff, 0x8000_0000, -0x8000_0000, -0x8000_0001, 0x1_0000_0000, i64::MAX,
    i64::MIN,
];
const REGS: &[u64] = &[0, 1, 7, 16, 30, 33, 34, 0x3f, 0x40, 0x7f, 0x80, 0xffff, 0x10000];
const CAFS: &[u64] = &[0, 1, 1, 2, 4, 4, 8, 255, 256, 257, 0xffff_ffff, 0x1_0000_0000, u64::MAX];
const DAFS: &[i64] = &[0, 1, -1, -4, -8, -8, 4, 8, 3, 127, -128, 128, -129, 0x7fff_ffff, 0x1_0000_0000, i64::MAX, i64::MIN];

fn g_u(rng: &mut Rng, small: bool) -> u64 {
    if small { rng.below(200) } else if rng.chance(2, 3) { *rng.pick(UVALS) } else { rng.boundary_u64() }
}
fn g_s(rng: &mut Rng, small: bool) -> i64 {
    if small { rng.below(64) as i64 - 32 } else if rng.chance(2, 3) { *rng.pick(SVALS) } else { rng.boundary_i64() }
}
fn g_reg(rng: &mut Rng, small: bool) -> u64 {
    if small { rng.below(40) } else { *rng.pick(REGS) }
}
fn g_expr(rng: &mut Rng) -> Vec<u8> {
    let e = *rng.pick(EXPRS);
    let mut v = uleb(e.len() as u64);
    v.extend(e);
    v
}

/// one instruction of kind `k` (0..=27), operands boundary-biased unless `small`
fn g_instr(rng: &mut Rng, k: u64, small: bool, big: bool, asz: u8) -> Vec<u8> {
    let mut v: Vec<u8> = vec![];
    match k {
        0 => v.push(0x40 | rng.below(64) as u8),
        1 => {
            v.push(0x02);
            v.push(*rng.pick(&[0u8, 1, 0x3f, 0x40, 0xff]));
        }
        2 => {
            v.push(0x03);
            v.extend(fixed(*rng.pick(&[0u64, 1, 0xff, 0x100, 0xffff]), 2, big));
        }
        3 => {
            v.push(0x04);
            v.extend(fixed(if small { rng.below(0x300) } else { *rng.pick(&[0u64, 1, 0xffff, 0x10000, 0x7fff_ffff, 0xffff_ffff]) }, 4, big));
        }
        4 => {
            v.push(0x80 | rng.below(64) as u8);
            v.extend(uleb(g_u(rng, small)));
        }
        5 => {
            v.push(0x05);
            v.extend(uleb(g_reg(rng, small)));
            v.extend(uleb(g_u(rng, small)));
        }
        6 => {
            v.push(0x11);
            v.extend(uleb(g_reg(rng, small)));
            v.extend(sleb(g_s(rng, small)));
        }
        7 => v.push(0xc0 | rng.below(64) as u8),
        8 => {
            v.push(0x06);
            v.extend(uleb(g_reg(rng, small)));
        }
        9 => {
            v.push(0x07);
            v.extend(uleb(g_reg(rng, small)));
        }
        10 => {
            v.push(0x08);
            v.extend(uleb(g_reg(rng, small)));
        }
        11 => {
            v.push(0x09);
            v.extend(uleb(g_reg(rng, small)));
            v.extend(uleb(g_reg(rng, small)));
        }
        12 => v.push(0x0a),
        13 => v.push(0x0b),
        14 => {
            v.push(0x0c);
            v.extend(uleb(g_reg(rng, small)));
            v.extend(uleb(g_u(rng, small)));
        }
        15 => {
            v.push(0x0d);
            v.extend(uleb(g_reg(rng, small)));
        }
        16 => {
            v.push(0x0e);
            v.extend(uleb(g_u(rng, small)));
        }
        17 => {
            v.push(0x0f);
            v.extend(g_expr(rng));
        }
        18 => {
            v.push(0x10);
            v.extend(uleb(g_reg(rng, small)));
            v.extend(g_expr(rng));
        }
        19 => {
            v.push(0x16);
            v.extend(uleb(g_reg(rng, small)));
            v.extend(g_expr(rng));
        }
        20 => {
            v.push(0x12);
            v.extend(uleb(g_reg(rng, small)));
            v.extend(sleb(g_s(rng, small)));
        }
        21 => {
            v.push(0x13);
            v.extend(sleb(g_s(rng, small)));
        }
        22 => {
            v.push(0x14);
            v.extend(uleb(g_reg(rng, small)));
            v.extend(uleb(g_u(rng, small)));
        }
        23 => {
            v.push(0x15);
            v.extend(uleb(g_reg(rng, small)));
            v.extend(sleb(g_s(rng, small)));
        }
        24 => {
            v.push(0x2e);
            v.extend(uleb(g_u(rng, small)));
        }
        25 => v.push(0x2d),
        26 => v.push(0x00),
        _ => {
            // DW_CFA_set_loc: not convertible
            v.push(0x01);
            v.extend(fixed(0x2000, asz as usize, big));
        }
    }
    v
}

const NKINDS: u64 = 28;

fn g_prog(rng: &mut Rng, n: usize, small: bool, big: bool, asz: u8, in_cie: bool) -> Vec<u8> {
    let mut v = vec![];
    let mut depth = 0;
    for _ in 0..n {
        let mut k = rng.below(NKINDS);
        if small {
            // keep the program meaningful: no set_loc, restore_state only after remember_state,
            // no restore in a CIE, negate_ra_state rarely
            if k == 27 || (k == 13 && depth == 0) || (in_cie && (k == 7 || k == 8)) || (k == 25 && !rng.chance(1, 4)) {
                k = 26;
            }
            if k == 12 {
                depth += 1;
            }
            if k == 13 {
                depth -= 1;
            }
        }
        v.extend(g_instr(rng, k, small, big, asz));
    }
    v
}

fn g_cie(rng: &mut Rng, eh: bool, plain: bool) -> GCie {
    let ver = if eh && rng.chance(5, 6) { 1 } else { *rng.pick(&[1u8, 3, 4]) };
    let aug = eh || rng.chance(1, 5);
    let encs: &[u8] = &[0x00, 0x01, 0x03, 0x04, 0x09, 0x0b, 0x0c, 0x1b, 0x1c, 0x80, 0x9b, 0x02, 0x0a];
    GCie {
        fmt64: rng.chance(1, 5),
        ver,
        asz: *rng.pick(&[4u8, 8]),
        caf: if plain { *rng.pick(&[1u64, 1, 2, 4]) } else { *rng.pick(CAFS) },
        daf: if plain { *rng.pick(&[-8i64, -4, 4, 8, 1, -1]) } else { *rng.pick(DAFS) },
        ra: if ver == 1 { rng.below(256) } else { *rng.pick(REGS) },
        pers: if aug && rng.chance(1, 3) { Some((*rng.pick(encs), 0x10000 + rng.below(0x10000))) } else { None },
        lsda: if aug && rng.chance(1, 3) { Some(*rng.pick(encs)) } else { None },
        fdeenc: if aug && rng.chance(1, 2) { Some(*rng.pick(encs)) } else { None },
        sig: aug && rng.chance(1, 4),
        instrs: vec![],
    }
}

/// a section: CIEs (some shared, some identical twins, some unused), FDEs, optional terminator
fn g_section(rng: &mut Rng, eh: bool, big: bool, asz: u8, plain: bool, focus: Option<u64>) -> Vec<u8> {
    let mut a = Asm { eh, big, asz, out: vec![] };
    let ncie = 1 + rng.below(3) as usize;
    let mut cies: Vec<(GCie, usize)> = vec![];
    for i in 0..ncie {
        let mut c = if i > 0 && rng.chance(1, 3) { cies[rng.below(i as u64) as usize].0.clone() } else { g_cie(rng, eh, plain) };
        if c.instrs.is_empty() {
            let casz = if !eh && c.ver == 4 { c.asz } else { asz };
            // a usable CFA first, then a short program
            c.instrs = vec![0x0c, 0x07, 0x08];
            let n = rng.below(4) as usize;
            let small = plain || rng.chance(1, 2);
            c.instrs.extend(g_prog(rng, n, small, big, casz, true));
        }
        let off = a.cie(&c);
        cies.push((c, off));
    }
    let nfde = if rng.chance(1, 15) { 0 } else { 1 + rng.below(4) as usize };
    for _ in 0..nfde {
        let k = rng.below(cies.len() as u64) as usize;
        let (c, coff) = cies[k].clone();
        let casz = if !eh && c.ver == 4 { c.asz } else { asz };
        let mut instrs = vec![];
        if let Some(kind) = focus {
            // the instruction under test, surrounded by advances so that it shows in the rows
            instrs.extend(g_instr(rng, 0, true, big, casz));
            instrs.extend(g_instr(rng, kind, false, big, casz));
            let adv = *rng.pick(&[0u64, 1, 2, 3]);
            instrs.extend(g_instr(rng, adv, true, big, casz));
        }
        let n = rng.below(8) as usize;
        let small = plain || rng.chance(2, 3);
        instrs.extend(g_prog(rng, n, small, big, casz, false));
        let lim: u64 = if casz >= 8 { u64::MAX } else { (1u64 << (8 * casz as u32)) - 1 };
        let initial = match rng.below(5) {
            0 => 0x1000,
            1 => rng.below(0x7000_0000),
            2 if !plain => lim - rng.below(0x200),
            _ => 0x10000 + rng.below(0x10000) * 16,
        };
        let len = match rng.below(5) {
            0 => 0x40,
            1 if !plain => *rng.pick(&[0u64, 1, 0xffff_ffff, 0x1_0000_0000, lim]) & lim,
            _ => 0x100 + rng.below(0x10000),
        };
        let f = GFde { cie: k, initial, len, lsda: 0x20000 + rng.below(0x1000), instrs };
        let _ = f.cie;
        a.fde(&f, &c, coff);
    }
    if rng.chance(1, 6) {
        // a zero length: the `.eh_frame` terminator / skipped in `.debug_frame`
        a.out.extend([0, 0, 0, 0]);
        if rng.chance(1, 2) {
            let (c, coff) = cies[0].clone();
            let f = GFde { cie: 0, initial: 0x9000, len: 0x10, lsda: 0x20000, instrs: vec![] };
            a.fde(&f, &c, coff);
        }
    }
    a.out
}

/// every expression that gimli decodes from the instructions of the section is one of `EXPRS`
/// (the Model's expression converter is the identity, which is right for those)
fn exprs_in_pool(eh: bool, big: bool, asz: u8, sec: &[u8]) -> bool {
    fn scan<'a, S: UnwindSection<Rd<'a>>>(s: &S, sec: &'a [u8]) -> bool {
        use gimli::CallFrameInstruction as I;
        let bases = BaseAddresses::default().set_eh_frame(0);
        let ok = |e: &gimli::UnwindExpression<usize>| sec.get(e.offset..e.offset.wrapping_add(e.length)).map_or(false, |b| EXPRS.contains(&b));
        let check = |mut it: gimli::CallFrameInstructionIter<'_, Rd<'a>>| -> bool {
            let mut n = 0;
            while let Ok(Some(i)) = it.next() {
                n += 1;
                if n > 10_000 {
                    break;
                }
                match i {
                    I::DefCfaExpression { expression } | I::Expression { expression, .. } | I::ValExpression { expression, .. } => {
                        if !ok(&expression) {
                            return false;
                        }
                    }
                    _ => {}
                }
            }
            true
        };
        let mut it = s.entries(&bases);
        while let Ok(Some(e)) = it.next() {
            match e {
                CieOrFde::Cie(c) => {
                    if !check(c.instructions(s, &bases)) {
                        return false;
                    }
                }
                CieOrFde::Fde(p) => {
                    if let Ok(f) = p.parse(S::cie_from_offset) {
                        if !check(f.cie().instructions(s, &bases)) || !check(f.instructions(s, &bases)) {
                            return false;
                        }
                    }
                }
            }
        }
        true
    }
    let endian = if big { RunTimeEndian::Big } else { RunTimeEndian::Little };
    if eh {
        let mut s = EhFrame::new(sec, endian);
        s.set_address_size(asz);
        s.set_vendor(Vendor::AArch64);
        scan(&s, sec)
    } else {
        let mut s = DebugFrame::new(sec, endian);
        s.set_address_size(asz);
        s.set_vendor(Vendor::AArch64);
        scan(&s, sec)
    }
}

pub fn gen(ctx: &Ctx, emit: &mut dyn FnMut(String)) {
    let mut rng = ctx.rng(0x12cf);
    let line = |eh: bool, big: bool, asz: u8, sec: &[u8]| format!("c12-cfi {} {} {} {}", if eh { "eh" } else { "df" }, if big { "be" } else { "le" }, asz, hex(sec));
    // A. every instruction kind with boundary operands × factors × sections × address sizes
    let reps = ctx.n(16, 200);
    for kind in 0..NKINDS {
        for eh in [false, true] {
            for asz in [4u8, 8] {
                for _ in 0..reps {
                    let big = rng.chance(1, 4);
                    let plain = rng.chance(1, 2);
                    let sec = g_section(&mut rng, eh, big, asz, plain, Some(kind));
                    emit(line(eh, big, asz, &sec));
                }
            }
        }
    }
    // B. random sections: plain (meaningful programs, usual factors) and boundary ones
    for k in 0..ctx.n(9_000, 150_000) {
        let eh = rng.chance(1, 2);
        let big = rng.chance(1, 4);
        let asz = *rng.pick(&[4u8, 8]);
        let sec = g_section(&mut rng, eh, big, asz, k % 10 < 6, None);
        emit(line(eh, big, asz, &sec));
    }
    // C. malformed: truncations and byte edits of valid sections (read errors surface as
    // `failed:convert:Read.*`, in the same place on both sides)
    for _ in 0..ctx.n(1_500, 20_000) {
        let eh = rng.chance(1, 2);
        let asz = *rng.pick(&[4u8, 8]);
        let mut sec = g_section(&mut rng, eh, false, asz, true, None);
        if sec.is_empty() {
            continue;
        }
        match rng.below(3) {
            0 => {
                let k = rng.below(sec.len() as u64) as usize;
                sec.truncate(k);
            }
            1 => {
                let k = rng.below(sec.len() as u64) as usize;
                sec[k] = *rng.pick(&[0u8, 1, 0x7f, 0x80, 0xff, 0x2f]);
            }
            _ => {
                let k = rng.below(sec.len() as u64) as usize;
                sec[k] = sec[k].wrapping_add(1);
            }
        }
        if exprs_in_pool(eh, false, asz, &sec) {
            emit(line(eh, false, asz, &sec));
        }
    }
    let _ = Tier::Quick;
}
