//! C15 — written expressions decode to the same operations, branches and references.
//!
//! Implementation side of the `c15-<place>` requests (same canonical text as `lean/Gimli/Drv/C15.lean`):
//! the abstract builder-call list is replayed through `gimli::write::Expression`, the expression is
//! placed in a DIE attribute / a location list / a CFI instruction of real units, everything is
//! written with `Dwarf::write` / `FrameTable::write_*`, and the reply is the length prefix found in
//! the section, the expression's bytes as they ended up in the section, and what
//! `read::Expression::operations` decodes from them.
//!
//! Direct oracles (independent of the Lean Model, computed from the abstract request and from a
//! read-back of the written units): length prefix = emitted length; decoded operations = the
//! operations as built (shorter encodings allowed); every branch lands on the start of the intended
//! operation; every entry reference designates the DIE that carries the intended name; evaluating the
//! emitted bytes with `gimli::Evaluation` = evaluating the builder calls with a naive interpreter.
use crate::prop::{Ctx, Tier};
use crate::util::{hex, rerr, unhex, werr, Rng};
use gimli::write::{
    self, Address, AttributeValue, CallFrameInstruction, CommonInformationEntry, DebugInfoRef, EndianVec, FrameDescriptionEntry, FrameTable,
    LineProgram, Location, LocationList, Sections, Unit, UnitEntryId, UnitId,
};
use gimli::{constants, DwOp, Encoding, EndianSlice, Format, Register, RunTimeEndian};
use std::collections::HashMap;

include!("c15/gen.rs");
include!("c15/naive.rs");

const MARKER_A: [u8; 8] = [0xc1, 0x5a, 0x3e, 0x7d, 0x91, 0xe6, 0x2b, 0xa4];
const MARKER_B: [u8; 8] = [0xb7, 0x4c, 0xd2, 0x19, 0x8e, 0x63, 0xf5, 0x2a];

// ---------------------------------------------------------------- abstract request

#[derive(Clone, Copy, PartialEq, Eq, Debug)]
enum Kind {
    Base,
    Var,
    Deleted,
    RefVar,
    RefBase,
}
impl Kind {
    fn is_ref(self) -> bool {
        matches!(self, Kind::RefVar | Kind::RefBase)
    }
    fn is_base(self) -> bool {
        matches!(self, Kind::Base | Kind::RefBase)
    }
}

#[derive(Clone, Debug)]
struct Units {
    pre: Option<usize>,
    post: Option<usize>,
    entries: Vec<(Kind, usize)>,
}

#[derive(Clone, Copy, PartialEq, Eq, Debug)]
enum Place {
    Attr,
    Loc,
    /// 0 = def_cfa_expression, 1 = expression, 2 = val_expression; bool = .eh_frame
    Cfi(u8, bool),
}

#[derive(Clone, Copy, PartialEq, Eq, Debug)]
enum DRef {
    Main(usize),
    Pre,
    Post,
    Symbol(usize),
}

#[derive(Clone, Debug)]
enum AOp {
    Raw(Vec<u8>),
    Simple(u8),
    Addr(u64),
    AddrSym(usize, i64),
    Constu(u64),
    Consts(i64),
    ConstType(usize, Vec<u8>),
    Fbreg(i64),
    Breg(u16, i64),
    RegvalType(u16, usize),
    Pick(u8),
    Deref(bool),
    DerefSize(bool, u8),
    DerefType(bool, u8, usize),
    PlusUconst(u64),
    Skip(usize),
    Bra(usize),
    Call(usize),
    CallRef(DRef),
    VariableValue(DRef),
    Convert(Option<usize>),
    Reinterpret(Option<usize>),
    EntryValue(Vec<AOp>),
    Reg(u16),
    ImplicitValue(Vec<u8>),
    ImplicitPointer(DRef, i64),
    Piece(u64),
    BitPiece(u64, u64),
    ParameterRef(usize),
    WasmLocal(u32),
    WasmGlobal(u32),
    WasmStack(u32),
}

fn parse_kind(c: u8) -> Option<Kind> {
    Some(match c {
        b'b' => Kind::Base,
        b'v' => Kind::Var,
        b'd' => Kind::Deleted,
        b'R' => Kind::RefVar,
        b'B' => Kind::RefBase,
        _ => return None,
    })
}

fn parse_aux(s: &str) -> Option<Option<usize>> {
    if s == "-" {
        return Some(None);
    }
    let n: usize = s.parse().ok()?;
    if n < 4 { None } else { Some(Some(n)) }
}

fn parse_units(s: &str) -> Option<Units> {
    let p: Vec<&str> = s.split('/').collect();
    if p.len() != 3 {
        return None;
    }
    let mut entries = Vec::new();
    if p[2] != "-" {
        for t in p[2].split(',') {
            let k = parse_kind(*t.as_bytes().first()?)?;
            let n: usize = t[1..].parse().ok()?;
            if n < 4 || (k.is_ref() && n < 12) {
                return None;
            }
            entries.push((k, n));
        }
    }
    if entries.iter().filter(|e| e.0.is_ref()).count() != 1 || entries.len() > 64 {
        return None;
    }
    Some(Units { pre: parse_aux(p[0])?, post: parse_aux(p[1])?, entries })
}

fn parse_place(s: &str) -> Option<Place> {
    Some(match s {
        "attr" => Place::Attr,
        "loc" => Place::Loc,
        "cfa:df" => Place::Cfi(0, false),
        "cfe:df" => Place::Cfi(1, false),
        "cfv:df" => Place::Cfi(2, false),
        "cfa:eh" => Place::Cfi(0, true),
        "cfe:eh" => Place::Cfi(1, true),
        "cfv:eh" => Place::Cfi(2, true),
        _ => return None,
    })
}

fn parse_eref(u: &Units, s: &str) -> Option<usize> {
    let i: usize = s.parse().ok()?;
    if i < u.entries.len() { Some(i) } else { None }
}

fn parse_dref(u: &Units, s: &str) -> Option<DRef> {
    match s.as_bytes().first()? {
        b'p' if s.len() == 1 => u.pre.map(|_| DRef::Pre),
        b'n' if s.len() == 1 => u.post.map(|_| DRef::Post),
        b'm' => parse_eref(u, &s[1..]).map(DRef::Main),
        b's' => s[1..].parse().ok().map(DRef::Symbol),
        _ => None,
    }
}

fn parse_n(u: &Units, n: usize, toks: &[&str], pos: &mut usize) -> Option<Vec<AOp>> {
    let mut v = Vec::new();
    for _ in 0..n {
        v.push(parse_op(u, toks, pos)?);
    }
    Some(v)
}

fn parse_op(u: &Units, toks: &[&str], pos: &mut usize) -> Option<AOp> {
    let tok = *toks.get(*pos)?;
    *pos += 1;
    let f: Vec<&str> = tok.split(':').collect();
    let a = |i: usize| -> Option<&str> { f.get(i).copied() };
    let nargs = f.len() - 1;
    let need = |n: usize| -> Option<()> { if nargs == n { Some(()) } else { None } };
    Some(match f[0] {
        "entry_value" => {
            need(1)?;
            let k: usize = a(1)?.parse().ok()?;
            let body = parse_n(u, k, toks, pos)?;
            if !well_formed(&body) {
                return None;
            }
            AOp::EntryValue(body)
        }
        "raw" => { need(1)?; AOp::Raw(unhex(a(1)?)?) }
        "op" => { need(1)?; AOp::Simple(a(1)?.parse().ok()?) }
        "addr" => { need(1)?; AOp::Addr(a(1)?.parse().ok()?) }
        "addrsym" => { need(2)?; AOp::AddrSym(a(1)?.parse().ok()?, a(2)?.parse().ok()?) }
        "constu" => { need(1)?; AOp::Constu(a(1)?.parse().ok()?) }
        "consts" => { need(1)?; AOp::Consts(a(1)?.parse().ok()?) }
        "const_type" => { need(2)?; AOp::ConstType(parse_eref(u, a(1)?)?, unhex(a(2)?)?) }
        "fbreg" => { need(1)?; AOp::Fbreg(a(1)?.parse().ok()?) }
        "breg" => { need(2)?; AOp::Breg(a(1)?.parse().ok()?, a(2)?.parse().ok()?) }
        "regval_type" => { need(2)?; AOp::RegvalType(a(1)?.parse().ok()?, parse_eref(u, a(2)?)?) }
        "pick" => { need(1)?; AOp::Pick(a(1)?.parse().ok()?) }
        "deref" => { need(0)?; AOp::Deref(false) }
        "xderef" => { need(0)?; AOp::Deref(true) }
        "deref_size" => { need(1)?; AOp::DerefSize(false, a(1)?.parse().ok()?) }
        "xderef_size" => { need(1)?; AOp::DerefSize(true, a(1)?.parse().ok()?) }
        "deref_type" => { need(2)?; AOp::DerefType(false, a(1)?.parse().ok()?, parse_eref(u, a(2)?)?) }
        "xderef_type" => { need(2)?; AOp::DerefType(true, a(1)?.parse().ok()?, parse_eref(u, a(2)?)?) }
        "plus_uconst" => { need(1)?; AOp::PlusUconst(a(1)?.parse().ok()?) }
        "skip" => { need(1)?; AOp::Skip(a(1)?.parse().ok()?) }
        "bra" => { need(1)?; AOp::Bra(a(1)?.parse().ok()?) }
        "call" => { need(1)?; AOp::Call(parse_eref(u, a(1)?)?) }
        "call_ref" => { need(1)?; AOp::CallRef(parse_dref(u, a(1)?)?) }
        "variable_value" => { need(1)?; AOp::VariableValue(parse_dref(u, a(1)?)?) }
        "convert" => { need(1)?; AOp::Convert(if a(1)? == "-" { None } else { Some(parse_eref(u, a(1)?)?) }) }
        "reinterpret" => { need(1)?; AOp::Reinterpret(if a(1)? == "-" { None } else { Some(parse_eref(u, a(1)?)?) }) }
        "reg" => { need(1)?; AOp::Reg(a(1)?.parse().ok()?) }
        "implicit_value" => { need(1)?; AOp::ImplicitValue(unhex(a(1)?)?) }
        "implicit_pointer" => { need(2)?; AOp::ImplicitPointer(parse_dref(u, a(1)?)?, a(2)?.parse().ok()?) }
        "piece" => { need(1)?; AOp::Piece(a(1)?.parse().ok()?) }
        "bit_piece" => { need(2)?; AOp::BitPiece(a(1)?.parse().ok()?, a(2)?.parse().ok()?) }
        "parameter_ref" => { need(1)?; AOp::ParameterRef(parse_eref(u, a(1)?)?) }
        "wasm_local" => { need(1)?; AOp::WasmLocal(a(1)?.parse().ok()?) }
        "wasm_global" => { need(1)?; AOp::WasmGlobal(a(1)?.parse().ok()?) }
        "wasm_stack" => { need(1)?; AOp::WasmStack(a(1)?.parse().ok()?) }
        _ => return None,
    })
}

/// what the builders can construct without tripping their own assertions
fn well_formed(ops: &[AOp]) -> bool {
    let n = ops.len();
    ops.iter().enumerate().all(|(i, op)| match op {
        AOp::Skip(t) | AOp::Bra(t) => *t <= n && *t != i,
        AOp::Raw(_) => n == 1,
        _ => true,
    })
}

/// raw bytecode, or an opcode `Expression::op` is not meant for: no operation-level expectation
fn has_raw(ops: &[AOp]) -> bool {
    ops.iter().any(|o| match o {
        AOp::Raw(_) => true,
        AOp::Simple(b) => simple_name(*b).is_none(),
        _ => false,
    })
}

// ---------------------------------------------------------------- building through gimli::write

struct Ids {
    main: UnitId,
    entries: Vec<UnitEntryId>,
    pre: Option<(UnitId, UnitEntryId)>,
    post: Option<(UnitId, UnitEntryId)>,
}

fn dref(ids: &Ids, r: DRef) -> DebugInfoRef {
    match r {
        DRef::Main(i) => DebugInfoRef::Entry(ids.main, ids.entries[i]),
        DRef::Pre => {
            let (u, e) = ids.pre.unwrap();
            DebugInfoRef::Entry(u, e)
        }
        DRef::Post => {
            let (u, e) = ids.post.unwrap();
            DebugInfoRef::Entry(u, e)
        }
        DRef::Symbol(s) => DebugInfoRef::Symbol(s),
    }
}

fn build_expr(ids: &Ids, ops: &[AOp]) -> write::Expression {
    if let [AOp::Raw(b)] = ops {
        return write::Expression::raw(b.clone());
    }
    let mut x = write::Expression::new();
    let mut branches = Vec::new();
    for op in ops {
        match op {
            AOp::Raw(_) => unreachable!(),
            AOp::Simple(b) => x.op(DwOp(*b)),
            AOp::Addr(v) => x.op_addr(Address::Constant(*v)),
            AOp::AddrSym(s, a) => x.op_addr(Address::Symbol { symbol: *s, addend: *a }),
            AOp::Constu(v) => x.op_constu(*v),
            AOp::Consts(v) => x.op_consts(*v),
            AOp::ConstType(b, v) => x.op_const_type(ids.entries[*b], v.clone().into_boxed_slice()),
            AOp::Fbreg(o) => x.op_fbreg(*o),
            AOp::Breg(r, o) => x.op_breg(Register(*r), *o),
            AOp::RegvalType(r, b) => x.op_regval_type(Register(*r), ids.entries[*b]),
            AOp::Pick(i) => x.op_pick(*i),
            AOp::Deref(false) => x.op_deref(),
            AOp::Deref(true) => x.op_xderef(),
            AOp::DerefSize(false, n) => x.op_deref_size(*n),
            AOp::DerefSize(true, n) => x.op_xderef_size(*n),
            AOp::DerefType(false, n, b) => x.op_deref_type(*n, ids.entries[*b]),
            AOp::DerefType(true, n, b) => x.op_xderef_type(*n, ids.entries[*b]),
            AOp::PlusUconst(v) => x.op_plus_uconst(*v),
            AOp::Skip(t) => {
                let i = x.op_skip();
                branches.push((i, *t));
            }
            AOp::Bra(t) => {
                let i = x.op_bra();
                branches.push((i, *t));
            }
            AOp::Call(b) => x.op_call(ids.entries[*b]),
            AOp::CallRef(r) => x.op_call_ref(dref(ids, *r)),
            AOp::VariableValue(r) => x.op_variable_value(dref(ids, *r)),
            AOp::Convert(b) => x.op_convert(b.map(|b| ids.entries[b])),
            AOp::Reinterpret(b) => x.op_reinterpret(b.map(|b| ids.entries[b])),
            AOp::EntryValue(body) => x.op_entry_value(build_expr(ids, body)),
            AOp::Reg(r) => x.op_reg(Register(*r)),
            AOp::ImplicitValue(d) => x.op_implicit_value(d.clone().into_boxed_slice()),
            AOp::ImplicitPointer(r, o) => x.op_implicit_pointer(dref(ids, *r), *o),
            AOp::Piece(n) => x.op_piece(*n),
            AOp::BitPiece(s, o) => x.op_bit_piece(*s, *o),
            AOp::ParameterRef(b) => x.op_gnu_parameter_ref(ids.entries[*b]),
            AOp::WasmLocal(i) => x.op_wasm_local(*i),
            AOp::WasmGlobal(i) => x.op_wasm_global(*i),
            AOp::WasmStack(i) => x.op_wasm_stack(*i),
        }
    }
    for (i, t) in branches {
        x.set_target(i, t);
    }
    x
}

fn name_bytes(prefix: &str, len: usize, tail: &[u8]) -> Vec<u8> {
    let mut v = prefix.as_bytes().to_vec();
    while v.len() + tail.len() < len {
        v.push(b'x');
    }
    v.extend_from_slice(tail);
    v
}

fn aux_unit(dw: &mut write::Dwarf, enc: Encoding, prefix: &str, n: usize) -> (UnitId, UnitEntryId) {
    let uid = dw.units.add(Unit::new(enc, LineProgram::none()));
    let unit = dw.units.get_mut(uid);
    let root = unit.root();
    let c = unit.add(root, constants::DW_TAG_variable);
    unit.get_mut(c).set(constants::DW_AT_name, AttributeValue::String(name_bytes(prefix, n, &[])));
    (uid, c)
}

fn find(hay: &[u8], needle: &[u8], from: usize) -> Option<usize> {
    if from > hay.len() {
        return None;
    }
    hay[from..].windows(needle.len()).position(|w| w == needle).map(|p| p + from)
}

fn uleb_at(bs: &[u8], mut p: usize) -> Option<(u64, usize)> {
    let mut v: u64 = 0;
    let mut sh = 0;
    loop {
        let b = *bs.get(p)?;
        p += 1;
        if sh < 64 {
            v |= ((b & 0x7f) as u64) << sh;
        }
        sh += 7;
        if b & 0x80 == 0 {
            return Some((v, p));
        }
    }
}

struct Written {
    /// value of the length prefix
    prefix: u64,
    /// the expression's bytes in the section
    bytes: Vec<u8>,
    /// entry name key -> (unit offset, .debug_info offset), from reading the units back
    names: HashMap<String, (u64, u64)>,
    readback_ok: bool,
}

fn read_names(info: &[u8], abbrev: &[u8], e: RunTimeEndian) -> Option<HashMap<String, (u64, u64)>> {
    let di = gimli::DebugInfo::new(info, e);
    let da = gimli::DebugAbbrev::new(abbrev, e);
    let mut out = HashMap::new();
    let mut units = di.units();
    let mut guard = 0;
    while let Some(h) = units.next().ok()? {
        guard += 1;
        if guard > 8 {
            return None;
        }
        let abbrevs = h.abbreviations(&da).ok()?;
        let mut cur = h.entries(&abbrevs);
        let mut steps = 0;
        while let Some(entry) = cur.next_dfs().ok()? {
            steps += 1;
            if steps > 200 {
                return None;
            }
            if let Some(gimli::AttributeValue::String(s)) = entry.attr_value(constants::DW_AT_name) {
                let b = s.slice();
                if let Some(dot) = b.iter().position(|c| *c == b'.') {
                    let key = String::from_utf8_lossy(&b[..dot]).to_string();
                    let uo = entry.offset().0 as u64;
                    let io = entry.offset().to_debug_info_offset(&h)?.0 as u64;
                    out.insert(key, (uo, io));
                }
            }
        }
    }
    Some(out)
}

fn write_all(place: Place, e: RunTimeEndian, enc: Encoding, u: &Units, ops: &[AOp]) -> Result<Written, String> {
    let mut dw = write::Dwarf::new();
    let pre = u.pre.map(|n| aux_unit(&mut dw, enc, "pre.", n));
    let main = dw.units.add(Unit::new(enc, LineProgram::none()));
    let mut entries = Vec::new();
    let mut referrer = None;
    {
        let unit = dw.units.get_mut(main);
        let root = unit.root();
        for (i, (k, n)) in u.entries.iter().enumerate() {
            let tag = if k.is_base() { constants::DW_TAG_base_type } else { constants::DW_TAG_variable };
            let id = unit.add(root, tag);
            let tail: &[u8] = if k.is_ref() { &MARKER_A } else { &[] };
            unit.get_mut(id).set(constants::DW_AT_name, AttributeValue::String(name_bytes(&format!("e{i}."), *n, tail)));
            if *k == Kind::Deleted {
                unit.get_mut(root).delete_child(id);
            }
            if k.is_ref() {
                referrer = Some(id);
            }
            entries.push(id);
        }
    }
    let post = u.post.map(|n| aux_unit(&mut dw, enc, "pst.", n));
    let ids = Ids { main, entries, pre, post };
    let expr = build_expr(&ids, ops);
    let referrer = referrer.unwrap();
    let asz = enc.address_size as usize;
    let section: Vec<u8>;
    let mut names = HashMap::new();
    let mut readback_ok = true;
    // (prefix start, prefix kind: 0 = ULEB, 2 = u16) relative to the end of MARKER_A; bytes between
    // the end of the expression and MARKER_B
    let (skip_a, prefix_u16, gap_b): (usize, bool, usize);
    match place {
        Place::Attr | Place::Loc => {
            {
                let unit = dw.units.get_mut(main);
                if place == Place::Attr {
                    unit.get_mut(referrer).set(constants::DW_AT_location, AttributeValue::Exprloc(expr));
                    unit.get_mut(referrer).set(constants::DW_AT_description, AttributeValue::String(MARKER_B.to_vec()));
                } else {
                    let mk = |data: write::Expression, k: u64| Location::StartEnd {
                        begin: Address::Constant(1 + 2 * k),
                        end: Address::Constant(2 + 2 * k),
                        data,
                    };
                    let list = LocationList(vec![
                        mk(write::Expression::raw(MARKER_A.to_vec()), 0),
                        mk(expr, 1),
                        mk(write::Expression::raw(MARKER_B.to_vec()), 2),
                    ]);
                    let id = unit.locations.add(list);
                    unit.get_mut(referrer).set(constants::DW_AT_location, AttributeValue::LocationListRef(id));
                }
            }
            let mut sections = Sections::new(EndianVec::new(e));
            dw.write(&mut sections).map_err(|x| werr(&x))?;
            match read_names(sections.debug_info.slice(), sections.debug_abbrev.slice(), e) {
                Some(n) => names = n,
                None => readback_ok = false,
            }
            if place == Place::Attr {
                section = sections.debug_info.slice().to_vec();
                skip_a = 1; // NUL of the name
                prefix_u16 = false;
                gap_b = 0;
            } else if enc.version <= 4 {
                section = sections.debug_loc.slice().to_vec();
                skip_a = 2 * asz;
                prefix_u16 = true;
                gap_b = 2 * asz + 2;
            } else {
                section = sections.debug_loclists.slice().to_vec();
                skip_a = 1 + 2 * asz;
                prefix_u16 = false;
                gap_b = 1 + 2 * asz + 1;
            }
        }
        Place::Cfi(kind, eh) => {
            let mut cie = CommonInformationEntry::new(enc, 1, -4, Register(16));
            cie.add_instruction(CallFrameInstruction::ValExpression(Register(1), write::Expression::raw(MARKER_A.to_vec())));
            cie.add_instruction(match kind {
                0 => CallFrameInstruction::CfaExpression(expr),
                1 => CallFrameInstruction::Expression(Register(3), expr),
                _ => CallFrameInstruction::ValExpression(Register(3), expr),
            });
            cie.add_instruction(CallFrameInstruction::ValExpression(Register(2), write::Expression::raw(MARKER_B.to_vec())));
            let mut frames = FrameTable::default();
            let id = frames.add_cie(cie);
            frames.add_fde(id, FrameDescriptionEntry::new(Address::Constant(0x10), 0x10));
            if eh {
                let mut w = write::EhFrame::from(EndianVec::new(e));
                frames.write_eh_frame(&mut w).map_err(|x| werr(&x))?;
                section = w.slice().to_vec();
            } else {
                let mut w = write::DebugFrame::from(EndianVec::new(e));
                frames.write_debug_frame(&mut w).map_err(|x| werr(&x))?;
                section = w.slice().to_vec();
            }
            skip_a = if kind == 0 { 1 } else { 2 };
            prefix_u16 = false;
            gap_b = 3;
        }
    }
    let pa = find(&section, &MARKER_A, 0).ok_or("no-marker-a")? + MARKER_A.len() + skip_a;
    let (prefix, start) = if prefix_u16 {
        let b = section.get(pa..pa + 2).ok_or("short")?;
        let v = if e == RunTimeEndian::Little { u16::from_le_bytes([b[0], b[1]]) } else { u16::from_be_bytes([b[0], b[1]]) };
        (v as u64, pa + 2)
    } else {
        uleb_at(&section, pa).ok_or("short")?
    };
    let pb = find(&section, &MARKER_B, start).ok_or("no-marker-b")?;
    if pb < start + gap_b {
        return Err("marker-b-too-early".into());
    }
    Ok(Written { prefix, bytes: section[start..pb - gap_b].to_vec(), names, readback_ok })
}

// ---------------------------------------------------------------- decoding and the direct oracles

type RS<'a> = EndianSlice<'a, RunTimeEndian>;

fn opt_s(o: Option<u64>) -> String {
    match o {
        Some(x) => x.to_string(),
        None => "-".into(),
    }
}

fn render_op(op: &gimli::Operation<RS>) -> String {
    use gimli::{DieReference, Operation};
    match *op {
        Operation::Deref { base_type, size, space } => format!("deref({},{},{})", base_type.0, size, space as u8),
        Operation::Drop => "drop".into(),
        Operation::Pick { index } => format!("pick({index})"),
        Operation::Swap => "swap".into(),
        Operation::Rot => "rot".into(),
        Operation::Abs => "abs".into(),
        Operation::And => "and".into(),
        Operation::Div => "div".into(),
        Operation::Minus => "minus".into(),
        Operation::Mod => "mod".into(),
        Operation::Mul => "mul".into(),
        Operation::Neg => "neg".into(),
        Operation::Not => "not".into(),
        Operation::Or => "or".into(),
        Operation::Plus => "plus".into(),
        Operation::PlusConstant { value } => format!("plus_uconst({value})"),
        Operation::Shl => "shl".into(),
        Operation::Shr => "shr".into(),
        Operation::Shra => "shra".into(),
        Operation::Xor => "xor".into(),
        Operation::Bra { target } => format!("bra({target})"),
        Operation::Eq => "eq".into(),
        Operation::Ge => "ge".into(),
        Operation::Gt => "gt".into(),
        Operation::Le => "le".into(),
        Operation::Lt => "lt".into(),
        Operation::Ne => "ne".into(),
        Operation::Skip { target } => format!("skip({target})"),
        Operation::UnsignedConstant { value } => format!("uconst({value})"),
        Operation::SignedConstant { value } => format!("sconst({value})"),
        Operation::Register { register } => format!("reg({})", register.0),
        Operation::RegisterOffset { register, offset, base_type } => format!("breg({},{},{})", register.0, offset, base_type.0),
        Operation::FrameOffset { offset } => format!("fbreg({offset})"),
        Operation::Nop => "nop".into(),
        Operation::PushObjectAddress => "push_object_address".into(),
        Operation::Call { offset: DieReference::UnitRef(o) } => format!("call_unit({})", o.0),
        Operation::Call { offset: DieReference::DebugInfoRef(o) } => format!("call_info({})", o.0),
        Operation::VariableValue { offset } => format!("variable_value({})", offset.0),
        Operation::TLS => "tls".into(),
        Operation::CallFrameCFA => "cfa".into(),
        Operation::Piece { size_in_bits, bit_offset } => format!("piece({},{})", size_in_bits, opt_s(bit_offset)),
        Operation::ImplicitValue { ref data } => format!("implicit_value({})", hex(data.slice())),
        Operation::StackValue => "stack_value".into(),
        Operation::ImplicitPointer { value, byte_offset } => format!("implicit_pointer({},{})", value.0, byte_offset),
        Operation::EntryValue { ref expression } => format!("entry_value({})", hex(expression.slice())),
        Operation::ParameterRef { offset } => format!("parameter_ref({})", offset.0),
        Operation::Address { address } => format!("addr({address})"),
        Operation::AddressIndex { index } => format!("addrx({})", index.0),
        Operation::ConstantIndex { index } => format!("constx({})", index.0),
        Operation::TypedLiteral { base_type, ref value } => format!("const_type({},{})", base_type.0, hex(value.slice())),
        Operation::Convert { base_type } => format!("convert({})", base_type.0),
        Operation::Reinterpret { base_type } => format!("reinterpret({})", base_type.0),
        Operation::Uninitialized => "uninit".into(),
        Operation::WasmLocal { index } => format!("wasm_local({index})"),
        Operation::WasmGlobal { index } => format!("wasm_global({index})"),
        Operation::WasmStack { index } => format!("wasm_stack({index})"),
    }
}

/// decoded operations: (canonical text, start offset, end offset), and the error that ended decoding
fn decode(bs: &[u8], e: RunTimeEndian, enc: Encoding) -> (Vec<(String, usize, usize)>, Option<String>) {
    let x = gimli::Expression(EndianSlice::new(bs, e));
    let mut it = x.clone().operations(enc);
    let mut out = Vec::new();
    let mut start = 0;
    loop {
        if out.len() > bs.len() + 1 {
            return (out, Some("steps".into()));
        }
        match it.next() {
            Ok(Some(op)) => {
                let end = it.offset_from(&x);
                out.push((render_op(&op), start, end));
                start = end;
            }
            Ok(None) => return (out, None),
            Err(er) => return (out, Some(rerr(&er))),
        }
    }
}

fn simple_name(b: u8) -> Option<&'static str> {
    Some(match b {
        0x13 => "drop",
        0x16 => "swap",
        0x17 => "rot",
        0x97 => "push_object_address",
        0x9b => "tls",
        0x9c => "cfa",
        0x19 => "abs",
        0x1a => "and",
        0x1b => "div",
        0x1c => "minus",
        0x1d => "mod",
        0x1e => "mul",
        0x1f => "neg",
        0x20 => "not",
        0x21 => "or",
        0x22 => "plus",
        0x24 => "shl",
        0x25 => "shr",
        0x26 => "shra",
        0x27 => "xor",
        0x2c => "le",
        0x2a => "ge",
        0x29 => "eq",
        0x2d => "lt",
        0x2b => "gt",
        0x2e => "ne",
        0x96 => "nop",
        0x9f => "stack_value",
        0xf0 => "uninit",
        _ => return None,
    })
}

struct Oracle<'a> {
    e: RunTimeEndian,
    enc: Encoding,
    names: &'a HashMap<String, (u64, u64)>,
}

impl<'a> Oracle<'a> {
    fn unit_off(&self, i: usize) -> Result<u64, String> {
        self.names.get(&format!("e{i}")).map(|p| p.0).ok_or_else(|| format!("ref-dangling entry e{i} was not written but a reference to it was accepted"))
    }
    fn info_off(&self, r: DRef) -> Result<u64, String> {
        let key = match r {
            DRef::Main(i) => format!("e{i}"),
            DRef::Pre => "pre".into(),
            DRef::Post => "pst".into(),
            DRef::Symbol(_) => return Err("ref-symbol a symbol reference was written by a writer without symbol support".into()),
        };
        self.names.get(&key).map(|p| p.1).ok_or_else(|| format!("ref-dangling entry {key} was not written but a reference to it was accepted"))
    }

    /// compare one (sub)expression as built with its emitted bytes
    fn check(&self, ops: &[AOp], bs: &[u8], depth: usize) -> Result<(), String> {
        if has_raw(ops) || depth > 8 {
            return Ok(());
        }
        let (dec, er) = decode(bs, self.e, self.enc);
        if let Some(er) = er {
            return Err(format!("decode-error {er} after {} operations", dec.len()));
        }
        if dec.len() != ops.len() {
            return Err(format!("decode-count built {} operations, decoded {}", ops.len(), dec.len()));
        }
        for (k, (op, (got, _start, end))) in ops.iter().zip(dec.iter()).enumerate() {
            let asz = self.enc.address_size;
            let want: String = match op {
                AOp::Raw(_) => continue,
                AOp::Simple(b) => match simple_name(*b) {
                    Some(n) => n.into(),
                    None => continue,
                },
                AOp::Addr(v) => format!("addr({v})"),
                AOp::AddrSym(..) => return Err("addr-symbol a symbol address was written by a writer without symbol support".into()),
                AOp::Constu(v) => format!("uconst({v})"),
                AOp::Consts(v) => format!("sconst({v})"),
                AOp::ConstType(b, v) => format!("const_type({},{})", self.unit_off(*b)?, hex(v)),
                AOp::Fbreg(o) => format!("fbreg({o})"),
                AOp::Breg(r, o) => format!("breg({r},{o},0)"),
                AOp::RegvalType(r, b) => format!("breg({r},0,{})", self.unit_off(*b)?),
                AOp::Pick(i) => format!("pick({i})"),
                AOp::Deref(sp) => format!("deref(0,{},{})", asz, *sp as u8),
                AOp::DerefSize(sp, n) => format!("deref(0,{},{})", n, *sp as u8),
                AOp::DerefType(sp, n, b) => format!("deref({},{},{})", self.unit_off(*b)?, n, *sp as u8),
                AOp::PlusUconst(v) => format!("plus_uconst({v})"),
                AOp::Skip(t) | AOp::Bra(t) => {
                    // the branch must land on the start of operation `t` (or on the end)
                    let name = if matches!(op, AOp::Skip(_)) { "skip" } else { "bra" };
                    let disp: i64 = match got.strip_prefix(name).and_then(|s| s.strip_prefix('(')).and_then(|s| s.strip_suffix(')')).and_then(|s| s.parse().ok()) {
                        Some(d) => d,
                        None => return Err(format!("decode-ops operation {k}: built {name}, decoded {got}")),
                    };
                    let intended = if *t == dec.len() { bs.len() } else { dec[*t].1 } as i64;
                    if *end as i64 + disp != intended {
                        return Err(format!("branch-target operation {k} ({name} to operation {t}) lands at byte {} instead of {}", *end as i64 + disp, intended));
                    }
                    continue;
                }
                AOp::Call(b) => format!("call_unit({})", self.unit_off(*b)?),
                AOp::CallRef(r) => format!("call_info({})", self.info_off(*r)?),
                AOp::VariableValue(r) => format!("variable_value({})", self.info_off(*r)?),
                AOp::Convert(None) => "convert(0)".into(),
                AOp::Convert(Some(b)) => format!("convert({})", self.unit_off(*b)?),
                AOp::Reinterpret(None) => "reinterpret(0)".into(),
                AOp::Reinterpret(Some(b)) => format!("reinterpret({})", self.unit_off(*b)?),
                AOp::EntryValue(body) => {
                    let Some(h) = got.strip_prefix("entry_value(").and_then(|s| s.strip_suffix(')')) else {
                        return Err(format!("decode-ops operation {k}: built entry_value, decoded {got}"));
                    };
                    let inner = unhex(h).unwrap_or_default();
                    self.check(body, &inner, depth + 1)?;
                    continue;
                }
                AOp::Reg(r) => format!("reg({r})"),
                AOp::ImplicitValue(d) => format!("implicit_value({})", hex(d)),
                AOp::ImplicitPointer(r, o) => format!("implicit_pointer({},{})", self.info_off(*r)?, o),
                AOp::Piece(n) => format!("piece({},-)", (*n as u128) * 8),
                AOp::BitPiece(s, o) => format!("piece({s},{o})"),
                AOp::ParameterRef(b) => format!("parameter_ref({})", self.unit_off(*b)?),
                AOp::WasmLocal(i) => format!("wasm_local({i})"),
                AOp::WasmGlobal(i) => format!("wasm_global({i})"),
                AOp::WasmStack(i) => format!("wasm_stack({i})"),
            };
            if want != *got {
                let class = if want.split('(').next() == got.split('(').next()
                    && matches!(op, AOp::ConstType(..) | AOp::RegvalType(..) | AOp::DerefType(..) | AOp::Call(_) | AOp::CallRef(_) | AOp::VariableValue(_) | AOp::Convert(Some(_)) | AOp::Reinterpret(Some(_)) | AOp::ImplicitPointer(..) | AOp::ParameterRef(_))
                {
                    "ref-target"
                } else {
                    "decode-ops"
                };
                return Err(format!("{class} operation {k}: built {want}, decoded {got}"));
            }
        }
        Ok(())
    }
}

fn needs_units(ops: &[AOp]) -> bool {
    ops.iter().any(|o| match o {
        AOp::EntryValue(b) => needs_units(b),
        AOp::ConstType(..) | AOp::RegvalType(..) | AOp::DerefType(..) | AOp::Call(_) | AOp::CallRef(_) | AOp::VariableValue(_)
        | AOp::Convert(Some(_)) | AOp::Reinterpret(Some(_)) | AOp::ImplicitPointer(..) | AOp::ParameterRef(_) => true,
        _ => false,
    })
}

pub fn handle(op: &str, a0: &[&str]) -> Option<String> {
    // `c15-<place>` with the place's `:` written as `-` (so that the evidence histogram and the
    // failure signatures are per place)
    let place_tok = op.strip_prefix("c15-")?.replacen('-', ":", 1);
    if a0.len() != 6 {
        return None;
    }
    let mut a: Vec<&str> = vec![place_tok.as_str()];
    a.extend_from_slice(a0);
    let place = parse_place(a[0])?;
    let e = match a[1] {
        "le" => RunTimeEndian::Little,
        "be" => RunTimeEndian::Big,
        _ => return None,
    };
    let asz: u64 = a[2].parse().ok()?;
    let format = match a[3] {
        "32" => Format::Dwarf32,
        "64" => Format::Dwarf64,
        _ => return None,
    };
    let ver: u64 = a[4].parse().ok()?;
    let u = parse_units(a[5])?;
    let toks: Vec<&str> = if a[6] == "-" { vec![] } else { a[6].split(';').collect() };
    let mut pos = 0;
    let mut ops = Vec::new();
    while pos < toks.len() {
        ops.push(parse_op(&u, &toks, &mut pos)?);
    }
    if !well_formed(&ops) {
        return None;
    }
    if !matches!(asz, 1 | 2 | 4 | 8) || ver >= 65536 {
        return None;
    }
    let is_cfi = matches!(place, Place::Cfi(..));
    if !is_cfi && !(2..=5).contains(&ver) {
        return None;
    }
    let enc = Encoding { address_size: asz as u8, format, version: ver as u16 };
    let w = match write_all(place, e, enc, &u, &ops) {
        Ok(w) => w,
        Err(er) if er.starts_with("W.") => return Some(format!("err {er}")),
        Err(er) => return Some(format!("ok ? #oracle:extract {er}")),
    };
    let (dec, er) = decode(&w.bytes, e, enc);
    let mut toks: Vec<String> = dec.iter().map(|d| d.0.clone()).collect();
    if let Some(er) = er {
        toks.push(format!("!{er}"));
    }
    let mut reply = format!("ok {} {} {}", w.prefix, hex(&w.bytes), if toks.is_empty() { "-".into() } else { toks.join(";") });
    // direct oracles
    let verdict: Result<(), String> = (|| {
        if w.prefix != w.bytes.len() as u64 {
            return Err(format!("size-prefix length prefix {} but {} bytes emitted", w.prefix, w.bytes.len()));
        }
        if !is_cfi && !w.readback_ok {
            return Err("readback the written units cannot be read back".into());
        }
        if is_cfi && needs_units(&ops) {
            return Err("cfi-ref a unit entry reference was accepted in a CFI expression".into());
        }
        Oracle { e, enc, names: &w.names }.check(&ops, &w.bytes, 0)?;
        eval_oracle_with(&ops, &w.bytes, e, enc, &w.names)
    })();
    if let Err(why) = verdict {
        reply.push_str(" #oracle:");
        reply.push_str(&why);
    }
    Some(reply)
}
