//! C02 — the DIE forest is reported exactly as encoded, by every navigation API.
//! Implementation side of the `die-*` / `abbrev-get` ops (see lean/Gimli/Drv/C02.lean) + direct oracle.
//! The generator draws an abstract forest, abbreviation declarations and a unit header layout,
//! serialises them with its own encoder (no gimli::write) and passes the expected
//! (offset, depth, tag, children) listing along; the oracle derives from it what every navigation
//! style must report and compares with what the real crate reports.
use crate::prop::c03::{self, encode_form, exp_tok, find_exp, put, uleb, uleb_padded, Cfg};
use crate::prop::{Ctx, Tier};
use crate::util::{hex, rerr, unhex, Rng};
use gimli::{
    Abbreviations, DebugAbbrev, DebugAbbrevOffset, DebugInfo, DebugTypes, DebuggingInformationEntry, EndianSlice, EntriesCursor,
    EntriesTreeNode, Format, RunTimeEndian, UnitHeader, UnitOffset, UnitType,
};

type R<'a> = EndianSlice<'a, RunTimeEndian>;
type Item = (usize, isize, u16, bool);

fn item_s(i: &Item) -> String {
    format!("{}:{}:{}:{}", i.0, i.1, i.2, i.3 as u8)
}
fn items_s(v: &[Item]) -> String {
    if v.is_empty() { "-".into() } else { v.iter().map(item_s).collect::<Vec<_>>().join(";") }
}
fn parse_items(s: &str) -> Option<Vec<Item>> {
    if s == "-" {
        return Some(vec![]);
    }
    s.split(';')
        .map(|t| {
            let p: Vec<&str> = t.split(':').collect();
            if p.len() != 4 {
                return None;
            }
            Some((p[0].parse().ok()?, p[1].parse().ok()?, p[2].parse().ok()?, p[3] == "1"))
        })
        .collect()
}

fn item_of(e: &DebuggingInformationEntry<R<'_>>) -> Item {
    (e.offset().0, e.depth(), e.tag().0, e.has_children())
}

fn ut_s(t: &UnitType<usize>) -> String {
    match t {
        UnitType::Compilation => "C".into(),
        UnitType::Type { type_signature, type_offset } => format!("T:{}:{}", type_signature.0, type_offset.0),
        UnitType::Partial => "P".into(),
        UnitType::Skeleton(id) => format!("S:{}", id.0),
        UnitType::SplitCompilation(id) => format!("SC:{}", id.0),
        UnitType::SplitType { type_signature, type_offset } => format!("ST:{}:{}", type_signature.0, type_offset.0),
    }
}

fn hdr_s(h: &UnitHeader<R<'_>>) -> String {
    let off = match h.offset() {
        gimli::UnitSectionOffset(o) => o,
    };
    format!(
        "off={},len={},fmt={},ver={},asz={},abbr={},type={},hsz={},soh={},ebuf={}",
        off,
        h.unit_length(),
        if h.format() == Format::Dwarf64 { 64 } else { 32 },
        h.version(),
        h.address_size(),
        h.debug_abbrev_offset().0,
        ut_s(&h.type_()),
        h.header_size(),
        h.size_of_header(),
        h.length_including_self() - h.header_size(),
    )
}

fn units<'a>(sect: &str, sec: &'a [u8], e: RunTimeEndian) -> (Vec<UnitHeader<R<'a>>>, String) {
    let mut out = Vec::new();
    let mut end = "ok".to_string();
    let cap = sec.len() + 2;
    if sect == "types" {
        let mut it = DebugTypes::new(sec, e).units();
        for _ in 0..cap {
            match it.next() {
                Ok(Some(h)) => out.push(h),
                Ok(None) => break,
                Err(x) => {
                    end = rerr(&x);
                    break;
                }
            }
        }
    } else {
        let mut it = DebugInfo::new(sec, e).units();
        for _ in 0..cap {
            match it.next() {
                Ok(Some(h)) => out.push(h),
                Ok(None) => break,
                Err(x) => {
                    end = rerr(&x);
                    break;
                }
            }
        }
    }
    (out, end)
}

/// `info` / `types`, optionally `@k`: the k-th (0-based) unit of the section
fn split_sect(tok: &str) -> Option<(&str, usize)> {
    match tok.split_once('@') {
        None => Some((tok, 0)),
        Some((s, k)) => Some((s, k.parse().ok()?)),
    }
}

/// the unit selected by the section token (`units()` iteration) and its abbreviations
pub fn first_unit<'a>(sect: &str, sec: &'a [u8], abbrev: &'a [u8], e: RunTimeEndian) -> gimli::Result<(UnitHeader<R<'a>>, Abbreviations)> {
    let eof = || gimli::Error::UnexpectedEof(gimli::ReaderOffsetId(0));
    let (sect, k) = split_sect(sect).ok_or_else(eof)?;
    let h = if sect == "types" {
        let mut it = DebugTypes::new(sec, e).units();
        let mut h = it.next()?.ok_or_else(eof)?;
        for _ in 0..k {
            h = it.next()?.ok_or_else(eof)?;
        }
        h
    } else {
        let mut it = DebugInfo::new(sec, e).units();
        let mut h = it.next()?.ok_or_else(eof)?;
        for _ in 0..k {
            h = it.next()?.ok_or_else(eof)?;
        }
        h
    };
    let abbrevs = DebugAbbrev::new(abbrev, e).abbreviations(DebugAbbrevOffset(h.debug_abbrev_offset().0))?;
    Ok((h, abbrevs))
}

/// `header_from_offset` at the unit's own section offset must give the same header
fn header_from_offset_agrees<'a>(sect: &str, sec: &'a [u8], e: RunTimeEndian, h: &UnitHeader<R<'a>>) -> bool {
    if sect.starts_with("types") {
        return true;
    }
    match h.offset() {
        gimli::UnitSectionOffset(o) => match DebugInfo::new(sec, e).header_from_offset(gimli::DebugInfoOffset(o)) {
            Ok(h2) => h2 == *h,
            Err(_) => false,
        },
    }
}

fn walk_sib<'a>(c: &mut EntriesCursor<'_, R<'a>>, out: &mut Vec<Item>, steps: &mut usize) -> gimli::Result<()> {
    loop {
        *steps += 1;
        if *steps > 100_000 {
            return Ok(());
        }
        let hc = match c.current() {
            None => return Ok(()),
            Some(cur) => {
                out.push(item_of(cur));
                cur.has_children()
            }
        };
        if hc {
            let mut c2 = c.clone();
            c2.next_entry()?;
            walk_sib(&mut c2, out, steps)?;
        }
        c.next_sibling()?;
    }
}

fn walk_tree<'a>(node: EntriesTreeNode<'_, '_, R<'a>>, out: &mut Vec<Item>) -> gimli::Result<()> {
    out.push(item_of(node.entry()));
    let mut it = node.children();
    while let Some(child) = it.next()? {
        walk_tree(child, out)?;
    }
    Ok(())
}

/// a caller that leaves child lists unfinished (see `treeSkip` in lean/Gimli/Model/Die.lean)
fn walk_tree_skip<'a>(node: EntriesTreeNode<'_, '_, R<'a>>, out: &mut Vec<Item>) -> gimli::Result<()> {
    let it0 = item_of(node.entry());
    out.push(it0);
    match it0.0 % 3 {
        0 => {
            let mut it = node.children();
            while let Some(child) = it.next()? {
                walk_tree_skip(child, out)?;
            }
        }
        1 => {}
        _ => {
            let mut it = node.children();
            if let Some(child) = it.next()? {
                walk_tree_skip(child, out)?;
            }
        }
    }
    Ok(())
}

/// the same rule on the expected listing (`rel[0]` is the node; returns the index behind its subtree)
fn expect_tree_skip(rel: &[Item], k: usize, out: &mut Vec<Item>) {
    let me = rel[k];
    out.push(me);
    // children: the non-null items at depth me.1 + 1 before the first item at depth <= me.1
    let mut kids = Vec::new();
    let mut j = k + 1;
    while j < rel.len() && rel[j].1 > me.1 {
        if rel[j].1 == me.1 + 1 && rel[j].2 != 0 {
            kids.push(j);
        }
        j += 1;
    }
    match me.0 % 3 {
        0 => {
            for c in kids {
                expect_tree_skip(rel, c, out);
            }
        }
        1 => {}
        _ => {
            if let Some(&c) = kids.first() {
                expect_tree_skip(rel, c, out);
            }
        }
    }
}

/// one navigation style over the first unit: the entries seen and how it ended
fn navigate<'a>(style: &str, h: &UnitHeader<R<'a>>, abbrevs: &Abbreviations, start: Option<usize>) -> Result<(Vec<Item>, String), gimli::Error> {
    let mut out: Vec<Item> = Vec::new();
    let mut end = "ok".to_string();
    let so = start.map(UnitOffset);
    let cap = 200_000usize;
    match style {
        "raw" => {
            let mut raw = h.entries_raw(abbrevs, so)?;
            let mut entry = DebuggingInformationEntry::null();
            let mut n = 0;
            while !raw.is_empty() && n < cap {
                n += 1;
                match raw.read_entry(&mut entry) {
                    Ok(_) => out.push(item_of(&entry)),
                    Err(x) => {
                        end = rerr(&x);
                        break;
                    }
                }
            }
        }
        "rawskip" => {
            let mut raw = h.entries_raw(abbrevs, so)?;
            let mut n = 0;
            while !raw.is_empty() && n < cap {
                n += 1;
                let depth = raw.next_depth();
                let off = raw.next_offset().0;
                match raw.read_abbreviation() {
                    Ok(None) => out.push((off, depth, 0, false)),
                    Ok(Some(a)) => match raw.skip_attributes(a.attributes()) {
                        Ok(()) => out.push((off, depth, a.tag().0, a.has_children())),
                        Err(x) => {
                            end = rerr(&x);
                            break;
                        }
                    },
                    Err(x) => {
                        end = rerr(&x);
                        break;
                    }
                }
            }
        }
        "entry" | "dfs" | "sib" => {
            let mut c = match so {
                None => h.entries(abbrevs),
                Some(o) => h.entries_at_offset(abbrevs, o)?,
            };
            if style == "entry" {
                let mut n = 0;
                loop {
                    n += 1;
                    if n > cap {
                        break;
                    }
                    match c.next_entry() {
                        Ok(true) => match c.current() {
                            Some(cur) => out.push(item_of(cur)),
                            None => out.push((c.offset().0, c.depth(), 0, false)),
                        },
                        Ok(false) => break,
                        Err(x) => {
                            end = rerr(&x);
                            break;
                        }
                    }
                }
            } else if style == "dfs" {
                let mut n = 0;
                loop {
                    n += 1;
                    if n > cap {
                        break;
                    }
                    match c.next_dfs() {
                        Ok(Some(cur)) => out.push(item_of(cur)),
                        Ok(None) => break,
                        Err(x) => {
                            end = rerr(&x);
                            break;
                        }
                    }
                }
            } else {
                let mut steps = 0;
                let r = match c.next_entry() {
                    Ok(_) => walk_sib(&mut c, &mut out, &mut steps),
                    Err(x) => Err(x),
                };
                if let Err(x) = r {
                    end = rerr(&x);
                }
            }
        }
        "tree" | "treeskip" => {
            let mut tree = h.entries_tree(abbrevs, so)?;
            let r = match tree.root() {
                Ok(root) => if style == "tree" { walk_tree(root, &mut out) } else { walk_tree_skip(root, &mut out) },
                Err(x) => Err(x),
            };
            if let Err(x) = r {
                end = rerr(&x);
            }
        }
        _ => return Ok((vec![], "bad-style".into())),
    }
    Ok((out, end))
}

/// what a style must report, derived from the full listing `e` (entries and nulls, from the root)
fn expected(style: &str, e: &[Item], start: Option<usize>) -> Option<(Vec<Item>, String)> {
    let k = match start {
        None => 0,
        Some(o) => e.iter().position(|i| i.0 == o)?,
    };
    if e.is_empty() {
        return None;
    }
    let base = e[k].1;
    let rel: Vec<Item> = e[k..].iter().map(|i| (i.0, i.1 - base, i.2, i.3)).collect();
    let ok = "ok".to_string();
    Some(match style {
        "raw" | "rawskip" | "entry" => (rel, ok),
        "dfs" => (rel.into_iter().filter(|i| i.2 != 0).collect(), ok),
        "sib" => {
            // everything up to the null that closes the list the start entry is in
            let mut out = Vec::new();
            for i in rel {
                if i.2 == 0 && i.1 <= 0 {
                    break;
                }
                if i.2 != 0 {
                    out.push(i);
                }
            }
            (out, ok)
        }
        "treeskip" => {
            if rel[0].2 == 0 {
                return Some((vec![], "NoEntryAtGivenOffset".into()));
            }
            let mut out = Vec::new();
            expect_tree_skip(&rel, 0, &mut out);
            (out, ok)
        }
        "tree" => {
            if rel[0].2 == 0 {
                return Some((vec![], "NoEntryAtGivenOffset".into()));
            }
            let mut out = vec![rel[0]];
            for i in rel.into_iter().skip(1) {
                if i.1 <= 0 {
                    break;
                }
                if i.2 != 0 {
                    out.push(i);
                }
            }
            (out, ok)
        }
        _ => return None,
    })
}

pub fn handle(op: &str, a: &[&str]) -> Option<String> {
    let with_oracle = |s: String, o: Option<String>| match o {
        Some(w) => format!("{s} #oracle:{w}"),
        None => s,
    };
    match (op, a) {
        ("die-hdr", [e, sect, h, ..]) => {
            let e = c03::endian(e)?;
            let sec = unhex(h)?;
            let (hs, end) = units(sect, &sec, e);
            let body = if hs.is_empty() { "-".to_string() } else { hs.iter().map(hdr_s).collect::<Vec<_>>().join(";") };
            let reply = format!("ok {body} {end}");
            let mut oracle = None;
            if let Some(x) = find_exp(a, h) {
                if format!("{body} {end}") != x.replace('~', " ") {
                    oracle = Some(format!("header expected={x}"));
                }
            }
            // size_of_header (recomputed from the fields) must equal header_size (from the buffer)
            for hd in &hs {
                if hd.size_of_header() != hd.header_size() {
                    oracle.get_or_insert(format!("size_of_header {} != header_size {}", hd.size_of_header(), hd.header_size()));
                }
            }
            Some(with_oracle(reply, oracle))
        }
        ("die-nav", [style, e, sect, ah, h, start, ..]) => {
            let e = c03::endian(e)?;
            let abbrev = unhex(ah)?;
            let sec = unhex(h)?;
            let start: Option<usize> = if *start == "-" { None } else { Some(start.parse().ok()?) };
            let (hd, abbrevs) = match first_unit(sect, &sec, &abbrev, e) {
                Ok(x) => x,
                Err(x) => {
                    let o = find_exp(a, h).map(|_| format!("rejected-valid {}", rerr(&x)));
                    return Some(with_oracle(format!("err {}", rerr(&x)), o));
                }
            };
            let exp = find_exp(a, h).and_then(parse_items);
            match navigate(style, &hd, &abbrevs, start) {
                Ok((items, end)) => {
                    let mut oracle = None;
                    if !header_from_offset_agrees(sect, &sec, e, &hd) {
                        oracle = Some("header_from_offset differs from units() iteration".to_string());
                    }
                    if let Some(ex) = exp.as_ref().and_then(|ex| expected(style, ex, start)) {
                        if ex.0 != items || ex.1 != end {
                            // first difference
                            let k = ex.0.iter().zip(items.iter()).position(|(a, b)| a != b).unwrap_or(ex.0.len().min(items.len()));
                            oracle = Some(format!(
                                "forest style={style} at={k} expected={}/{} got={}/{} (n={} vs {})",
                                ex.0.get(k).map(item_s).unwrap_or("end".into()),
                                ex.1,
                                items.get(k).map(item_s).unwrap_or("end".into()),
                                end,
                                ex.0.len(),
                                items.len()
                            ));
                        }
                    }
                    Some(with_oracle(format!("ok {} {}", items_s(&items), end), oracle))
                }
                Err(x) => {
                    let mut oracle = None;
                    if let Some(ex) = exp.as_ref() {
                        if start.map_or(true, |o| ex.iter().any(|i| i.0 == o)) {
                            oracle = Some(format!("rejected-valid {}", rerr(&x)));
                        }
                    }
                    Some(with_oracle(format!("err {}", rerr(&x)), oracle))
                }
            }
        }
        ("die-at", [e, sect, ah, h, offs, ..]) => {
            let e = c03::endian(e)?;
            let abbrev = unhex(ah)?;
            let sec = unhex(h)?;
            let offs: Vec<usize> = if *offs == "-" { vec![] } else { offs.split(',').map(|t| t.parse().ok()).collect::<Option<Vec<_>>>()? };
            let (hd, abbrevs) = match first_unit(sect, &sec, &abbrev, e) {
                Ok(x) => x,
                Err(x) => {
                    let o = find_exp(a, h).map(|_| format!("rejected-valid {}", rerr(&x)));
                    return Some(with_oracle(format!("err {}", rerr(&x)), o));
                }
            };
            let exp = find_exp(a, h).and_then(parse_items);
            let mut parts = Vec::new();
            let mut oracle: Option<String> = None;
            for &o in &offs {
                let ra = match hd.entry(&abbrevs, UnitOffset(o)) {
                    Ok(en) => item_s(&item_of(&en)),
                    Err(x) => rerr(&x),
                };
                let rb = match hd.entries_at_offset(&abbrevs, UnitOffset(o)) {
                    Ok(mut c) => match c.next_dfs() {
                        Ok(Some(en)) => item_s(&item_of(en)),
                        Ok(None) => "none".into(),
                        Err(x) => rerr(&x),
                    },
                    Err(x) => rerr(&x),
                };
                let rc = match hd.entries_tree(&abbrevs, Some(UnitOffset(o))) {
                    Ok(mut t) => match t.root() {
                        Ok(n) => item_s(&item_of(n.entry())),
                        Err(x) => rerr(&x),
                    },
                    Err(x) => rerr(&x),
                };
                if let Some(ex) = exp.as_ref() {
                    if let Some(k) = ex.iter().position(|i| i.0 == o) {
                        let it = ex[k];
                        let want_a = if it.2 == 0 { "NoEntryAtGivenOffset".to_string() } else { item_s(&(it.0, 0, it.2, it.3)) };
                        let want_b = match ex[k..].iter().find(|i| i.2 != 0) {
                            Some(n) => item_s(&(n.0, n.1 - it.1, n.2, n.3)),
                            None => "none".into(),
                        };
                        if ra != want_a || rc != want_a || rb != want_b {
                            oracle.get_or_insert(format!("positioned at={o} expected={want_a}|{want_b}|{want_a} got={ra}|{rb}|{rc}"));
                        }
                    }
                }
                parts.push(format!("{ra}|{rb}|{rc}"));
            }
            Some(with_oracle(format!("ok {}", if parts.is_empty() { "-".to_string() } else { parts.join(";") }), oracle))
        }
        ("abbrev-get", [ah, off, codes, ..]) => {
            let abbrev = unhex(ah)?;
            let off: usize = off.parse().ok()?;
            let codes: Vec<u64> = if *codes == "-" { vec![] } else { codes.split(',').map(|t| t.parse().ok()).collect::<Option<Vec<_>>>()? };
            let r = DebugAbbrev::new(&abbrev, RunTimeEndian::Little).abbreviations(DebugAbbrevOffset(off));
            let reply = match &r {
                Ok(t) => {
                    let parts: Vec<String> = codes
                        .iter()
                        .map(|&c| {
                            let body = match t.get(c) {
                                Some(ab) => {
                                    let attrs: Vec<String> = ab
                                        .attributes()
                                        .iter()
                                        .map(|s| format!("{}/{}/{}", s.name().0, s.form().0, s.implicit_const_value().unwrap_or(0)))
                                        .collect();
                                    let mut o = None;
                                    if ab.code() != c {
                                        o = Some(());
                                    }
                                    format!(
                                        "{}:{}:{}{}",
                                        ab.tag().0,
                                        ab.has_children() as u8,
                                        if attrs.is_empty() { "-".to_string() } else { attrs.join("+") },
                                        if o.is_some() { "!wrong-code" } else { "" }
                                    )
                                }
                                None => "-".into(),
                            };
                            format!("{c}={body}")
                        })
                        .collect();
                    format!("ok {}", if parts.is_empty() { "-".to_string() } else { parts.join(";") })
                }
                Err(x) => format!("err {}", rerr(x)),
            };
            let mut oracle = None;
            if reply.contains("!wrong-code") {
                oracle = Some("lookup returned a declaration with another code".to_string());
            }
            if let Some(x) = find_exp(a, ah) {
                if reply != x.replace('~', " ") {
                    oracle.get_or_insert(format!("lookup expected={x}"));
                }
            }
            Some(with_oracle(reply.replace("!wrong-code", ""), oracle))
        }
        _ => None,
    }
}

// ---------------------------------------------------------------------------------------------
// generator

#[derive(Clone)]
struct Decl {
    code: u64,
    tag: u16,
    children: bool,
    /// (name, form, implicit const)
    attrs: Vec<(u16, u16, i64)>,
}

#[derive(Clone)]
struct Node {
    decl: usize,
    kids: Vec<Node>,
}

const SIBLING: u16 = 0x01;

fn gen_codes(rng: &mut Rng, n: usize) -> Vec<u64> {
    let scheme = rng.below(6);
    let mut codes: Vec<u64> = Vec::new();
    let mut tries = 0;
    while codes.len() < n {
        let i = codes.len() as u64;
        tries += 1;
        let c = match if tries > 8 * n + 64 { 5 } else { scheme } {
            0 | 1 => i + 1,                                              // sequential (permuted below for 1)
            2 => 1 + rng.below(3 * n as u64 + 5),                                      // small sparse
            3 => (*rng.pick(&[1u64 << 32, (1 << 32) + 1, u32::MAX as u64, u64::MAX, u64::MAX - 1, 1 << 63, 1 << 40])).wrapping_add(rng.below(3)), // huge
            4 => if rng.chance(1, 2) { i + 1 } else { rng.boundary_u64() },                                     // dense prefix + huge
            _ => rng.boundary_u64(),
        };
        let c = c.max(1);
        if !codes.contains(&c) {
            codes.push(c);
        }
    }
    if scheme != 0 {
        // declaration order is a permutation
        for i in (1..codes.len()).rev() {
            let j = rng.below(i as u64 + 1) as usize;
            codes.swap(i, j);
        }
    }
    codes
}

fn gen_tag(rng: &mut Rng) -> u16 {
    match rng.below(6) {
        0 => *rng.pick(&[1u16, 0x7f, 0x80, 0x3fff, 0x4000, 0xffff, 0x4109]),
        1 => rng.next() as u16 | 1,
        _ => *rng.pick(&[0x11u16, 0x2e, 0x34, 0x24, 0x0f, 0x13, 0x0d, 0x05, 0x0b, 0x1d, 0x39, 0x48]),
    }
}

/// forms usable for attributes of generated entries (every known form; indirect included)
fn gen_attrs(rng: &mut Rng, with_sibling: bool) -> Vec<(u16, u16, i64)> {
    let n = match rng.below(6) {
        0 => 0,
        1 => rng.range(5, 8),
        _ => rng.range(1, 4),
    } as usize;
    let mut v: Vec<(u16, u16, i64)> = (0..n)
        .map(|_| {
            let form = *rng.pick(c03::FORMS);
            let name = loop {
                let nm = *rng.pick(&[0x03u16, 0x02, 0x0b, 0x11, 0x12, 0x3a, 0x3b, 0x49, 0x1c, 0x55, 0x10, 0x2007, 0x3e, 0x34]);
                if nm != SIBLING {
                    break nm;
                }
            };
            (name, form, rng.boundary_i64())
        })
        .collect();
    if with_sibling {
        // DW_FORM_ref_addr (0x10) is a legal form for DW_AT_sibling too; it is a section offset, which the
        // fast path must not take for a unit offset (gimli ignores it and reads through the subtree)
        let form = *rng.pick(&[0x13u16, 0x13, 0x13, 0x11, 0x12, 0x14, 0x15, 0x10, 0x10]);
        let pos = match rng.below(3) {
            0 => 0,
            1 => v.len(),
            _ => rng.below(v.len() as u64 + 1) as usize,
        };
        v.insert(pos, (SIBLING, form, 0));
    }
    v
}

fn gen_forest(rng: &mut Rng, decls: &[Decl], budget: &mut usize, depth: usize, shape: u64) -> Vec<Node> {
    let with_kids: Vec<usize> = (0..decls.len()).filter(|&i| decls[i].children).collect();
    let mut out = Vec::new();
    let width = match (shape, depth) {
        (0, _) => 1,                                   // chain
        (1, 0) => 1,
        (1, 1) => rng.range(5, 40),                    // many siblings under the root
        (1, _) => rng.below(2),
        (_, 0) => if rng.chance(1, 6) { rng.range(2, 3) } else { 1 }, // a forest: several top-level trees
        _ => rng.below(4),
    } as usize;
    for _ in 0..width {
        if *budget == 0 {
            break;
        }
        *budget -= 1;
        let want_kids = match shape {
            0 => depth < 60 && *budget > 0,
            _ => depth < 12 && *budget > 0 && rng.chance(2, 5),
        } || (depth == 0 && *budget > 0 && rng.chance(9, 10));
        if want_kids && !with_kids.is_empty() {
            let d = *rng.pick(&with_kids);
            let kids = gen_forest(rng, decls, budget, depth + 1, shape);
            out.push(Node { decl: d, kids });
        } else {
            // any declaration: one with the children flag gives an empty child list
            let d = rng.below(decls.len() as u64) as usize;
            out.push(Node { decl: d, kids: vec![] });
        }
    }
    out
}

struct Layout {
    bytes: Vec<u8>,
    items: Vec<Item>,
    /// (position in `bytes` of a sibling attribute value, its form, index into `ends`)
    patches: Vec<(usize, u16, usize)>,
    ends: Vec<usize>,
}

fn sib_size(c: &Cfg, form: u16) -> usize {
    match form {
        0x10 => if c.ver == 2 { c.addr as usize } else { c.word() },
        0x11 => 1,
        0x12 => 2,
        0x13 => 4,
        0x14 => 8,
        _ => 5, // ref_udata: padded to five bytes so that the layout does not depend on the value
    }
}

fn emit_nodes(rng: &mut Rng, c: &Cfg, decls: &[Decl], nodes: &[Node], depth: isize, base: usize, l: &mut Layout) -> Option<()> {
    for n in nodes {
        let d = &decls[n.decl];
        let off = base + l.bytes.len();
        l.items.push((off, depth, d.tag, d.children));
        l.bytes.extend(uleb(d.code));
        let end_ix = l.ends.len();
        l.ends.push(0);
        for &(name, form, imp) in &d.attrs {
            if name == SIBLING {
                l.patches.push((l.bytes.len(), form, end_ix));
                l.bytes.extend(std::iter::repeat(0).take(sib_size(c, form)));
            } else {
                let (b, _) = encode_form(rng, c, form, imp, 0)?;
                l.bytes.extend(b);
            }
        }
        if d.children {
            emit_nodes(rng, c, decls, &n.kids, depth + 1, base, l)?;
            let off = base + l.bytes.len();
            l.items.push((off, depth + 1, 0, false));
            l.bytes.push(0);
        }
        l.ends[end_ix] = base + l.bytes.len();
    }
    Some(())
}

struct UnitCase {
    cfg: Cfg,
    sect: &'static str,
    abbrev: Vec<u8>,
    section: Vec<u8>,
    items: Vec<Item>,
    /// canonical text of every unit header of the section, in order
    headers: Vec<String>,
    /// index of the unit under test in the section (units before it are small well-formed ones)
    index: usize,
}

fn abbrev_bytes(rng: &mut Rng, decls: &[Decl], order: &[usize], terminate: bool) -> Vec<u8> {
    let mut out = Vec::new();
    for &i in order {
        let d = &decls[i];
        out.extend(uleb(d.code));
        out.extend(uleb(d.tag as u64));
        out.push(d.children as u8);
        for &(name, form, imp) in &d.attrs {
            out.extend(uleb_padded(name as u64, if rng.chance(1, 12) && name < 0x80 { 1 } else { 0 }));
            out.extend(uleb(form as u64));
            if form == 0x21 {
                out.extend(c03::sleb(imp));
            }
        }
        out.push(0);
        out.push(0);
    }
    if terminate {
        out.push(0);
    }
    out
}

/// header bytes for a unit whose entries occupy `entries_len` bytes; returns (bytes, canonical text)
fn header_bytes(rng: &mut Rng, c: &Cfg, sect: &str, ut: u8, abbrev_off: u64, entries_len: usize, unit_off: usize) -> (Vec<u8>, String) {
    let w = c.word();
    let sig = rng.boundary_u64();
    let toff = rng.boundary_u64() & if c.f64 { u64::MAX } else { 0xffff_ffff };
    let id = rng.boundary_u64();
    let mut body = Vec::new();
    body.extend(put(c.big, 2, c.ver as u128));
    if c.ver == 5 {
        body.push(ut);
        body.push(c.addr);
        body.extend(put(c.big, w, abbrev_off as u128));
    } else {
        body.extend(put(c.big, w, abbrev_off as u128));
        body.push(c.addr);
    }
    let ty = match ut {
        1 => "C".to_string(),
        3 => "P".to_string(),
        2 | 6 => {
            body.extend(put(c.big, 8, sig as u128));
            body.extend(put(c.big, w, toff as u128));
            format!("{}:{sig}:{toff}", if ut == 2 { "T" } else { "ST" })
        }
        _ => {
            body.extend(put(c.big, 8, id as u128));
            format!("{}:{id}", if ut == 4 { "S" } else { "SC" })
        }
    };
    let unit_len = body.len() + entries_len;
    let mut out = Vec::new();
    if c.f64 {
        out.extend(put(c.big, 4, 0xffff_ffff));
        out.extend(put(c.big, 8, unit_len as u128));
    } else {
        out.extend(put(c.big, 4, unit_len as u128));
    }
    out.extend(body);
    let hsz = out.len();
    let _ = sect;
    let text = format!(
        "off={unit_off},len={unit_len},fmt={},ver={},asz={},abbr={abbrev_off},type={ty},hsz={hsz},soh={hsz},ebuf={entries_len}",
        if c.f64 { 64 } else { 32 },
        c.ver,
        c.addr
    );
    (out, text)
}

fn pick_unit_type(rng: &mut Rng, ver: u16) -> (&'static str, u8) {
    if ver == 5 {
        ("info", *rng.pick(&[1u8, 1, 2, 3, 4, 5, 6]))
    } else if rng.chance(1, 4) {
        ("types", 2)
    } else {
        ("info", 1)
    }
}

fn gen_unit(rng: &mut Rng) -> Option<UnitCase> {
    let cfg = Cfg::random(rng);
    let (sect, ut) = pick_unit_type(rng, cfg.ver);
    // declarations
    let nd = match rng.below(5) {
        0 => 1,
        1 => rng.range(9, 20),
        _ => rng.range(2, 8),
    } as usize;
    let codes = gen_codes(rng, nd);
    let sib_mode = rng.below(4); // 0 none, 1 all with children, 2 some, 3 everywhere
    let mut decls: Vec<Decl> = Vec::new();
    for (i, &code) in codes.iter().enumerate() {
        let children = i == 0 || rng.chance(1, 2);
        let with_sibling = match sib_mode {
            0 => false,
            1 => children,
            2 => rng.chance(1, 2),
            _ => true,
        };
        decls.push(Decl { code, tag: gen_tag(rng), children, attrs: gen_attrs(rng, with_sibling) });
    }
    let shape = rng.below(4);
    let mut budget = match shape {
        0 => rng.range(2, 70),
        _ => rng.range(1, 60),
    } as usize;
    let forest = gen_forest(rng, &decls, &mut budget, 0, shape);
    if forest.is_empty() {
        return None;
    }
    // a share of the units does not start at section offset 0: one or two small well-formed units
    // (a few null entries) in front of it, in the same section and byte order
    let mut lead: Vec<u8> = Vec::new();
    let mut headers: Vec<String> = Vec::new();
    if rng.chance(2, 5) {
        for _ in 0..rng.range(1, 2) {
            let lc = Cfg { big: cfg.big, addr: *rng.pick(&[1u8, 2, 4, 8]), f64: rng.chance(1, 3), ver: if sect == "types" { rng.range(2, 4) as u16 } else { rng.range(2, 5) as u16 } };
            let lut = if lc.ver == 5 { *rng.pick(&[1u8, 3, 4, 5]) } else if sect == "types" { 2 } else { 1 };
            let body = vec![0u8; rng.below(4) as usize];
            let (hb, text) = header_bytes(rng, &lc, sect, lut, 0, body.len(), lead.len());
            lead.extend(hb);
            lead.extend(body);
            headers.push(text);
        }
    }
    let unit_off = lead.len();
    // DW_FORM_ref_addr siblings hold what a producer writes (the section offset) or, wrongly but in
    // bounds, the unit-relative number; either way the fast path has to leave them alone
    let ref_addr_section_relative = rng.chance(2, 3);
    // the header size does not depend on the entries; lay the entries out behind it
    let (h0, _) = header_bytes(rng, &cfg, sect, ut, 0, 0, 0);
    let base = h0.len();
    let mut l = Layout { bytes: vec![], items: vec![], patches: vec![], ends: vec![] };
    emit_nodes(rng, &cfg, &decls, &forest, 0, base, &mut l)?;
    // trailing null padding
    let pad = if rng.chance(1, 4) { rng.range(1, 4) as usize } else { 0 };
    let mut depth = 0isize;
    for _ in 0..pad {
        let off = base + l.bytes.len();
        l.items.push((off, depth, 0, false));
        l.bytes.push(0);
        depth -= 1;
    }
    // patch the sibling attributes: the offset just behind the entry's subtree
    for &(pos, form, ix) in &l.patches {
        let v = l.ends[ix] as u64 + if form == 0x10 && ref_addr_section_relative { unit_off as u64 } else { 0 };
        let n = sib_size(&cfg, form);
        if n < 8 && form != 0x15 && v >= 1u64 << (8 * n) {
            return None; // does not fit DW_FORM_ref1/ref2: draw another case
        }
        let b = if form == 0x15 { uleb_padded(v, 5 - uleb(v).len()) } else { put(cfg.big, n, v as u128) };
        if b.len() != n {
            return None;
        }
        l.bytes[pos..pos + n].copy_from_slice(&b);
    }
    // abbreviation table behind some junk
    let junk = if rng.chance(1, 2) { rng.bytes_below(9) } else { vec![] };
    let mut order: Vec<usize> = (0..decls.len()).collect();
    if rng.chance(1, 2) {
        for i in (1..order.len()).rev() {
            let j = rng.below(i as u64 + 1) as usize;
            order.swap(i, j);
        }
    }
    let mut abbrev = junk.clone();
    let term = rng.chance(5, 6);
    abbrev.extend(abbrev_bytes(rng, &decls, &order, term));
    // keep the request lines short (the Model reads byte lists): big attribute blobs add nothing here
    if l.bytes.len() > 600 && !rng.chance(1, 40) {
        return None;
    }
    let (hb, text) = header_bytes(rng, &cfg, sect, ut, junk.len() as u64, l.bytes.len(), unit_off);
    let index = headers.len();
    headers.push(text);
    let mut section = lead;
    section.extend(hb);
    section.extend(&l.bytes);
    Some(UnitCase { cfg, sect, abbrev, section, items: l.items, headers, index })
}


// ---------------------------------------------------------------------------------------------
// compiler-built corpus (thorough tier; a frozen sample is in harness/corpus/C02.txt): small C / C++
// sources built by gcc and clang for DWARF 2-5, 32/64-bit format, type units, split DWARF, 32-bit and
// big-endian targets; the expected listing comes from `llvm-dwarfdump --debug-info --debug-types`.

const SRC_C: &str = r#"
struct P { int x; struct { char c; long l; } in; };
enum E { A, B };
typedef int (*fn_t)(struct P *, enum E);
union U { float f; unsigned u; };
static inline int sq(int v) { int t = v * v; return t; }
int f(struct P *p, enum E e) { { int y = sq(p->x); if (e == B) { long z = y; return (int)z; } return y; } }
static int g(union U u, int n) { int acc = 0; for (int i = 0; i < n; i++) { int w = i * (int)u.u; acc += w; } return acc; }
int main(void) { struct P p = {3, {'a', 4}}; union U u; u.u = 2; fn_t h = f; return h(&p, A) + g(u, 3); }
"#;

const SRC_CPP: &str = r#"
namespace ns { template <typename T> struct Box { T v; T get() const { return v; } };
  class Base { public: virtual ~Base() {} virtual int id() { return 1; } };
  class D : public Base { int k; public: D(int k) : k(k) {} int id() override { auto l = [this](int a) { return a + k; }; return l(2); } };
  namespace inner { enum class Color : char { Red, Green }; struct Empty {}; } }
int main() { ns::Box<long> b{4}; ns::D d(3); ns::Base *p = &d; ns::inner::Empty e; (void)e; return (int)b.get() + p->id(); }
"#;

fn run(cmd: &str, args: &[&str], dir: &std::path::Path) -> Option<String> {
    let out = std::process::Command::new(cmd).args(args).current_dir(dir).output().ok()?;
    if !out.status.success() {
        return None;
    }
    Some(String::from_utf8_lossy(&out.stdout).into_owned())
}

fn tag_numbers() -> std::collections::HashMap<&'static str, u16> {
    let mut m = std::collections::HashMap::new();
    for v in 0..=0xffffu16 {
        if let Some(s) = gimli::DwTag(v).static_string() {
            m.entry(s).or_insert(v);
        }
    }
    m
}

/// one entry of an `llvm-dwarfdump -v` listing: section offset, depth (from the indentation), tag name
/// (`NULL` for a null entry) and its attribute lines `(DW_AT_x, DW_FORM_y, text of the value)`
#[derive(Clone, Debug)]
pub struct DumpDie {
    pub off: usize,
    pub depth: isize,
    pub tag: String,
    pub attrs: Vec<(String, String, String)>,
}

/// one unit of the compiler-built corpus
pub struct CorpusUnit {
    pub endian: &'static str,
    pub sect: &'static str,
    pub abbrev_hex: String,
    pub unit_hex: String,
    /// offset of the unit in its section (listing offsets are section offsets)
    pub start: usize,
    /// an unlinked object: section offsets and addresses in it are still to be relocated (llvm-dwarfdump shows them relocated)
    pub relocatable: bool,
    pub dies: Vec<DumpDie>,
}

/// (unit start, next unit, entries) per unit of one section of an `llvm-dwarfdump -v` listing
fn parse_dump(text: &str, section_title: &str) -> Vec<(usize, usize, Vec<DumpDie>)> {
    let mut units: Vec<(usize, usize, Vec<DumpDie>)> = Vec::new();
    let mut in_sec = false;
    for line in text.lines() {
        if line.ends_with(" contents:") {
            in_sec = line.trim_end_matches(" contents:") == section_title;
            continue;
        }
        if !in_sec {
            continue;
        }
        if line.starts_with("0x") {
            let Some((off_s, rest)) = line.split_once(':') else { continue };
            let Ok(off) = usize::from_str_radix(off_s.trim_start_matches("0x"), 16) else { continue };
            if rest.contains(" Unit: length") {
                let next = rest.rsplit("next unit at 0x").next().and_then(|t| usize::from_str_radix(t.trim_end_matches(')'), 16).ok());
                if let Some(n) = next {
                    units.push((off, n, Vec::new()));
                }
                continue;
            }
            let spaces = rest.len() - rest.trim_start().len();
            let word = rest.trim_start().split_whitespace().next().unwrap_or("");
            if let Some(u) = units.last_mut() {
                u.2.push(DumpDie { off, depth: (spaces.saturating_sub(1) / 2) as isize, tag: word.to_string(), attrs: vec![] });
            }
        } else {
            // `  DW_AT_name [DW_FORM_strp]\t( .debug_str[0x0000002b] = "…")`
            let t = line.trim_start();
            if !t.starts_with("DW_AT_") {
                continue;
            }
            let Some((name, rest)) = t.split_once(" [") else { continue };
            let Some((form, val)) = rest.split_once(']') else { continue };
            if let Some(d) = units.last_mut().and_then(|u| u.2.last_mut()) {
                d.attrs.push((name.to_string(), form.to_string(), val.trim().to_string()));
            }
        }
    }
    units
}

/// build the corpus (gcc/g++/clang/clang++; needs llvm-dwarfdump and objcopy) and list its units
pub fn corpus_units() -> Vec<CorpusUnit> {
    let dir = std::path::PathBuf::from(concat!(env!("CARGO_MANIFEST_DIR"), "/target/c02-corpus"));
    let _ = std::fs::create_dir_all(&dir);
    if std::fs::write(dir.join("a.c"), SRC_C).is_err() || std::fs::write(dir.join("b.cpp"), SRC_CPP).is_err() {
        return vec![];
    }
    // (compiler, arguments, output file, endian token)
    let builds: Vec<(&str, Vec<&str>, &str, &'static str)> = vec![
        ("gcc", vec!["-g", "-O1", "a.c", "-o", "g5.out"], "g5.out", "le"),
        ("gcc", vec!["-g", "-gdwarf-4", "-fdebug-types-section", "a.c", "-o", "g4t.out"], "g4t.out", "le"),
        ("gcc", vec!["-g", "-gdwarf-3", "-O2", "a.c", "-o", "g3.out"], "g3.out", "le"),
        ("gcc", vec!["-g", "-gdwarf-2", "a.c", "-o", "g2.out"], "g2.out", "le"),
        ("gcc", vec!["-g", "-gdwarf-5", "-gdwarf64", "a.c", "-o", "g64.out"], "g64.out", "le"),
        ("gcc", vec!["-g", "-m32", "-c", "a.c", "-o", "g32.o"], "g32.o", "le"),
        ("gcc", vec!["-g", "-gsplit-dwarf", "-gdwarf-5", "-c", "a.c", "-o", "gs.o"], "gs.o", "le"),
        ("gcc", vec!["-g", "-gsplit-dwarf", "-gdwarf-5", "-c", "a.c", "-o", "gs.o"], "gs.dwo", "le"),
        ("g++", vec!["-g", "-O0", "b.cpp", "-o", "gpp.out"], "gpp.out", "le"),
        ("g++", vec!["-g", "-gdwarf-4", "-fdebug-types-section", "-O1", "b.cpp", "-o", "gpp4t.out"], "gpp4t.out", "le"),
        ("clang", vec!["-g", "-gdwarf-5", "a.c", "-c", "-o", "c5.o"], "c5.o", "le"),
        ("clang", vec!["-g", "-gdwarf-4", "-gdwarf64", "-c", "a.c", "-o", "c64.o"], "c64.o", "le"),
        ("clang", vec!["-g", "-gdwarf-2", "-c", "a.c", "-o", "c2.o"], "c2.o", "le"),
        ("clang", vec!["--target=powerpc64-unknown-linux-gnu", "-g", "-c", "a.c", "-o", "ppc.o"], "ppc.o", "be"),
        ("clang", vec!["--target=mips-unknown-linux-gnu", "-g", "-gdwarf-4", "-c", "a.c", "-o", "mips.o"], "mips.o", "be"),
        ("clang++", vec!["-g", "-gdwarf-5", "-O1", "-c", "b.cpp", "-o", "cpp5.o"], "cpp5.o", "le"),
    ];
    let mut out = Vec::new();
    for (cc, args, file, e) in builds {
        if run(cc, &args, &dir).is_none() {
            continue;
        }
        let Some(dump) = run("llvm-dwarfdump", &["-v", "--debug-info", "--debug-types", file], &dir) else { continue };
        for (info, abbrev, sect) in [
            (".debug_info", ".debug_abbrev", "info"),
            (".debug_types", ".debug_abbrev", "types"),
            (".debug_info.dwo", ".debug_abbrev.dwo", "info"),
        ] {
            let ib = dir.join("info.bin");
            let ab = dir.join("abbrev.bin");
            let _ = std::fs::remove_file(&ib);
            let _ = std::fs::remove_file(&ab);
            let d1 = format!("{info}=info.bin");
            let d2 = format!("{abbrev}=abbrev.bin");
            // llvm-objcopy also reads the foreign (big-endian) objects; GNU objcopy is the fallback
            if run("llvm-objcopy", &["--dump-section", &d1, "--dump-section", &d2, file, "/dev/null"], &dir).is_none()
                && run("objcopy", &["--dump-section", &d1, "--dump-section", &d2, file, "/dev/null"], &dir).is_none()
            {
                continue;
            }
            let (Ok(ibytes), Ok(abytes)) = (std::fs::read(&ib), std::fs::read(&ab)) else { continue };
            let ah = hex(&abytes);
            for (start, next, dies) in parse_dump(&dump, info) {
                if next > ibytes.len() || start >= next || dies.is_empty() {
                    continue;
                }
                out.push(CorpusUnit { endian: e, sect, abbrev_hex: ah.clone(), unit_hex: hex(&ibytes[start..next]), start, relocatable: file.ends_with(".o"), dies });
            }
        }
    }
    out
}

pub fn corpus_lines() -> Vec<String> {
    let tags = tag_numbers();
    let mut out = Vec::new();
    for u in corpus_units() {
        // tag numbers; a name we cannot map means no expectation for this unit
        let items: Option<Vec<(usize, isize, u16)>> = u
            .dies
            .iter()
            .map(|d| if d.tag == "NULL" { Some((d.off, d.depth, 0)) } else { tags.get(d.tag.as_str()).map(|&t| (d.off, d.depth, t)) })
            .collect();
        let Some(items) = items else { continue };
        let (e, sect, ah, sh, start) = (u.endian, u.sect, &u.abbrev_hex, &u.unit_hex, u.start);
        // children flag: the next listed entry is one level deeper
        let full: Vec<Item> = items
            .iter()
            .enumerate()
            .map(|(i, &(o, d, t))| (o - start, d, t, t != 0 && items.get(i + 1).map_or(false, |n| n.1 == d + 1)))
            .collect();
        let exp = exp_tok(&items_s(&full), sh);
        out.push(format!("die-hdr {e} {sect} {sh}"));
        for st in ["raw", "rawskip", "entry", "dfs", "sib", "tree", "treeskip"] {
            out.push(format!("die-nav {st} {e} {sect} {ah} {sh} - {exp}"));
        }
        let offs: Vec<String> = full.iter().take(300).map(|i| i.0.to_string()).collect();
        out.push(format!("die-at {e} {sect} {ah} {sh} {} {exp}", offs.join(",")));
        // a few start positions in the middle
        for k in [full.len() / 3, full.len() / 2, full.len() - 1] {
            out.push(format!("die-nav sib {e} {sect} {ah} {sh} {} {exp}", full[k].0));
            out.push(format!("die-nav tree {e} {sect} {ah} {sh} {} {exp}", full[k].0));
        }
    }
    out
}

fn es(c: &Cfg) -> &'static str {
    if c.big { "be" } else { "le" }
}

pub fn gen(ctx: &Ctx, emit: &mut dyn FnMut(String)) {
    let mut rng = ctx.rng(2);
    const STYLES: &[&str] = &["raw", "rawskip", "entry", "dfs", "sib", "tree", "treeskip"];
    let n = ctx.n(1500, 8000);
    let mut made = 0;
    let mut tries = 0;
    while made < n && tries < 20 * n {
        tries += 1;
        let Some(u) = gen_unit(&mut rng) else { continue };
        made += 1;
        let sh = hex(&u.section);
        let ah = hex(&u.abbrev);
        let exp = exp_tok(&items_s(&u.items), &sh);
        let e = es(&u.cfg);
        emit(format!("die-hdr {e} {} {sh} {}", u.sect, exp_tok(&format!("{}~ok", u.headers.join(";")), &sh)));
        // `info@k`: the unit under test is the k-th unit of the section
        let usel = if u.index == 0 { u.sect.to_string() } else { format!("{}@{}", u.sect, u.index) };
        for st in STYLES {
            emit(format!("die-nav {st} {e} {} {ah} {sh} - {exp}", usel));
        }
        // every entry offset as a start position (all of them for small units, a sample otherwise)
        let offs: Vec<usize> = u.items.iter().map(|i| i.0).collect();
        let all = offs.len() <= 12 || made % 10 == 0;
        let mut sample: Vec<usize> = if all { offs.clone() } else { (0..6).map(|_| *rng.pick(&offs)).collect() };
        sample.dedup();
        for &o in &sample {
            let st = if all && offs.len() <= 12 { STYLES.to_vec() } else { vec![*rng.pick(STYLES), *rng.pick(STYLES)] };
            for s in st {
                emit(format!("die-nav {s} {e} {} {ah} {sh} {o} {exp}", usel));
            }
        }
        // positioned reads: every entry offset, plus offsets that are not entry starts / out of bounds
        let mut at: Vec<usize> = offs.clone();
        at.push(0);
        at.push(u.section.len());
        at.push(u.section.len() + 1);
        at.push(offs[0].saturating_sub(1));
        at.push(rng.below(u.section.len() as u64 + 4) as usize);
        let at_s: Vec<String> = at.iter().map(|o| o.to_string()).collect();
        emit(format!("die-at {e} {} {ah} {sh} {} {exp}", usel, at_s.join(",")));

        // malformed neighbours (no expectation): truncation, byte mutation, sibling pointers gone wrong
        if made % 3 == 0 {
            let k = rng.below(u.section.len() as u64) as usize;
            let mut m = u.section.clone();
            match rng.below(3) {
                0 => m.truncate(k),
                1 => m[k] = *rng.pick(&[0u8, 1, 0x7f, 0x80, 0xff, 2, 5]),
                _ => {
                    m[k] = m[k].wrapping_add(1);
                }
            }
            let mh = hex(&m);
            let st = *rng.pick(STYLES);
            emit(format!("die-nav {st} {e} {} {ah} {mh} -", usel));
            emit(format!("die-hdr {e} {} {mh}", u.sect));
            if rng.chance(1, 2) {
                emit(format!("die-at {e} {} {ah} {mh} {}", usel, at_s.join(",")));
            }
        }
        if made % 5 == 0 {
            let k = rng.below(u.abbrev.len() as u64) as usize;
            let mut m = u.abbrev.clone();
            match rng.below(3) {
                0 => m.truncate(k),
                1 => m[k] = *rng.pick(&[0u8, 1, 0x7f, 0x80, 0xff, 0x21, 0x16]),
                _ => {
                    m[k] = m[k].wrapping_add(1);
                }
            }
            let st = *rng.pick(STYLES);
            emit(format!("die-nav {st} {e} {} {} {sh} -", usel, hex(&m)));
        }
    }

    // ---- unit headers: sections with several units, every version / unit type / format; malformed fields
    for i in 0..ctx.n(1500, 10000) {
        let big = rng.chance(1, 2);
        let sect_types = rng.chance(1, 5);
        let nunits = rng.range(1, 4);
        let mut sec = Vec::new();
        let mut texts = Vec::new();
        let mut valid = true;
        for _ in 0..nunits {
            let c = Cfg { big, addr: *rng.pick(&[1u8, 2, 4, 8]), f64: rng.chance(1, 2), ver: rng.range(2, 5) as u16 };
            let ut = if c.ver == 5 { *rng.pick(&[1u8, 2, 3, 4, 5, 6]) } else if sect_types { 2 } else { 1 };
            let body = rng.bytes_below(12);
            let ao = rng.boundary_u64() & if c.f64 { u64::MAX } else { 0xffff_ffff };
            let (hb, text) = header_bytes(&mut rng, &c, "", ut, ao, body.len(), sec.len());
            sec.extend(hb);
            sec.extend(body);
            texts.push(text);
        }
        // malformed variants: one field of the first header off the valid range
        if i % 4 == 3 {
            valid = false;
            let k = rng.below(sec.len().min(30) as u64) as usize;
            sec[k] = *rng.pick(&[0u8, 1, 2, 3, 5, 6, 7, 9, 0x80, 0xf0, 0xfe, 0xff]);
        } else if i % 4 == 2 && rng.chance(1, 2) {
            valid = false;
            let k = rng.below(sec.len() as u64) as usize;
            sec.truncate(k);
        }
        let sh = hex(&sec);
        let e = if big { "be" } else { "le" };
        let s = if sect_types { "types" } else { "info" };
        if valid {
            emit(format!("die-hdr {e} {s} {sh} {}", exp_tok(&format!("{}~ok", texts.join(";")), &sh)));
        } else {
            emit(format!("die-hdr {e} {s} {sh}"));
        }
    }

    // ---- abbreviation tables: code schemes x lookups; duplicates are rejected
    for _ in 0..ctx.n(3000, 30000) {
        let nd = match rng.below(6) {
            0 => 0,
            1 => rng.range(20, 60),
            _ => rng.range(1, 12),
        } as usize;
        let codes = gen_codes(&mut rng, nd);
        let mut decls: Vec<Decl> = Vec::new();
        for &code in &codes {
            let ws = rng.chance(1, 4);
            decls.push(Decl { code, tag: gen_tag(&mut rng), children: rng.chance(1, 2), attrs: gen_attrs(&mut rng, ws) });
        }
        let dup = nd > 0 && rng.chance(1, 5);
        if dup {
            // a second declaration with a code that already occurs (anywhere in the order)
            let src = rng.below(nd as u64) as usize;
            let d = Decl { code: decls[src].code, tag: gen_tag(&mut rng), children: rng.chance(1, 2), attrs: gen_attrs(&mut rng, false) };
            let pos = rng.range(src as u64 + 1, nd as u64) as usize;
            decls.insert(pos, d);
        }
        let order: Vec<usize> = (0..decls.len()).collect();
        let junk = if rng.chance(1, 3) { rng.bytes_below(6) } else { vec![] };
        let mut ab = junk.clone();
        let term = rng.chance(5, 6);
        ab.extend(abbrev_bytes(&mut rng, &decls, &order, term));
        // lookups: every declared code, its neighbours, 0, boundary values
        let mut look: Vec<u64> = decls.iter().map(|d| d.code).collect();
        for d in decls.iter().take(6) {
            look.push(d.code.wrapping_add(1));
            look.push(d.code.wrapping_sub(1));
        }
        look.extend_from_slice(&[0, 1, 2, nd as u64, nd as u64 + 1, u32::MAX as u64, 1 << 32, u64::MAX]);
        look.push(rng.boundary_u64());
        let look_s: Vec<String> = look.iter().map(|c| c.to_string()).collect();
        let ah = hex(&ab);
        let want = if dup {
            "err~DuplicateAbbreviationCode".to_string()
        } else {
            let parts: Vec<String> = look
                .iter()
                .map(|&c| {
                    let body = match decls.iter().find(|d| d.code == c) {
                        Some(d) => {
                            let attrs: Vec<String> = d.attrs.iter().map(|&(n, f, i)| format!("{n}/{f}/{}", if f == 0x21 { i } else { 0 })).collect();
                            format!("{}:{}:{}", d.tag, d.children as u8, if attrs.is_empty() { "-".to_string() } else { attrs.join("+") })
                        }
                        None => "-".into(),
                    };
                    format!("{c}={body}")
                })
                .collect();
            format!("ok~{}", parts.join(";"))
        };
        emit(format!("abbrev-get {ah} {} {} {}", junk.len(), look_s.join(","), exp_tok(&want, &ah)));
        // malformed: truncation / mutation (no expectation)
        if rng.chance(1, 4) && !ab.is_empty() {
            let k = rng.below(ab.len() as u64) as usize;
            let mut m = ab.clone();
            if rng.chance(1, 2) {
                m.truncate(k);
            } else {
                m[k] = *rng.pick(&[0u8, 1, 2, 0x7f, 0x80, 0xff, 0x21]);
            }
            emit(format!("abbrev-get {} {} {}", hex(&m), junk.len(), look_s.join(",")));
        }
    }
    if ctx.tier == Tier::Thorough {
        for l in corpus_lines() {
            emit(l);
        }
    }
}
