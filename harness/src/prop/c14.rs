//! C14 — written frame tables read back with the same CIEs, FDEs and unwind rows.
//!
//! Implementation side of the `wcfi-*` ops (see `lean/Gimli/Drv/C14.lean` for the line format):
//! the abstract table of the request is built through `gimli::write::{FrameTable,
//! CommonInformationEntry, FrameDescriptionEntry}`, written with `write_debug_frame` /
//! `write_eh_frame` into an `EndianVec`, and the reply is the section bytes (or the error), which
//! the Lean Model predicts byte for byte.
//!
//! Direct oracle (independent of the Model, appended as ` #oracle:<class> …`): the bytes are read
//! back with `gimli::read::{DebugFrame, EhFrame}` + `UnwindTable` and compared with the request:
//! CIE parameters, FDE ranges, personality / LSDA pointers, unwind rows equal to the rows of a
//! naive interpreter run directly over the instructions supplied at their code offsets, entry
//! lengths aligned to the address size, equal CIEs share an id and are emitted once, tables with an
//! inexpressible / decreasing offset are not accepted, plainly well-formed tables are not rejected.
//!
//! `wcfi-rows`: the same request; the reply is the rows gimli reads back for every FDE, which the
//! Lean side answers from the **Spec** (`Spec.WCfi.wTable`, the meaning of the supplied
//! instructions at their code offsets) — the statement of theorem `rows_roundtrip` run as a
//! differential test against the real writer + reader.
use crate::prop::{Ctx, Tier};
use crate::util::{digest_step, hex, rerr, str_hash, unhex, werr, Rng, DIGEST_INIT};
use gimli::write as w;
use gimli::{
    BaseAddresses, CfaRule, DebugFrame, EhFrame, EndianSlice, Format, Pointer, Register, RegisterRule, RunTimeEndian,
    UnwindContext, UnwindContextStorage, UnwindSection, UnwindTableRow, Vendor,
};
use std::collections::BTreeMap;

type Rd<'a> = EndianSlice<'a, RunTimeEndian>;

struct StVec;
impl<T: gimli::ReaderOffset> UnwindContextStorage<T> for StVec {
    type Rules = Vec<(Register, RegisterRule<T>)>;
    type Stack = Vec<UnwindTableRow<T, Self>>;
}

// ---------------------------------------------------------------- abstract tables

#[derive(Clone, Debug, PartialEq, Eq)]
enum AI {
    Cfa(u16, i32),
    CfaReg(u16),
    CfaOff(i32),
    CfaExpr(Vec<u8>),
    Restore(u16),
    Undef(u16),
    Same(u16),
    Off(u16, i32),
    VOff(u16, i32),
    Reg(u16, u16),
    Expr(u16, Vec<u8>),
    VExpr(u16, Vec<u8>),
    Rem,
    Res,
    Args(u32),
    Neg,
}

/// `None` = `Address::Symbol`
type AAddr = Option<u64>;

#[derive(Clone, Debug, PartialEq, Eq)]
struct ACie {
    fmt64: bool,
    ver: u16,
    asz: u8,
    caf: u8,
    daf: i8,
    ra: u16,
    pers: Option<(u8, AAddr)>,
    lsda: Option<u8>,
    fdeenc: u8,
    sig: bool,
    instrs: Vec<AI>,
}

#[derive(Clone, Debug)]
struct AFde {
    k: usize,
    addr: AAddr,
    len: u32,
    lsda: Option<AAddr>,
    instrs: Vec<(u32, AI)>,
}

fn p_addr(s: &str) -> Option<AAddr> {
    if s == "s" { Some(None) } else { s.parse::<u64>().ok().map(Some) }
}

fn p_instr(s: &str) -> Option<AI> {
    let t: Vec<&str> = s.split(':').collect();
    Some(match t.as_slice() {
        ["cfa", r, o] => AI::Cfa(r.parse().ok()?, o.parse().ok()?),
        ["cfar", r] => AI::CfaReg(r.parse().ok()?),
        ["cfao", o] => AI::CfaOff(o.parse().ok()?),
        ["cfae", h] => AI::CfaExpr(unhex(h)?),
        ["rst", r] => AI::Restore(r.parse().ok()?),
        ["und", r] => AI::Undef(r.parse().ok()?),
        ["same", r] => AI::Same(r.parse().ok()?),
        ["off", r, o] => AI::Off(r.parse().ok()?, o.parse().ok()?),
        ["voff", r, o] => AI::VOff(r.parse().ok()?, o.parse().ok()?),
        ["reg", a, b] => AI::Reg(a.parse().ok()?, b.parse().ok()?),
        ["expr", r, h] => AI::Expr(r.parse().ok()?, unhex(h)?),
        ["vexpr", r, h] => AI::VExpr(r.parse().ok()?, unhex(h)?),
        ["rem"] => AI::Rem,
        ["res"] => AI::Res,
        ["args", n] => AI::Args(n.parse().ok()?),
        ["neg"] => AI::Neg,
        _ => return None,
    })
}

fn split<'a>(s: &'a str, sep: char) -> Vec<&'a str> {
    if s == "-" { vec![] } else { s.split(sep).collect() }
}

fn p_cie(s: &str) -> Option<ACie> {
    let t: Vec<&str> = s.split(',').collect();
    let [fmt, ver, asz, caf, daf, ra, pers, lsda, fdeenc, sig, instrs] = t.as_slice() else { return None };
    let pers = if *pers == "-" {
        None
    } else {
        let (e, a) = pers.split_once(':')?;
        Some((e.parse().ok()?, p_addr(a)?))
    };
    Some(ACie {
        fmt64: match *fmt {
            "32" => false,
            "64" => true,
            _ => return None,
        },
        ver: ver.parse().ok()?,
        asz: asz.parse().ok()?,
        caf: caf.parse().ok()?,
        daf: daf.parse().ok()?,
        ra: ra.parse().ok()?,
        pers,
        lsda: if *lsda == "-" { None } else { Some(lsda.parse().ok()?) },
        fdeenc: fdeenc.parse().ok()?,
        sig: match *sig {
            "0" => false,
            "1" => true,
            _ => return None,
        },
        instrs: split(instrs, '/').into_iter().map(p_instr).collect::<Option<Vec<_>>>()?,
    })
}

fn p_fde(s: &str) -> Option<AFde> {
    let t: Vec<&str> = s.split(',').collect();
    let [k, a, len, lsda, instrs] = t.as_slice() else { return None };
    let mut is = vec![];
    for x in split(instrs, '/') {
        let (o, i) = x.split_once('@')?;
        is.push((o.parse().ok()?, p_instr(i)?));
    }
    Some(AFde {
        k: k.parse().ok()?,
        addr: p_addr(a)?,
        len: len.parse().ok()?,
        lsda: if *lsda == "-" { None } else { Some(p_addr(lsda)?) },
        instrs: is,
    })
}

// ---------------------------------------------------------------- rendering of requests (generator side)

fn s_addr(a: &AAddr) -> String {
    match a {
        Some(v) => v.to_string(),
        None => "s".into(),
    }
}

fn s_instr(i: &AI) -> String {
    match i {
        AI::Cfa(r, o) => format!("cfa:{r}:{o}"),
        AI::CfaReg(r) => format!("cfar:{r}"),
        AI::CfaOff(o) => format!("cfao:{o}"),
        AI::CfaExpr(e) => format!("cfae:{}", hex(e)),
        AI::Restore(r) => format!("rst:{r}"),
        AI::Undef(r) => format!("und:{r}"),
        AI::Same(r) => format!("same:{r}"),
        AI::Off(r, o) => format!("off:{r}:{o}"),
        AI::VOff(r, o) => format!("voff:{r}:{o}"),
        AI::Reg(a, b) => format!("reg:{a}:{b}"),
        AI::Expr(r, e) => format!("expr:{r}:{}", hex(e)),
        AI::VExpr(r, e) => format!("vexpr:{r}:{}", hex(e)),
        AI::Rem => "rem".into(),
        AI::Res => "res".into(),
        AI::Args(n) => format!("args:{n}"),
        AI::Neg => "neg".into(),
    }
}

fn join(xs: Vec<String>, sep: &str) -> String {
    if xs.is_empty() { "-".into() } else { xs.join(sep) }
}

fn s_cie(c: &ACie) -> String {
    format!(
        "{},{},{},{},{},{},{},{},{},{},{}",
        if c.fmt64 { 64 } else { 32 },
        c.ver,
        c.asz,
        c.caf,
        c.daf,
        c.ra,
        match &c.pers {
            Some((e, a)) => format!("{e}:{}", s_addr(a)),
            None => "-".into(),
        },
        match c.lsda {
            Some(e) => e.to_string(),
            None => "-".into(),
        },
        c.fdeenc,
        c.sig as u8,
        join(c.instrs.iter().map(s_instr).collect(), "/")
    )
}

fn s_fde(f: &AFde) -> String {
    format!(
        "{},{},{},{},{}",
        f.k,
        s_addr(&f.addr),
        f.len,
        match &f.lsda {
            Some(a) => s_addr(a),
            None => "-".into(),
        },
        join(f.instrs.iter().map(|(o, i)| format!("{o}@{}", s_instr(i))).collect(), "/")
    )
}

fn s_table(sec_eh: bool, big: bool, cies: &[ACie], fdes: &[AFde]) -> String {
    format!(
        "wcfi-table @MODE@ {} {} {} {}",
        if sec_eh { "eh" } else { "df" },
        if big { "be" } else { "le" },
        join(cies.iter().map(s_cie).collect(), ";"),
        join(fdes.iter().map(s_fde).collect(), ";")
    )
}

// ---------------------------------------------------------------- building through gimli::write

fn to_waddr(a: &AAddr) -> w::Address {
    match a {
        Some(v) => w::Address::Constant(*v),
        None => w::Address::Symbol { symbol: 1, addend: 0 },
    }
}

fn to_winstr(i: &AI) -> w::CallFrameInstruction {
    use w::CallFrameInstruction as C;
    let ex = |b: &Vec<u8>| w::Expression::raw(b.clone());
    match i {
        AI::Cfa(r, o) => C::Cfa(Register(*r), *o),
        AI::CfaReg(r) => C::CfaRegister(Register(*r)),
        AI::CfaOff(o) => C::CfaOffset(*o),
        AI::CfaExpr(e) => C::CfaExpression(ex(e)),
        AI::Restore(r) => C::Restore(Register(*r)),
        AI::Undef(r) => C::Undefined(Register(*r)),
        AI::Same(r) => C::SameValue(Register(*r)),
        AI::Off(r, o) => C::Offset(Register(*r), *o),
        AI::VOff(r, o) => C::ValOffset(Register(*r), *o),
        AI::Reg(a, b) => C::Register(Register(*a), Register(*b)),
        AI::Expr(r, e) => C::Expression(Register(*r), ex(e)),
        AI::VExpr(r, e) => C::ValExpression(Register(*r), ex(e)),
        AI::Rem => C::RememberState,
        AI::Res => C::RestoreState,
        AI::Args(n) => C::ArgsSize(*n),
        AI::Neg => C::NegateRaState,
    }
}

fn to_wcie(c: &ACie) -> w::CommonInformationEntry {
    let enc = gimli::Encoding { address_size: c.asz, format: if c.fmt64 { Format::Dwarf64 } else { Format::Dwarf32 }, version: c.ver };
    let mut x = w::CommonInformationEntry::new(enc, c.caf, c.daf, Register(c.ra));
    x.personality = c.pers.as_ref().map(|(e, a)| (gimli::DwEhPe(*e), to_waddr(a)));
    x.lsda_encoding = c.lsda.map(gimli::DwEhPe);
    x.fde_address_encoding = gimli::DwEhPe(c.fdeenc);
    x.signal_trampoline = c.sig;
    for i in &c.instrs {
        x.add_instruction(to_winstr(i));
    }
    x
}

struct Written {
    /// section bytes or the write error
    res: Result<Vec<u8>, String>,
    /// dense id of every `add_cie` call
    ids: Vec<usize>,
    cie_count: usize,
    /// raw id equality matrix is summarised by `ids`; kept to test the dedup clause
    id_eq: Vec<Vec<bool>>,
}

fn write_table(eh: bool, big: bool, cies: &[ACie], fdes: &[AFde]) -> Option<Written> {
    let mut t = w::FrameTable::default();
    let raw: Vec<w::CieId> = cies.iter().map(|c| t.add_cie(to_wcie(c))).collect();
    let mut ids: Vec<usize> = Vec::new();
    let mut firsts: Vec<usize> = Vec::new(); // call index of the first occurrence of each dense id
    for k in 0..raw.len() {
        match firsts.iter().position(|&j| raw[j] == raw[k]) {
            Some(d) => ids.push(d),
            None => {
                firsts.push(k);
                ids.push(firsts.len() - 1);
            }
        }
    }
    let id_eq = (0..raw.len()).map(|a| (0..raw.len()).map(|b| raw[a] == raw[b]).collect()).collect();
    for f in fdes {
        let id = *raw.get(f.k)?;
        let mut x = w::FrameDescriptionEntry::new(to_waddr(&f.addr), f.len);
        x.lsda = f.lsda.as_ref().map(to_waddr);
        for (o, i) in &f.instrs {
            x.add_instruction(*o, to_winstr(i));
        }
        t.add_fde(id, x);
    }
    let endian = if big { RunTimeEndian::Big } else { RunTimeEndian::Little };
    let res = if eh {
        let mut s = w::EhFrame::from(w::EndianVec::new(endian));
        t.write_eh_frame(&mut s).map(|_| s.slice().to_vec())
    } else {
        let mut s = w::DebugFrame::from(w::EndianVec::new(endian));
        t.write_debug_frame(&mut s).map(|_| s.slice().to_vec())
    };
    Some(Written { res: res.map_err(|e| werr(&e)), ids, cie_count: t.cie_count(), id_eq })
}

// ---------------------------------------------------------------- naive interpreter (the meaning of the supplied instructions)

#[derive(Clone, PartialEq, Eq, Debug)]
enum NRule {
    Undef,
    Same,
    Off(i64),
    VOff(i64),
    Reg(u16),
    Expr(Vec<u8>),
    VExpr(Vec<u8>),
    Const(u64),
}

#[derive(Clone, PartialEq, Eq, Debug)]
enum NCfa {
    RO(u16, i64),
    Expr(Vec<u8>),
}

#[derive(Clone, PartialEq, Eq, Debug)]
struct NState {
    cfa: NCfa,
    regs: BTreeMap<u16, NRule>,
    args: u64,
}

/// `Err(())`: the program is not meaningful at this point (DWARF 6.4.2)
fn n_apply(s: &mut NState, stack: &mut Vec<NState>, init: Option<&BTreeMap<u16, NRule>>, i: &AI) -> Result<(), ()> {
    match i {
        AI::Cfa(r, o) => s.cfa = NCfa::RO(*r, *o as i64),
        AI::CfaReg(r) => match &s.cfa {
            NCfa::RO(_, o) => s.cfa = NCfa::RO(*r, *o),
            NCfa::Expr(_) => return Err(()),
        },
        AI::CfaOff(o) => match &s.cfa {
            NCfa::RO(r, _) => s.cfa = NCfa::RO(*r, *o as i64),
            NCfa::Expr(_) => return Err(()),
        },
        AI::CfaExpr(e) => s.cfa = NCfa::Expr(e.clone()),
        AI::Restore(r) => match init {
            None => return Err(()),
            Some(m) => match m.get(r) {
                Some(rule) => {
                    s.regs.insert(*r, rule.clone());
                }
                None => {
                    s.regs.remove(r);
                }
            },
        },
        AI::Undef(r) => {
            s.regs.insert(*r, NRule::Undef);
        }
        AI::Same(r) => {
            s.regs.insert(*r, NRule::Same);
        }
        AI::Off(r, o) => {
            s.regs.insert(*r, NRule::Off(*o as i64));
        }
        AI::VOff(r, o) => {
            s.regs.insert(*r, NRule::VOff(*o as i64));
        }
        AI::Reg(a, b) => {
            s.regs.insert(*a, NRule::Reg(*b));
        }
        AI::Expr(r, e) => {
            s.regs.insert(*r, NRule::Expr(e.clone()));
        }
        AI::VExpr(r, e) => {
            s.regs.insert(*r, NRule::VExpr(e.clone()));
        }
        AI::Rem => stack.push(s.clone()),
        AI::Res => match stack.pop() {
            Some(t) => *s = t,
            None => return Err(()),
        },
        AI::Args(n) => s.args = *n as u64,
        AI::Neg => {
            let v = match s.regs.get(&34) {
                None => 0,
                Some(NRule::Const(v)) => *v,
                Some(_) => return Err(()),
            };
            s.regs.insert(34, NRule::Const(v ^ 1));
        }
    }
    Ok(())
}

fn n_rule_s(r: &NRule) -> String {
    match r {
        NRule::Undef => "U".into(),
        NRule::Same => "S".into(),
        NRule::Off(n) => format!("O{n}"),
        NRule::VOff(n) => format!("V{n}"),
        NRule::Reg(r) => format!("R{r}"),
        NRule::Expr(e) => format!("E{}", hex(e)),
        NRule::VExpr(e) => format!("X{}", hex(e)),
        NRule::Const(v) => format!("C{v}"),
    }
}

fn n_row_s(start: u64, end: u64, s: &NState) -> String {
    let cfa = match &s.cfa {
        NCfa::RO(r, o) => format!("ro:{r}:{o}"),
        NCfa::Expr(e) => format!("ex:{}", hex(e)),
    };
    let rules: Vec<String> = s.regs.iter().map(|(k, v)| format!("{k}={}", n_rule_s(v))).collect();
    format!("{start},{end},{cfa},{},{}", s.args, join(rules, ";"))
}

/// rows of the FDE according to the instructions supplied; `None` when the program is not
/// meaningful (the oracle then says nothing about rows)
fn n_rows(c: &ACie, f: &AFde) -> Option<Vec<String>> {
    let addr = f.addr?;
    let mask: u64 = if c.asz >= 8 { u64::MAX } else { (1u64 << (8 * c.asz as u32)) - 1 };
    let mut s = NState { cfa: NCfa::RO(0, 0), regs: BTreeMap::new(), args: 0 };
    let mut stack = vec![];
    for i in &c.instrs {
        n_apply(&mut s, &mut stack, None, i).ok()?;
    }
    if !stack.is_empty() {
        // what a state remembered by the CIE means for its FDEs is not defined by the standard
        return None;
    }
    let init = s.regs.clone();
    let mut rows = vec![];
    let mut cur: u32 = 0;
    for (o, i) in &f.instrs {
        if *o < cur {
            return None;
        }
        if *o > cur {
            let a = addr.checked_add(cur as u64)?;
            let b = addr.checked_add(*o as u64)?;
            if b > mask {
                return None;
            }
            rows.push(n_row_s(a, b, &s));
            cur = *o;
        }
        n_apply(&mut s, &mut stack, Some(&init), i).ok()?;
    }
    let a = addr.checked_add(cur as u64)?;
    if a > mask {
        return None;
    }
    rows.push(n_row_s(a, addr.wrapping_add(f.len as u64) & mask, &s));
    Some(rows)
}

// ---------------------------------------------------------------- read back

fn ex_bytes(sec: &[u8], e: &gimli::UnwindExpression<usize>) -> String {
    match sec.get(e.offset..e.offset.wrapping_add(e.length)) {
        Some(b) => hex(b),
        None => format!("!oob{}+{}", e.offset, e.length),
    }
}

fn rule_s(r: &RegisterRule<usize>, sec: &[u8]) -> String {
    match r {
        RegisterRule::Undefined => "U".into(),
        RegisterRule::SameValue => "S".into(),
        RegisterRule::Offset(n) => format!("O{n}"),
        RegisterRule::ValOffset(n) => format!("V{n}"),
        RegisterRule::Register(r) => format!("R{}", r.0),
        RegisterRule::Expression(e) => format!("E{}", ex_bytes(sec, e)),
        RegisterRule::ValExpression(e) => format!("X{}", ex_bytes(sec, e)),
        RegisterRule::Architectural => "A".into(),
        RegisterRule::Constant(v) => format!("C{v}"),
        #[allow(unreachable_patterns)]
        other => format!("?{:?}", other).replace(' ', ""),
    }
}

fn row_s(row: &UnwindTableRow<usize, StVec>, sec: &[u8]) -> String {
    let cfa = match row.cfa() {
        CfaRule::RegisterAndOffset { register, offset } => format!("ro:{}:{}", register.0, offset),
        CfaRule::Expression(e) => format!("ex:{}", ex_bytes(sec, e)),
    };
    let mut listed: Vec<(u16, String)> = row.registers().map(|(r, rule)| (r.0, rule_s(rule, sec))).collect();
    listed.sort();
    let rules: Vec<String> = listed.iter().map(|(k, v)| format!("{k}={v}")).collect();
    format!("{},{},{},{},{}", row.start_address(), row.end_address(), cfa, row.saved_args_size(), join(rules, ";"))
}

fn ptr_s(p: Pointer) -> String {
    match p {
        Pointer::Direct(v) => format!("d{v}"),
        Pointer::Indirect(v) => format!("i{v}"),
    }
}

/// what a pointer written for `a` with encoding `enc` must read back as
fn exp_ptr(enc: u8, a: &AAddr) -> Option<String> {
    let v = (*a)?;
    Some(if enc & 0x80 != 0 { format!("i{v}") } else { format!("d{v}") })
}

/// entries by walking the length fields only: (offset, size of the length field, length)
fn walk_entries(sec: &[u8], big: bool) -> Result<Vec<(usize, usize, u64)>, String> {
    let rd = |b: &[u8]| -> u64 {
        let mut v = 0u64;
        if big {
            for x in b {
                v = (v << 8) | *x as u64;
            }
        } else {
            for x in b.iter().rev() {
                v = (v << 8) | *x as u64;
            }
        }
        v
    };
    let mut out = vec![];
    let mut p = 0usize;
    while p < sec.len() {
        let l32 = rd(sec.get(p..p + 4).ok_or("truncated length")?);
        let (lf, len) = if l32 == 0xffff_ffff { (12usize, rd(sec.get(p + 4..p + 12).ok_or("truncated length64")?)) } else { (4usize, l32) };
        let next = p.checked_add(lf).and_then(|x| x.checked_add(len as usize)).ok_or("length overflow")?;
        if next > sec.len() {
            return Err(format!("entry at {p} runs past the section"));
        }
        out.push((p, lf, len));
        p = next;
    }
    Ok(out)
}

/// the plainly well-formed tables of the property's quantifier: the writer must accept them
fn well_formed(eh: bool, cies: &[ACie], fdes: &[AFde]) -> bool {
    let small = |a: &AAddr| matches!(a, Some(v) if *v >= 0x1_0000 && *v < 0x7000_0000);
    let enc_ok = |e: u8| {
        let f = e & 0x0f;
        let app = e & 0x70;
        let signed = matches!(f, 0x09 | 0x0b | 0x0c);
        (matches!(f, 0x00 | 0x01 | 0x03 | 0x04) || signed) && (app == 0 || (app == 0x10 && signed))
    };
    for f in fdes {
        let Some(c) = cies.get(f.k) else { return false };
        if !(c.asz == 4 || c.asz == 8) {
            return false;
        }
        if eh && c.ver != 1 || !eh && !matches!(c.ver, 1 | 3 | 4) {
            return false;
        }
        if c.ver == 1 && c.ra > 255 {
            return false;
        }
        if let Some((e, a)) = &c.pers {
            if !enc_ok(*e) || !small(a) {
                return false;
            }
        }
        if let Some(e) = c.lsda {
            if !enc_ok(e) {
                return false;
            }
        }
        if c.fdeenc != 0 && !enc_ok(c.fdeenc) {
            return false;
        }
        if c.lsda.is_some() != f.lsda.is_some() {
            return false;
        }
        if let Some(a) = &f.lsda {
            if !small(a) {
                return false;
            }
        }
        if !small(&f.addr) || f.len >= 0x7000_0000 {
            return false;
        }
        if !expressible(c, f) {
            return false;
        }
    }
    true
}

/// every offset of the CIE's and the FDE's instructions can be expressed with the CIE's factors
/// and the code offsets do not decrease
fn expressible(c: &ACie, f: &AFde) -> bool {
    let data_ok = |i: &AI| {
        let need = match i {
            AI::Off(_, o) | AI::VOff(_, o) => Some(*o),
            AI::Cfa(_, o) | AI::CfaOff(o) if *o < 0 => Some(*o),
            _ => None,
        };
        match need {
            None => true,
            // (`i32::MIN / -1` is not an `i32`: the writer's factored offsets are `i32`)
            Some(o) => c.daf != 0 && (o as i64) % (c.daf as i64) == 0 && !(o == i32::MIN && c.daf == -1),
        }
    };
    if !c.instrs.iter().all(data_ok) || !f.instrs.iter().all(|(_, i)| data_ok(i)) {
        return false;
    }
    let mut prev = 0u32;
    for (o, _) in &f.instrs {
        if *o < prev {
            return false;
        }
        if *o > prev && (c.caf == 0 || (*o - prev) % c.caf as u32 != 0) {
            return false;
        }
        prev = *o;
    }
    true
}

fn check_cie<'a, S: UnwindSection<Rd<'a>>>(sec: &S, bases: &BaseAddresses, off: usize, c: &ACie, eh: bool) -> Result<(), String>
where
    S::Offset: From<usize>,
{
    let r = sec.cie_from_offset(bases, S::Offset::from(off)).map_err(|e| format!("cie-parse at {off}: {}", rerr(&e)))?;
    let mut bad = vec![];
    if r.version() as u16 != c.ver {
        bad.push(format!("version {} != {}", r.version(), c.ver));
    }
    if r.encoding().format != if c.fmt64 { Format::Dwarf64 } else { Format::Dwarf32 } {
        bad.push("format".into());
    }
    if r.address_size() != c.asz {
        bad.push(format!("address_size {} != {}", r.address_size(), c.asz));
    }
    if r.code_alignment_factor() != c.caf as u64 {
        bad.push(format!("caf {} != {}", r.code_alignment_factor(), c.caf));
    }
    if r.data_alignment_factor() != c.daf as i64 {
        bad.push(format!("daf {} != {}", r.data_alignment_factor(), c.daf));
    }
    if r.return_address_register().0 != c.ra {
        bad.push(format!("ra {} != {}", r.return_address_register().0, c.ra));
    }
    let pers = r.personality_with_encoding().map(|(e, p)| (e.0, ptr_s(p)));
    let exp_pers = match &c.pers {
        Some((e, a)) => Some((*e, exp_ptr(*e, a).unwrap_or_default())),
        None => None,
    };
    if pers != exp_pers {
        bad.push(format!("personality {pers:?} != {exp_pers:?}"));
    }
    if r.lsda_encoding().map(|e| e.0) != c.lsda {
        bad.push(format!("lsda_encoding {:?} != {:?}", r.lsda_encoding(), c.lsda));
    }
    let exp_fe = if c.fdeenc != 0 { Some(c.fdeenc) } else { None };
    if r.fde_address_encoding().map(|e| e.0) != exp_fe {
        bad.push(format!("fde_address_encoding {:?} != {:?}", r.fde_address_encoding(), exp_fe));
    }
    if r.is_signal_trampoline() != c.sig {
        bad.push("signal_trampoline".into());
    }
    let _ = eh;
    if bad.is_empty() { Ok(()) } else { Err(format!("cie-params at {off}: {}", bad.join("; "))) }
}

fn check_fde<'a, S: UnwindSection<Rd<'a>>>(sec: &S, secbytes: &[u8], bases: &BaseAddresses, off: usize, cie_off: usize, c: &ACie, f: &AFde) -> Result<(), String>
where
    S::Offset: From<usize>,
{
    let r = sec.fde_from_offset(bases, S::Offset::from(off), S::cie_from_offset).map_err(|e| format!("fde-parse at {off}: {}", rerr(&e)))?;
    if r.cie().offset() != cie_off {
        return Err(format!("fde-cie at {off}: points to {} expected {cie_off}", r.cie().offset()));
    }
    let addr = f.addr.unwrap_or(0);
    if r.initial_address() != addr || r.len() != f.len as u64 {
        return Err(format!("fde-range at {off}: {}+{} != {}+{}", r.initial_address(), r.len(), addr, f.len));
    }
    let lsda = r.lsda().map(ptr_s);
    let exp_lsda = match (&f.lsda, c.lsda) {
        (Some(a), Some(e)) => exp_ptr(e, a),
        _ => None,
    };
    if lsda != exp_lsda {
        return Err(format!("fde-lsda at {off}: {lsda:?} != {exp_lsda:?}"));
    }
    // unwind rows
    if let Some(exp) = n_rows(c, f) {
        let mut ctx: Box<UnwindContext<usize, StVec>> = Box::new(UnwindContext::new_in());
        let mut table = r.rows(sec, bases, &mut ctx).map_err(|e| format!("rows at {off}: table: {}", rerr(&e)))?;
        let mut got = vec![];
        loop {
            match table.next_row() {
                Ok(Some(row)) => got.push(row_s(row, secbytes)),
                Ok(None) => break,
                Err(e) => return Err(format!("rows at {off}: after {} rows: {}", got.len(), rerr(&e))),
            }
            if got.len() > f.instrs.len() + 4 {
                return Err(format!("rows at {off}: too many rows"));
            }
        }
        if got != exp {
            let k = (0..got.len().min(exp.len())).find(|&k| got[k] != exp[k]).unwrap_or(got.len().min(exp.len()));
            return Err(format!(
                "rows at {off}: row {k}: supplied instructions mean {} read back {} ({} vs {} rows)",
                exp.get(k).map(|s| s.as_str()).unwrap_or("<none>"),
                got.get(k).map(|s| s.as_str()).unwrap_or("<none>"),
                exp.len(),
                got.len()
            ));
        }
    }
    Ok(())
}

/// "entries are padded to the address size": size of the length field + length is a multiple of
/// the address size (DWARF 5 §6.4.1; the length field of the 64-bit format has 12 bytes, §7.4)
fn check_aligned(what: &str, off: usize, lf: usize, len: u64, asz: u8) -> Result<(), String> {
    if (lf as u64 + len) % asz as u64 == 0 {
        return Ok(());
    }
    Err(format!("aligned {what} at {off}: length field {lf} + length {len} is not a multiple of the address size {asz}"))
}

fn read_back_on<'a, S, F>(mk: F, secbytes: &'a [u8], eh: bool, big: bool, cies: &[ACie], fdes: &[AFde], wr: &Written) -> Result<(), String>
where
    S: UnwindSection<Rd<'a>>,
    S::Offset: From<usize>,
    F: Fn(u8) -> S,
{
    let bases = BaseAddresses::default().set_eh_frame(0);
    let entries = walk_entries(secbytes, big).map_err(|e| format!("layout {e}"))?;
    // expected sequence: a CIE the first time an FDE refers to its class, then the FDE
    let mut emitted: BTreeMap<usize, usize> = BTreeMap::new(); // dense id -> offset
    let mut it = entries.iter();
    for f in fdes {
        let c = &cies[f.k];
        let id = wr.ids[f.k];
        let sec = mk(c.asz);
        if !emitted.contains_key(&id) {
            let Some(&(off, lf, len)) = it.next() else { return Err("entries missing: CIE not emitted".into()) };
            check_cie(&sec, &bases, off, c, eh)?;
            check_aligned("cie", off, lf, len, c.asz)?;
            emitted.insert(id, off);
        }
        let Some(&(off, lf, len)) = it.next() else { return Err("entries missing: FDE not emitted".into()) };
        check_fde(&sec, secbytes, &bases, off, emitted[&id], c, f)?;
        check_aligned("fde", off, lf, len, c.asz)?;
    }
    if it.next().is_some() {
        return Err("entries extra: more entries than FDEs + distinct referenced CIEs".into());
    }
    Ok(())
}

/// the read-back domain of `wcfi-rows` (the same test as `readable` in lean/Gimli/Drv/C14.lean)
fn readable(cies: &[ACie], fdes: &[AFde]) -> bool {
    fdes.iter().all(|f| {
        let Some(c) = cies.get(f.k) else { return false };
        let fits = |a: &AAddr| matches!(a, Some(v) if c.asz >= 8 || *v < (1u64 << (8 * c.asz as u32)));
        (c.asz == 4 || c.asz == 8)
            && fits(&f.addr)
            && f.lsda.as_ref().map_or(true, |a| fits(a))
            && f.lsda.is_some() == c.lsda.is_some()
            && c.pers.as_ref().map_or(true, |(_, a)| fits(a))
    })
}

fn rows_of<'a, S: UnwindSection<Rd<'a>>>(sec: &S, secbytes: &[u8], bases: &BaseAddresses, off: usize, cap: usize) -> String
where
    S::Offset: From<usize>,
{
    let r = match sec.fde_from_offset(bases, S::Offset::from(off), S::cie_from_offset) {
        Ok(r) => r,
        Err(e) => return format!("?{}", rerr(&e)),
    };
    let mut ctx: Box<UnwindContext<usize, StVec>> = Box::new(UnwindContext::new_in());
    let mut got: Vec<String> = vec![];
    let end = match r.rows(sec, bases, &mut ctx) {
        Err(e) => Some(rerr(&e)),
        Ok(mut table) => loop {
            match table.next_row() {
                Ok(Some(row)) => got.push(row_s(row, secbytes)),
                Ok(None) => break None,
                Err(e) => break Some(rerr(&e)),
            }
            if got.len() > cap {
                break Some("TooManyRows".into());
            }
        },
    };
    let rows = join(got, "|");
    match end {
        None => rows,
        Some(e) => format!("{rows}!{e}"),
    }
}

/// the rows gimli reads back for every FDE of a written table, in `add_fde` order
fn fde_rows_text(eh: bool, big: bool, cies: &[ACie], fdes: &[AFde], wr: &Written, bytes: &[u8]) -> String {
    let bases = BaseAddresses::default().set_eh_frame(0);
    let endian = if big { RunTimeEndian::Big } else { RunTimeEndian::Little };
    let entries = match walk_entries(bytes, big) {
        Ok(e) => e,
        Err(e) => return format!("?layout-{}", e.replace(' ', "-")),
    };
    let mut emitted: std::collections::BTreeSet<usize> = Default::default();
    let mut it = entries.iter();
    let mut per = vec![];
    for f in fdes {
        let c = &cies[f.k];
        if emitted.insert(wr.ids[f.k]) {
            it.next();
        }
        let Some(&(off, _, _)) = it.next() else {
            per.push("?missing".to_string());
            continue;
        };
        let cap = f.instrs.len() + 4;
        per.push(if eh {
            let mut s = EhFrame::new(bytes, endian);
            s.set_address_size(c.asz);
            s.set_vendor(Vendor::AArch64);
            rows_of(&s, bytes, &bases, off, cap)
        } else {
            let mut s = DebugFrame::new(bytes, endian);
            s.set_address_size(c.asz);
            s.set_vendor(Vendor::AArch64);
            rows_of(&s, bytes, &bases, off, cap)
        });
    }
    join(per, "&")
}

/// the direct oracle; `None` = the implementation's own output satisfies the property on this case
fn oracle(eh: bool, big: bool, cies: &[ACie], fdes: &[AFde], wr: &Written) -> Option<String> {
    // identical CIEs share one id, different ones do not
    for a in 0..cies.len() {
        for b in 0..cies.len() {
            if wr.id_eq[a][b] != (cies[a] == cies[b]) {
                return Some(format!("dedup add_cie calls {a} and {b}: ids equal = {}, CIEs equal = {}", wr.id_eq[a][b], cies[a] == cies[b]));
            }
        }
    }
    let distinct = {
        let mut n = 0;
        for a in 0..cies.len() {
            if !(0..a).any(|b| cies[a] == cies[b]) {
                n += 1;
            }
        }
        n
    };
    if wr.cie_count != distinct {
        return Some(format!("dedup cie_count {} != {distinct} distinct CIEs", wr.cie_count));
    }
    match &wr.res {
        Err(e) => {
            if well_formed(eh, cies, fdes) {
                return Some(format!("rejected-valid {e}"));
            }
            None
        }
        Ok(bytes) => {
            for f in fdes {
                if !expressible(&cies[f.k], f) {
                    return Some("accepted-inexpressible an offset that the factors cannot express (or that decreases) was written".into());
                }
            }
            // read-back is meaningful for constant addresses that fit the address size
            let fits = |c: &ACie, a: &AAddr| matches!(a, Some(v) if c.asz >= 8 || *v < (1u64 << (8 * c.asz as u32)));
            for f in fdes {
                let c = &cies[f.k];
                if !matches!(c.asz, 1 | 2 | 4 | 8) || !fits(c, &f.addr) {
                    return None;
                }
                // documented precondition of `lsda_encoding`: "If set then all FDEs which use this
                // CIE must have a LSDA address" (a debug assertion; release builds write the FDE
                // without one)
                if c.lsda.is_some() != f.lsda.is_some() {
                    return None;
                }
                if let Some(a) = &f.lsda {
                    if !fits(c, a) {
                        return None;
                    }
                }
                if let Some((_, a)) = &c.pers {
                    if !fits(c, a) {
                        return None;
                    }
                }
            }
            let endian = if big { RunTimeEndian::Big } else { RunTimeEndian::Little };
            let r = if eh {
                read_back_on(
                    |asz| {
                        let mut s = EhFrame::new(bytes, endian);
                        s.set_address_size(asz);
                        s.set_vendor(Vendor::AArch64);
                        s
                    },
                    bytes,
                    eh,
                    big,
                    cies,
                    fdes,
                    wr,
                )
            } else {
                read_back_on(
                    |asz| {
                        let mut s = DebugFrame::new(bytes, endian);
                        s.set_address_size(asz);
                        s.set_vendor(Vendor::AArch64);
                        s
                    },
                    bytes,
                    eh,
                    big,
                    cies,
                    fdes,
                    wr,
                )
            };
            r.err()
        }
    }
}

fn run_table(eh: bool, big: bool, cies: &[ACie], fdes: &[AFde]) -> Option<(String, Option<String>, Result<Vec<u8>, String>)> {
    let wr = write_table(eh, big, cies, fdes)?;
    let reply = match &wr.res {
        Ok(b) => format!(
            "ok {} ids={} n={}",
            hex(b),
            join(wr.ids.iter().map(|x| x.to_string()).collect(), ","),
            wr.cie_count
        ),
        Err(e) => format!("err {e}"),
    };
    let o = oracle(eh, big, cies, fdes, &wr);
    Some((reply, o, wr.res))
}

fn with_oracle(s: String, o: Option<String>) -> String {
    match o {
        Some(w) => {
            let mut it = w.splitn(2, ' ');
            let class = it.next().unwrap_or("x");
            format!("{s} #oracle:{class} {}", it.next().unwrap_or(""))
        }
        None => s,
    }
}

fn fold_res(h: &mut u64, r: &Result<Vec<u8>, String>) {
    match r {
        Ok(b) => {
            *h = digest_step(*h, 0);
            for x in b {
                *h = digest_step(*h, *x as u64);
            }
        }
        Err(e) => {
            *h = digest_step(*h, 1);
            *h = digest_step(*h, str_hash(e));
        }
    }
}

pub fn handle(op: &str, a: &[&str]) -> Option<String> {
    let sec = |s: &str| match s {
        "df" => Some(false),
        "eh" => Some(true),
        _ => None,
    };
    let en = |s: &str| match s {
        "le" => Some(false),
        "be" => Some(true),
        _ => None,
    };
    match (op, a) {
        ("wcfi-table", [mode, s, e, cies, fdes]) => {
            if !matches!(*mode, "debug" | "release") {
                return None;
            }
            let eh = sec(s)?;
            let big = en(e)?;
            let cs = split(cies, ';').into_iter().map(p_cie).collect::<Option<Vec<_>>>()?;
            let fs = split(fdes, ';').into_iter().map(p_fde).collect::<Option<Vec<_>>>()?;
            let (r, o, _) = run_table(eh, big, &cs, &fs)?;
            Some(with_oracle(r, o))
        }
        ("wcfi-rows", [mode, s, e, cies, fdes]) => {
            if !matches!(*mode, "debug" | "release") {
                return None;
            }
            let eh = sec(s)?;
            let big = en(e)?;
            let cs = split(cies, ';').into_iter().map(p_cie).collect::<Option<Vec<_>>>()?;
            let fs = split(fdes, ';').into_iter().map(p_fde).collect::<Option<Vec<_>>>()?;
            let wr = write_table(eh, big, &cs, &fs)?;
            Some(match &wr.res {
                Err(e) => format!("err {e}"),
                Ok(_) if !readable(&cs, &fs) => "ok skip".to_string(),
                Ok(bytes) => format!("ok {}", fde_rows_text(eh, big, &cs, &fs, &wr, bytes)),
            })
        }
        ("wcfi-blk-adv", [mode, s, e, fmt, ver, asz, caf, prev, lo, count]) => {
            if !matches!(*mode, "debug" | "release") {
                return None;
            }
            let eh = sec(s)?;
            let big = en(e)?;
            let c = ACie {
                fmt64: match *fmt {
                    "32" => false,
                    "64" => true,
                    _ => return None,
                },
                ver: ver.parse().ok()?,
                asz: asz.parse().ok()?,
                caf: caf.parse().ok()?,
                daf: -4,
                ra: 16,
                pers: None,
                lsda: None,
                fdeenc: 0,
                sig: false,
                instrs: vec![],
            };
            let prev: u32 = prev.parse().ok()?;
            let lo: u32 = lo.parse().ok()?;
            let count: u32 = count.parse().ok()?;
            let mut h = DIGEST_INIT;
            let mut bad: Option<String> = None;
            let mut badc = 0u64;
            for k in 0..count {
                let off = lo.checked_add(k)?;
                let mut is = vec![];
                if prev > 0 {
                    is.push((prev, AI::Rem));
                }
                is.push((off, AI::Res));
                let f = AFde { k: 0, addr: Some(0x1000), len: 0x10, lsda: None, instrs: is };
                let (_, o, res) = run_table(eh, big, std::slice::from_ref(&c), std::slice::from_ref(&f))?;
                fold_res(&mut h, &res);
                if let Some(o) = o {
                    badc += 1;
                    bad.get_or_insert(format!("{} (offset {off})", o));
                }
            }
            Some(with_oracle(format!("digest {h}"), bad.map(|b| format!("block {badc}-cases-first={b}"))))
        }
        ("wcfi-blk-off", [mode, s, e, asz, daf, kind, r, lo, count]) => {
            if !matches!(*mode, "debug" | "release") {
                return None;
            }
            let eh = sec(s)?;
            let big = en(e)?;
            let asz: u8 = asz.parse().ok()?;
            let daf: i8 = daf.parse().ok()?;
            let r: u16 = r.parse().ok()?;
            let lo: i64 = lo.parse().ok()?;
            let count: u32 = count.parse().ok()?;
            let mk: fn(u16, i32) -> AI = match *kind {
                "cfa" => |r, o| AI::Cfa(r, o),
                "cfao" => |_, o| AI::CfaOff(o),
                "off" => |r, o| AI::Off(r, o),
                "voff" => |r, o| AI::VOff(r, o),
                _ => return None,
            };
            let mut h = DIGEST_INIT;
            let mut bad: Option<String> = None;
            let mut badc = 0u64;
            for k in 0..count {
                let o = i32::try_from(lo + k as i64).ok()?;
                let c = ACie { fmt64: false, ver: 1, asz, caf: 1, daf, ra: 16, pers: None, lsda: None, fdeenc: 0, sig: false, instrs: vec![mk(r, o)] };
                let f = AFde { k: 0, addr: Some(0x1000), len: 0x10, lsda: None, instrs: vec![] };
                let (_, v, res) = run_table(eh, big, std::slice::from_ref(&c), std::slice::from_ref(&f))?;
                fold_res(&mut h, &res);
                if let Some(v) = v {
                    badc += 1;
                    bad.get_or_insert(format!("{} (offset {o})", v));
                }
            }
            Some(with_oracle(format!("digest {h}"), bad.map(|b| format!("block {badc}-cases-first={b}"))))
        }
        _ => None,
    }
}

// ---------------------------------------------------------------- generators

const REGS: &[u16] = &[0, 1, 6, 7, 16, 29, 30, 33, 35, 0x3f, 0x40, 0x41, 0x7f, 0x80, 0xff, 0x100, 0x3fff, 0x4000, 0xffff];
const DAFS: &[i8] = &[-128, -127, -16, -8, -4, -3, -2, -1, 0, 1, 2, 3, 4, 8, 16, 64, 127];
const CAFS: &[u8] = &[1, 2, 3, 4, 7, 8, 16, 63, 64, 128, 255];
const OFFS: &[i32] = &[
    0, 1, -1, 2, -2, 7, 8, -8, 9, 16, -16, 24, 63, 64, 65, -63, -64, -65, 127, 128, 129, -127, -128, -129, 255, 256, 504, 512, -512, 1016, 1024,
    8191, 8192, -8192, -8193, 16383, 16384, 65535, 65536, 0x7fff_ffff, 0x7fff_fff8, -0x7fff_ffff, -0x8000_0000, -0x7fff_fff8, 0x4000_0000,
];
/// pointer encodings: every format × {absptr, pcrel} the writer supports, with and without
/// indirect, then some it rejects
const ENCS_OK: &[u8] = &[0x00, 0x01, 0x02, 0x03, 0x04, 0x09, 0x0a, 0x0b, 0x0c, 0x10, 0x11, 0x13, 0x14, 0x19, 0x1b, 0x1c, 0x80, 0x83, 0x9b, 0x8c];
const ENCS_BAD: &[u8] = &[0x05, 0x08, 0x0f, 0x20, 0x23, 0x33, 0x43, 0x50, 0x53, 0xff, 0x70];

fn g_reg(rng: &mut Rng) -> u16 {
    match rng.below(4) {
        0 => *rng.pick(REGS),
        1 => rng.below(0x40) as u16,
        2 => rng.below(0x100) as u16,
        _ => rng.below(0x10000) as u16,
    }
}

/// an offset that is (mostly) a multiple of `daf`
fn g_off(rng: &mut Rng, daf: i8, aligned: bool) -> i32 {
    let d = daf as i64;
    let base: i64 = match rng.below(4) {
        0 => *rng.pick(OFFS) as i64,
        1 => rng.range(0, 600) as i64 - 300,
        2 => (rng.boundary_i64() % (1 << 31)) as i64,
        _ => (rng.range(0, 64) as i64 - 32) * if d == 0 { 1 } else { d },
    };
    let v = if aligned && d != 0 { base - base % d } else { base };
    v.clamp(i32::MIN as i64, i32::MAX as i64) as i32
}

fn g_expr(rng: &mut Rng) -> Vec<u8> {
    match rng.below(5) {
        0 => vec![],
        1 => vec![0x9c],
        2 => vec![0x77, 0x08, 0x06],
        3 => rng.bytes_below(200),
        _ => rng.bytes_below(6),
    }
}

/// tracked abstract state so that generated programs are mostly meaningful
struct VState {
    cfa_expr: bool,
    depth: usize,
    ra_const: bool,
    ra_other: bool,
}

fn g_instr(rng: &mut Rng, st: &mut VState, daf: i8, in_cie: bool, valid: bool) -> AI {
    loop {
        let aligned = if valid { true } else { rng.chance(1, 2) };
        let i = match rng.below(16) {
            0 => AI::Cfa(g_reg(rng), g_off(rng, daf, aligned)),
            1 => AI::CfaReg(g_reg(rng)),
            2 => AI::CfaOff(g_off(rng, daf, aligned)),
            3 => AI::CfaExpr(g_expr(rng)),
            4 => AI::Restore(g_reg(rng)),
            5 => AI::Undef(g_reg(rng)),
            6 => AI::Same(g_reg(rng)),
            7 => AI::Off(g_reg(rng), g_off(rng, daf, aligned)),
            8 => AI::VOff(g_reg(rng), g_off(rng, daf, aligned)),
            9 => AI::Reg(g_reg(rng), g_reg(rng)),
            10 => AI::Expr(g_reg(rng), g_expr(rng)),
            11 => AI::VExpr(g_reg(rng), g_expr(rng)),
            12 => AI::Rem,
            13 => AI::Res,
            14 => AI::Args(match rng.below(3) {
                0 => rng.below(256) as u32,
                1 => rng.boundary_u64() as u32,
                _ => u32::MAX,
            }),
            _ => AI::Neg,
        };
        if valid {
            // keep the program meaningful
            let ok = match &i {
                AI::CfaReg(_) | AI::CfaOff(_) => !st.cfa_expr,
                AI::Restore(_) => !in_cie,
                AI::Res => st.depth > 0,
                AI::Rem => !in_cie && st.depth < 6,
                AI::Neg => !st.ra_other,
                _ => true,
            };
            if !ok {
                continue;
            }
        }
        match &i {
            AI::Cfa(..) => st.cfa_expr = false,
            AI::CfaExpr(_) => st.cfa_expr = true,
            AI::Rem => st.depth += 1,
            AI::Res => {
                st.depth = st.depth.saturating_sub(1);
                // what the popped state held is not tracked: be conservative afterwards
                st.cfa_expr = false;
            }
            AI::Neg => st.ra_const = true,
            AI::Undef(34) | AI::Same(34) | AI::Off(34, _) | AI::VOff(34, _) | AI::Reg(34, _) | AI::Expr(34, _) | AI::VExpr(34, _) | AI::Restore(34) => {
                st.ra_other = true
            }
            _ => {}
        }
        return i;
    }
}

/// a sequence of code offsets that walks across the advance_loc width boundaries
fn g_code_offsets(rng: &mut Rng, caf: u8, n: usize, valid: bool) -> Vec<u32> {
    let c = caf.max(1) as u64;
    let mut cur = 0u64;
    let mut out = vec![];
    for _ in 0..n {
        let step: u64 = match rng.below(10) {
            0 | 1 => 0,
            2 | 3 => rng.range(1, 8),
            4 => *rng.pick(&[0x3e, 0x3f, 0x40, 0x41]),
            5 => *rng.pick(&[0xfe, 0xff, 0x100, 0x101]),
            6 => *rng.pick(&[0xfffe, 0xffff, 0x10000, 0x10001]),
            7 => rng.range(1, 0x120),
            8 => rng.range(1, 0x11000),
            _ => rng.boundary_u64() % 0x100_0000,
        };
        let mut d = step * c;
        if !valid && rng.chance(1, 3) {
            d += rng.range(1, c.max(2) - 1);
        }
        let mut next = cur + d;
        if next > u32::MAX as u64 {
            next = cur;
        }
        if !valid && rng.chance(1, 8) && cur > 0 {
            next = rng.below(cur);
        }
        cur = next;
        out.push(cur as u32);
    }
    out
}

fn g_addr(rng: &mut Rng, asz: u8, valid: bool) -> AAddr {
    if !valid && rng.chance(1, 10) {
        return None;
    }
    let lim: u64 = if asz >= 8 { u64::MAX } else { (1u64 << (8 * asz.max(1) as u32)) - 1 };
    Some(match rng.below(6) {
        0 => 0x1000 + rng.below(0x10000) * 16,
        1 => 0x40_0000 + rng.below(0x1000_0000),
        2 => rng.boundary_u64() & lim,
        3 if !valid => rng.boundary_u64(),
        _ => (0x10000 + rng.below(0x6000_0000)) & lim,
    })
}

fn g_enc(rng: &mut Rng, valid: bool) -> u8 {
    if valid || rng.chance(3, 4) { *rng.pick(ENCS_OK) } else if rng.chance(2, 3) { *rng.pick(ENCS_BAD) } else { rng.below(256) as u8 }
}

fn g_cie(rng: &mut Rng, eh: bool, valid: bool) -> ACie {
    let ver: u16 = if valid {
        if eh { 1 } else { *rng.pick(&[1, 3, 4]) }
    } else {
        *rng.pick(&[0, 1, 2, 3, 4, 5, 257, 1, 3, 4])
    };
    let asz: u8 = if valid || rng.chance(3, 4) { *rng.pick(&[4, 8]) } else { *rng.pick(&[1, 2, 3, 5, 16]) };
    let caf: u8 = match rng.below(4) {
        0 => 1,
        1 => *rng.pick(CAFS),
        2 if !valid => 0,
        _ => rng.range(1, 255) as u8,
    };
    let mut daf: i8 = match rng.below(4) {
        0 => *rng.pick(&[-8, -4, 4, 8, 1, -1]),
        1 => *rng.pick(DAFS),
        _ => rng.below(256) as u8 as i8,
    };
    if valid && daf == 0 && rng.chance(3, 4) {
        daf = -8;
    }
    let ra: u16 = match rng.below(5) {
        0 => 16,
        1 => rng.below(128) as u16,
        2 => rng.below(256) as u16,
        3 if !(valid && !eh && ver == 1) => *rng.pick(REGS),
        _ => rng.below(100) as u16,
    };
    let aug = eh || rng.chance(1, 4);
    let pers = if aug && rng.chance(1, 3) { Some((g_enc(rng, valid), g_addr(rng, asz, valid))) } else { None };
    let lsda = if aug && rng.chance(1, 3) { Some(g_enc(rng, valid)) } else { None };
    let fdeenc = if aug && rng.chance(1, 2) { g_enc(rng, valid) } else { 0 };
    let sig = aug && rng.chance(1, 4);
    let mut st = VState { cfa_expr: false, depth: 0, ra_const: false, ra_other: false };
    let mut instrs = vec![];
    if rng.chance(3, 4) {
        instrs.push(AI::Cfa(*rng.pick(&[7, 31, 4, 13]), rng.range(0, 4) as i32 * 8));
    }
    for _ in 0..rng.below(4) {
        instrs.push(g_instr(rng, &mut st, daf, true, valid));
    }
    ACie { fmt64: rng.chance(1, 4), ver, asz, caf, daf, ra, pers, lsda, fdeenc, sig, instrs }
}

fn g_fde(rng: &mut Rng, k: usize, c: &ACie, valid: bool) -> AFde {
    let n = rng.below(7) as usize;
    let offs = g_code_offsets(rng, c.caf, n, valid);
    // the CIE's program decides which instructions are meaningful in the FDE
    let mut st = VState {
        cfa_expr: c.instrs.iter().rev().find_map(|i| match i {
            AI::CfaExpr(_) => Some(true),
            AI::Cfa(..) => Some(false),
            _ => None,
        }).unwrap_or(false),
        depth: 0,
        ra_const: false,
        ra_other: c.instrs.iter().any(|i| matches!(i, AI::Undef(34) | AI::Same(34) | AI::Off(34, _) | AI::VOff(34, _) | AI::Reg(34, _) | AI::Expr(34, _) | AI::VExpr(34, _))),
    };
    let instrs: Vec<(u32, AI)> = offs.into_iter().map(|o| (o, g_instr(rng, &mut st, c.daf, false, valid))).collect();
    let last = instrs.last().map(|x| x.0).unwrap_or(0);
    let len: u32 = match rng.below(4) {
        0 => last.saturating_add(rng.range(1, 64) as u32),
        1 => last.saturating_add(1),
        2 if !valid => rng.boundary_u64() as u32,
        _ => last.saturating_add(rng.range(1, 0x1000) as u32),
    };
    let lsda = if c.lsda.is_some() != (!valid && rng.chance(1, 10)) { Some(g_addr(rng, c.asz, valid)) } else { None };
    let mut addr = g_addr(rng, c.asz, valid);
    if valid {
        // keep `addr + offsets` inside the address size
        let lim: u64 = if c.asz >= 8 { u64::MAX } else { (1u64 << (8 * c.asz as u32)) - 1 };
        if let Some(a) = addr {
            if a.checked_add(len as u64 + 1).map_or(true, |e| e > lim) {
                addr = Some(0x2000);
            }
        }
    }
    AFde { k, addr, len, lsda, instrs }
}

fn g_table(rng: &mut Rng, valid: bool) -> String {
    let eh = rng.chance(1, 2);
    let big = rng.chance(1, 4);
    let ncie = 1 + rng.below(3) as usize;
    let mut cies: Vec<ACie> = vec![];
    for _ in 0..ncie {
        if !cies.is_empty() && rng.chance(1, 3) {
            // a duplicate, or a near duplicate that differs in exactly one field
            let mut c = rng.pick(&cies).clone();
            match rng.below(14) {
                0 => c.fmt64 = !c.fmt64,
                1 => c.asz = if c.asz == 4 { 8 } else { 4 },
                2 => c.caf = c.caf.wrapping_add(1).max(1),
                3 => c.daf = c.daf.wrapping_add(1),
                4 => c.ra = c.ra.wrapping_add(1) % 100,
                5 => c.sig = !c.sig,
                6 => c.instrs.push(AI::Same(3)),
                7 => {
                    c.instrs.pop();
                }
                8 if !eh && c.ver != 1 => c.ver = if c.ver == 3 { 4 } else { 3 },
                9 => c.fdeenc = if c.fdeenc == 0 { 0x1b } else { 0 },
                10 => c.lsda = if c.lsda.is_none() { Some(0) } else { None },
                11 => c.pers = if c.pers.is_none() { Some((0x00, Some(0x4000))) } else { None },
                _ => {}
            }
            cies.push(c);
        } else {
            cies.push(g_cie(rng, eh, valid));
        }
    }
    let nfde = if rng.chance(1, 12) { 0 } else { 1 + rng.below(4) as usize };
    let mut fdes = vec![];
    for _ in 0..nfde {
        let k = rng.below(cies.len() as u64) as usize;
        let f = g_fde(rng, k, &cies[k], valid);
        fdes.push(f);
    }
    s_table(eh, big, &cies, &fdes)
}

fn base_cie(eh: bool, asz: u8, caf: u8, daf: i8) -> ACie {
    ACie { fmt64: false, ver: 1, asz, caf, daf, ra: 16, pers: None, lsda: None, fdeenc: if eh { 0x1b } else { 0 }, sig: false, instrs: vec![AI::Cfa(7, 8)] }
}

pub fn gen(ctx: &Ctx, emit: &mut dyn FnMut(String)) {
    let thorough = ctx.tier == Tier::Thorough;
    let mut rng = ctx.rng(0x1401);

    // ---- A. every offset-carrying instruction × data factor × offsets on and off alignment ×
    //         register at the 0x3f/0x40 form boundary, in the CIE and in the FDE
    for &daf in DAFS {
        for &o in OFFS {
            for kind in 0..4 {
                let regs: &[u16] = if kind == 2 { &[3, 0x3f, 0x40, 0xffff] } else { &[7] };
                for &r in regs {
                    let mut offs = vec![o];
                    if daf != 0 {
                        let d = daf as i64;
                        let m = (o as i64) - (o as i64) % d;
                        if let Ok(m) = i32::try_from(m) {
                            if m != o {
                                offs.push(m);
                            }
                        }
                        if let Ok(m) = i32::try_from((o as i64).wrapping_mul(d)) {
                            offs.push(m);
                        }
                    }
                    for o in offs {
                        let i = match kind {
                            0 => AI::Cfa(r, o),
                            1 => AI::CfaOff(o),
                            2 => AI::Off(r, o),
                            _ => AI::VOff(r, o),
                        };
                        let eh = rng.chance(1, 2);
                        let asz = *rng.pick(&[4u8, 8]);
                        let mut c = base_cie(eh, asz, 1, daf);
                        let mut f = AFde { k: 0, addr: Some(0x10000), len: 0x40, lsda: None, instrs: vec![] };
                        if rng.chance(1, 2) {
                            c.instrs.push(i);
                        } else {
                            f.instrs.push((rng.below(3) as u32 * 4, i));
                        }
                        emit(s_table(eh, rng.chance(1, 4), &[c], &[f]));
                    }
                }
            }
        }
    }

    // ---- B. advance_loc: factored deltas at each width boundary × code factor × on/off alignment
    //         × a previous offset, plus decreasing and equal offsets
    let deltas: &[u64] = &[0, 1, 2, 0x3e, 0x3f, 0x40, 0x41, 0x7f, 0x80, 0xfe, 0xff, 0x100, 0x101, 0x1ff, 0xfffe, 0xffff, 0x10000, 0x10001, 0xff_ffff, 0x100_0000, 0xffff_ffff];
    for &caf in CAFS.iter().chain([0u8].iter()) {
        for &fd in deltas {
            for prev_k in [0u64, 1, 0x3f, 0x100] {
                for skew in [0u64, 1] {
                    let c = caf.max(1) as u64;
                    let prev = prev_k * c;
                    let off = prev + fd * c + skew;
                    if off > u32::MAX as u64 || (skew == 1 && caf == 1) {
                        continue;
                    }
                    for eh in [false, true] {
                        let cie = base_cie(eh, *rng.pick(&[4u8, 8]), caf, -8);
                        let mut is = vec![];
                        if prev > 0 {
                            is.push((prev as u32, AI::Rem));
                        }
                        is.push((off as u32, if prev > 0 { AI::Res } else { AI::Same(3) }));
                        let f = AFde { k: 0, addr: Some(0x10000), len: (off as u32).saturating_add(4), lsda: None, instrs: is };
                        emit(s_table(eh, rng.chance(1, 4), &[cie], &[f]));
                    }
                }
            }
        }
    }
    // decreasing offsets (debug builds: the debug assertion in add_instruction; release: the error)
    for &caf in &[1u8, 4] {
        for (a, b) in [(8u32, 4u32), (4, 0), (0x100, 0xff), (0x10000, 0x40), (u32::MAX, 0), (8, 7)] {
            for eh in [false, true] {
                let cie = base_cie(eh, 8, caf, -8);
                let f = AFde { k: 0, addr: Some(0x10000), len: 0x100, lsda: None, instrs: vec![(a, AI::Same(3)), (b, AI::Same(4))] };
                emit(s_table(eh, false, &[cie.clone()], &[f]));
                let f = AFde { k: 0, addr: Some(0x10000), len: 0x100, lsda: None, instrs: vec![(0, AI::Same(1)), (a, AI::Same(3)), (a, AI::Same(5)), (b, AI::Same(4))] };
                emit(s_table(eh, false, &[cie], &[f]));
            }
        }
    }

    // ---- C. exhaustive blocks (digests): every code offset in windows around the boundaries,
    //         every data offset in a window around 0, for several factors
    for &caf in &[1u8, 2, 3, 4, 8, 255] {
        let c = caf as u32;
        for (sec, fmt, ver, asz) in [("df", "32", 1, 8), ("eh", "32", 1, 4), ("df", "64", 4, 4)] {
            let win = ctx.n(0x50, 0x400) as u32;
            for (lo, n) in [(0u32, 0x48 * c.min(8)), ((0xff * c).saturating_sub(win), 2 * win), ((0xffff * c).saturating_sub(win), 2 * win)] {
                emit(format!("wcfi-blk-adv @MODE@ {sec} le {fmt} {ver} {asz} {caf} 0 {lo} {n}"));
            }
            emit(format!("wcfi-blk-adv @MODE@ {sec} be {fmt} {ver} {asz} {caf} {} {} {}", 5 * c, 5 * c, 0x108 * c.min(4)));
        }
    }
    for &daf in &[-128i8, -8, -4, -3, -1, 0, 1, 2, 8, 127] {
        for kind in ["cfa", "cfao", "off", "voff"] {
            for r in [7u16, 0x40] {
                let n = ctx.n(400, 4000);
                emit(format!("wcfi-blk-off @MODE@ {} le 8 {daf} {kind} {r} {} {}", if daf % 2 == 0 { "df" } else { "eh" }, -(n as i64) / 2, n));
            }
            emit(format!("wcfi-blk-off @MODE@ df be 4 {daf} {kind} 63 {} 64", i32::MIN));
            emit(format!("wcfi-blk-off @MODE@ df be 4 {daf} {kind} 63 {} 64", i32::MAX - 63));
        }
    }

    // ---- D. every pointer encoding for personality / LSDA / FDE addresses, both sections,
    //         both address sizes, addresses below / above the section offset (pcrel sign)
    for &enc in ENCS_OK.iter().chain(ENCS_BAD.iter()) {
        for asz in [4u8, 8] {
            for eh in [true, false] {
                for which in 0..4 {
                    let mut c = base_cie(eh, asz, 1, -8);
                    c.fdeenc = 0;
                    let a: u64 = *rng.pick(&[0x0, 0x10, 0x7fff, 0x8000, 0x12345, 0x7fff_ffff, 0x8000_0000, 0xffff_ffff]);
                    let mut f = AFde { k: 0, addr: Some(0x10000), len: 0x40, lsda: None, instrs: vec![(4, AI::CfaOff(16))] };
                    match which {
                        0 => c.pers = Some((enc, Some(a))),
                        1 => {
                            c.lsda = Some(enc);
                            f.lsda = Some(Some(a));
                        }
                        2 => {
                            c.fdeenc = enc;
                            f.addr = Some(a);
                        }
                        _ => {
                            c.pers = Some((enc, Some(a)));
                            c.lsda = Some(enc);
                            c.fdeenc = enc;
                            c.sig = true;
                            f.lsda = Some(Some(a + 4));
                            f.len = *rng.pick(&[0x40, 0x7fff, 0x8000, 0xffff, 0x1_0000, 0x7fff_ffff, 0x8000_0000, 0xffff_ffff]);
                        }
                    }
                    emit(s_table(eh, rng.chance(1, 4), &[c], &[f]));
                }
            }
        }
    }

    // ---- E. return address register over both representations
    for ra in [0u16, 1, 16, 127, 128, 255, 256, 0x3fff, 0x4000, 0xffff] {
        for (eh, ver) in [(false, 1u16), (false, 3), (false, 4), (true, 1)] {
            let mut c = base_cie(eh, 8, 1, -8);
            c.ver = ver;
            c.ra = ra;
            let f = AFde { k: 0, addr: Some(0x10000), len: 0x40, lsda: None, instrs: vec![(4, AI::CfaOff(16))] };
            emit(s_table(eh, false, &[c], &[f]));
        }
    }

    // ---- F. random tables: structured-valid (~70 %), boundary / malformed (~30 %)
    let n = ctx.n(14_000, 120_000);
    for k in 0..n {
        let valid = k % 10 < 7;
        let line = g_table(&mut rng, valid);
        if valid || k % 3 == 0 {
            // the same table: rows read back vs the Spec's meaning of the supplied instructions
            emit(line.replacen("wcfi-table", "wcfi-rows", 1));
        }
        emit(line);
    }
    let _ = thorough;
}
