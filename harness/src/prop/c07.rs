//! C07 — DWARF expressions: `Operation::parse`, `OperationIter`, `Value`, `Evaluation`.
//! Implementation side of the line protocol (same canonical text as `lean/Gimli/Drv/C07.lean`)
//! plus the direct oracles, which are independent of the Lean Model:
//!   * decode: operand sizes / values re-derived from the DWARF operand signature of each opcode;
//!   * value ops: i128 arithmetic modulo 2^(8a) for generic values, exact for typed integers;
//!   * evaluation: a deliberately naive big-integer interpreter for the integer fragment.
use crate::prop::{Ctx, Tier};
use crate::readers::{set_fail_at, FailReader};
use crate::util::{digest_step, hex, rerr, str_hash, unhex, Rng, DIGEST_INIT};
use gimli::{
    DieReference, Encoding, EndianSlice, Evaluation, EvaluationResult, EvaluationStorage, Expression, Format, Location, Operation, Piece,
    Reader, RunTimeEndian, Value, ValueType,
};

include!("c07/naive.rs");
include!("c07/gen.rs");

// ---------------------------------------------------------------- parsing of request fields

fn endian(e: &str) -> Option<RunTimeEndian> {
    match e {
        "le" => Some(RunTimeEndian::Little),
        "be" => Some(RunTimeEndian::Big),
        _ => None,
    }
}

fn encoding(asz: &str, fmt: &str, ver: &str) -> Option<Encoding> {
    Some(Encoding {
        address_size: asz.parse().ok()?,
        format: match fmt {
            "32" => Format::Dwarf32,
            "64" => Format::Dwarf64,
            _ => return None,
        },
        version: ver.parse().ok()?,
    })
}

fn opt_u64(s: &str) -> Option<Option<u64>> {
    if s == "-" { Some(None) } else { s.parse().ok().map(Some) }
}

const TYPES: &[(&str, ValueType)] = &[
    ("generic", ValueType::Generic),
    ("i8", ValueType::I8),
    ("u8", ValueType::U8),
    ("i16", ValueType::I16),
    ("u16", ValueType::U16),
    ("i32", ValueType::I32),
    ("u32", ValueType::U32),
    ("i64", ValueType::I64),
    ("u64", ValueType::U64),
    ("f32", ValueType::F32),
    ("f64", ValueType::F64),
];

fn type_of(s: &str) -> Option<ValueType> {
    TYPES.iter().find(|(n, _)| *n == s).map(|(_, t)| *t)
}
fn type_name(t: ValueType) -> &'static str {
    TYPES.iter().find(|(_, x)| *x == t).map(|(n, _)| *n).unwrap()
}

/// `<type>:<payload>`; integers in decimal (signed for iN), floats by bit pattern, NaN as `nan`
fn render_value(v: &Value) -> String {
    match *v {
        Value::Generic(x) => format!("generic:{x}"),
        Value::I8(x) => format!("i8:{x}"),
        Value::U8(x) => format!("u8:{x}"),
        Value::I16(x) => format!("i16:{x}"),
        Value::U16(x) => format!("u16:{x}"),
        Value::I32(x) => format!("i32:{x}"),
        Value::U32(x) => format!("u32:{x}"),
        Value::I64(x) => format!("i64:{x}"),
        Value::U64(x) => format!("u64:{x}"),
        Value::F32(x) => if x.is_nan() { "f32:nan".into() } else { format!("f32:{}", x.to_bits()) },
        Value::F64(x) => if x.is_nan() { "f64:nan".into() } else { format!("f64:{}", x.to_bits()) },
    }
}

fn parse_value(s: &str) -> Option<Value> {
    let (t, p) = s.split_once(':')?;
    let i: i128 = p.parse().ok()?;
    Some(match type_of(t)? {
        ValueType::Generic => Value::Generic(u64::try_from(i).ok()?),
        ValueType::I8 => Value::I8(i as i8),
        ValueType::U8 => Value::U8(u8::try_from(i.rem_euclid(1 << 8)).ok().filter(|_| i >= 0)?),
        ValueType::I16 => Value::I16(i as i16),
        ValueType::U16 => Value::U16(u16::try_from(i.rem_euclid(1 << 16)).ok().filter(|_| i >= 0)?),
        ValueType::I32 => Value::I32(i as i32),
        ValueType::U32 => Value::U32(u32::try_from(i.rem_euclid(1 << 32)).ok().filter(|_| i >= 0)?),
        ValueType::I64 => Value::I64(i as i64),
        ValueType::U64 => Value::U64(u64::try_from(i).ok()?),
        ValueType::F32 => Value::F32(f32::from_bits(u32::try_from(i.rem_euclid(1 << 32)).ok().filter(|_| i >= 0)?)),
        ValueType::F64 => Value::F64(f64::from_bits(u64::try_from(i).ok()?)),
    })
}

/// the `u64` reading of a scripted answer (its bit pattern)
fn value_bits(v: &Value) -> u64 {
    match *v {
        Value::Generic(x) | Value::U64(x) => x,
        Value::I8(x) => x as u8 as u64,
        Value::U8(x) => x as u64,
        Value::I16(x) => x as u16 as u64,
        Value::U16(x) => x as u64,
        Value::I32(x) => x as u32 as u64,
        Value::U32(x) => x as u64,
        Value::I64(x) => x as u64,
        Value::F32(x) => x.to_bits() as u64,
        Value::F64(x) => x.to_bits(),
    }
}

fn opt_s(o: Option<u64>) -> String {
    match o {
        Some(x) => x.to_string(),
        None => "-".into(),
    }
}

type R<'a> = FailReader<'a>;

fn rbytes(r: &R) -> String {
    hex(r.0.slice())
}

fn render_op(op: &Operation<R>) -> String {
    match *op {
        Operation::Deref { base_type, size, space } => format!("deref({},{},{})", base_type.0, size, space as u8),
        Operation::Drop => "drop".into(),
        Operation::Pick { index } => format!("pick({index})"),
        Operation::Swap => "swap".into(),
        Operation::Rot => "rot".into(),
        Operation::Abs => "abs".into(),
        Operation::And => "and".into(),
        Operation::Div => "div".into(),
        Operation::Minus => "minus".into(),
        Operation::Mod => "mod".into(),
        Operation::Mul => "mul".into(),
        Operation::Neg => "neg".into(),
        Operation::Not => "not".into(),
        Operation::Or => "or".into(),
        Operation::Plus => "plus".into(),
        Operation::PlusConstant { value } => format!("plus_uconst({value})"),
        Operation::Shl => "shl".into(),
        Operation::Shr => "shr".into(),
        Operation::Shra => "shra".into(),
        Operation::Xor => "xor".into(),
        Operation::Bra { target } => format!("bra({target})"),
        Operation::Eq => "eq".into(),
        Operation::Ge => "ge".into(),
        Operation::Gt => "gt".into(),
        Operation::Le => "le".into(),
        Operation::Lt => "lt".into(),
        Operation::Ne => "ne".into(),
        Operation::Skip { target } => format!("skip({target})"),
        Operation::UnsignedConstant { value } => format!("uconst({value})"),
        Operation::SignedConstant { value } => format!("sconst({value})"),
        Operation::Register { register } => format!("reg({})", register.0),
        Operation::RegisterOffset { register, offset, base_type } => format!("breg({},{},{})", register.0, offset, base_type.0),
        Operation::FrameOffset { offset } => format!("fbreg({offset})"),
        Operation::Nop => "nop".into(),
        Operation::PushObjectAddress => "push_object_address".into(),
        Operation::Call { offset: DieReference::UnitRef(o) } => format!("call_unit({})", o.0),
        Operation::Call { offset: DieReference::DebugInfoRef(o) } => format!("call_info({})", o.0),
        Operation::VariableValue { offset } => format!("variable_value({})", offset.0),
        Operation::TLS => "tls".into(),
        Operation::CallFrameCFA => "cfa".into(),
        Operation::Piece { size_in_bits, bit_offset } => format!("piece({},{})", size_in_bits, opt_s(bit_offset)),
        Operation::ImplicitValue { ref data } => format!("implicit_value({})", rbytes(data)),
        Operation::StackValue => "stack_value".into(),
        Operation::ImplicitPointer { value, byte_offset } => format!("implicit_pointer({},{})", value.0, byte_offset),
        Operation::EntryValue { ref expression } => format!("entry_value({})", rbytes(expression)),
        Operation::ParameterRef { offset } => format!("parameter_ref({})", offset.0),
        Operation::Address { address } => format!("addr({address})"),
        Operation::AddressIndex { index } => format!("addrx({})", index.0),
        Operation::ConstantIndex { index } => format!("constx({})", index.0),
        Operation::TypedLiteral { base_type, ref value } => format!("const_type({},{})", base_type.0, rbytes(value)),
        Operation::Convert { base_type } => format!("convert({})", base_type.0),
        Operation::Reinterpret { base_type } => format!("reinterpret({})", base_type.0),
        Operation::Uninitialized => "uninit".into(),
        Operation::WasmLocal { index } => format!("wasm_local({index})"),
        Operation::WasmGlobal { index } => format!("wasm_global({index})"),
        Operation::WasmStack { index } => format!("wasm_stack({index})"),
    }
}

fn render_loc(l: &Location<R>) -> String {
    match *l {
        Location::Empty => "empty".into(),
        Location::Register { register } => format!("reg({})", register.0),
        Location::Address { address } => format!("addr({address})"),
        Location::Value { ref value } => format!("val({})", render_value(value)),
        Location::Bytes { ref value } => format!("bytes({})", rbytes(value)),
        Location::ImplicitPointer { value, byte_offset } => format!("iptr({},{})", value.0, byte_offset),
    }
}

fn render_piece(p: &Piece<R>) -> String {
    format!("{}:{}:{}", opt_s(p.size_in_bits), opt_s(p.bit_offset), render_loc(&p.location))
}

fn render_req(r: &EvaluationResult<R>) -> String {
    match *r {
        EvaluationResult::Complete => "complete".into(),
        EvaluationResult::RequiresMemory { address, size, space, base_type } => format!("mem({},{},{},{})", address, size, opt_s(space), base_type.0),
        EvaluationResult::RequiresRegister { register, base_type } => format!("reg({},{})", register.0, base_type.0),
        EvaluationResult::RequiresWasmLocal { index } => format!("wasm_local({index})"),
        EvaluationResult::RequiresWasmGlobal { index } => format!("wasm_global({index})"),
        EvaluationResult::RequiresWasmStack { index } => format!("wasm_stack({index})"),
        EvaluationResult::RequiresFrameBase => "frame_base".into(),
        EvaluationResult::RequiresTls(i) => format!("tls({i})"),
        EvaluationResult::RequiresCallFrameCfa => "cfa".into(),
        EvaluationResult::RequiresAtLocation(DieReference::UnitRef(o)) => format!("at_location(u{})", o.0),
        EvaluationResult::RequiresAtLocation(DieReference::DebugInfoRef(o)) => format!("at_location(i{})", o.0),
        EvaluationResult::RequiresEntryValue(ref x) => format!("entry_value({})", rbytes(&x.0)),
        EvaluationResult::RequiresParameterRef(o) => format!("parameter_ref({})", o.0),
        EvaluationResult::RequiresRelocatedAddress(a) => format!("relocated({a})"),
        EvaluationResult::RequiresIndexedAddress { index, relocate } => format!("indexed({},{})", index.0, relocate as u8),
        EvaluationResult::RequiresBaseType(o) => format!("base_type({})", o.0),
    }
}

// ---------------------------------------------------------------- evaluation with a script

pub struct Tok {
    value: Value,
    bytes: Vec<u8>,
}

fn parse_script(s: &str) -> Option<Vec<Tok>> {
    if s == "-" {
        return Some(vec![]);
    }
    s.split(',')
        .map(|t| {
            let (v, h) = t.split_once('/')?;
            Some(Tok { value: parse_value(v)?, bytes: unhex(h)? })
        })
        .collect()
}

/// fixed-capacity storage: `[Value; S]`, `[(R, R); E]`, `[Piece<R>; P]`
struct Small<const S: usize, const E: usize, const P: usize>;
impl<Rd: Reader, const S: usize, const E: usize, const P: usize> EvaluationStorage<Rd> for Small<S, E, P> {
    type Stack = [Value; S];
    type ExpressionStack = [(Rd, Rd); E];
    type Result = [Piece<Rd>; P];
}

/// reader-operation budget of every evaluation (answered as `diverge` when exhausted; the Model's
/// fuel is 30000 operations, which can not use this many reader operations)
const NO_LIMIT_BUDGET: u64 = 400_000;

pub struct EvalArgs<'a> {
    pub endian: RunTimeEndian,
    pub encoding: Encoding,
    pub init: Option<u64>,
    pub obj: Option<u64>,
    pub max: Option<u64>,
    pub prog: &'a [u8],
    pub script: &'a [Tok],
}

fn run_eval<'a, S: EvaluationStorage<R<'a>>>(a: &EvalArgs<'a>) -> String {
    let mut eval = Evaluation::<R<'a>, S>::new_in(FailReader::new(a.prog, a.endian), a.encoding);
    if let Some(v) = a.init {
        eval.set_initial_value(v);
    }
    if let Some(v) = a.obj {
        eval.set_object_address(v);
    }
    if let Some(m) = a.max {
        eval.set_max_iterations(u32::try_from(m).unwrap_or(u32::MAX));
    }
    set_fail_at(Some(NO_LIMIT_BUDGET));
    let mut reqs: Vec<String> = Vec::new();
    let mut toks = a.script.iter();
    let mut r = eval.evaluate();
    let fin: String;
    loop {
        match r {
            Err(gimli::Error::Io) => {
                set_fail_at(None);
                return "diverge".into();
            }
            Err(e) => {
                fin = format!("err:{}", rerr(&e));
                break;
            }
            Ok(EvaluationResult::Complete) => {
                reqs.push("complete".into());
                let ps: Vec<String> = eval.as_result().iter().map(render_piece).collect();
                let v = eval.value_result().map(|v| render_value(&v)).unwrap_or_else(|| "-".into());
                fin = format!("done[{}]v={}", ps.join("|"), v);
                break;
            }
            Ok(req) => {
                reqs.push(render_req(&req));
                let Some(t) = toks.next() else {
                    fin = "script-end".into();
                    break;
                };
                let n = value_bits(&t.value);
                r = match req {
                    EvaluationResult::Complete => unreachable!(),
                    EvaluationResult::RequiresMemory { .. } => eval.resume_with_memory(t.value),
                    EvaluationResult::RequiresRegister { .. } => eval.resume_with_register(t.value),
                    EvaluationResult::RequiresWasmLocal { .. } | EvaluationResult::RequiresWasmGlobal { .. } | EvaluationResult::RequiresWasmStack { .. } => {
                        eval.resume_with_wasm_value(t.value)
                    }
                    EvaluationResult::RequiresFrameBase => eval.resume_with_frame_base(n),
                    EvaluationResult::RequiresTls(_) => eval.resume_with_tls(n),
                    EvaluationResult::RequiresCallFrameCfa => eval.resume_with_call_frame_cfa(n),
                    EvaluationResult::RequiresAtLocation(_) => eval.resume_with_at_location(FailReader::new(&t.bytes, a.endian)),
                    EvaluationResult::RequiresEntryValue(_) => eval.resume_with_entry_value(t.value),
                    EvaluationResult::RequiresParameterRef(_) => eval.resume_with_parameter_ref(n),
                    EvaluationResult::RequiresRelocatedAddress(_) => eval.resume_with_relocated_address(n),
                    EvaluationResult::RequiresIndexedAddress { .. } => eval.resume_with_indexed_address(n),
                    EvaluationResult::RequiresBaseType(_) => eval.resume_with_base_type(t.value.value_type()),
                };
            }
        }
    }
    set_fail_at(None);
    format!("ok {} {}", if reqs.is_empty() { "-".to_string() } else { reqs.join(";") }, fin)
}

pub const STORAGES: &[&str] = &["heap", "s0e1p1", "s1e1p1", "s2e1p1", "s3e1p1", "s4e1p1", "s8e2p2", "s4e0p1", "s4e1p0", "s4e2p3", "s2e0p0"];

fn do_eval(storage: &str, a: &EvalArgs) -> Option<String> {
    Some(match storage {
        "heap" => run_eval::<gimli::StoreOnHeap>(a),
        "s0e1p1" => run_eval::<Small<0, 1, 1>>(a),
        "s1e1p1" => run_eval::<Small<1, 1, 1>>(a),
        "s2e1p1" => run_eval::<Small<2, 1, 1>>(a),
        "s3e1p1" => run_eval::<Small<3, 1, 1>>(a),
        "s4e1p1" => run_eval::<Small<4, 1, 1>>(a),
        "s8e2p2" => run_eval::<Small<8, 2, 2>>(a),
        "s4e0p1" => run_eval::<Small<4, 0, 1>>(a),
        "s4e1p0" => run_eval::<Small<4, 1, 0>>(a),
        "s4e2p3" => run_eval::<Small<4, 2, 3>>(a),
        "s2e0p0" => run_eval::<Small<2, 0, 0>>(a),
        _ => return None,
    })
}

// ---------------------------------------------------------------- value operations

type VRes = Result<Value, gimli::Error>;

fn unary(op: &str, v: Value, mask: u64) -> Option<VRes> {
    Some(match op {
        "abs" => v.abs(mask),
        "neg" => v.neg(mask),
        "not" => v.not(mask),
        _ => return None,
    })
}

fn binary(op: &str, a: Value, b: Value, mask: u64) -> Option<VRes> {
    Some(match op {
        "add" => a.add(b, mask),
        "sub" => a.sub(b, mask),
        "mul" => a.mul(b, mask),
        "div" => a.div(b, mask),
        "rem" => a.rem(b, mask),
        "and" => a.and(b, mask),
        "or" => a.or(b, mask),
        "xor" => a.xor(b, mask),
        "shl" => a.shl(b, mask),
        "shr" => a.shr(b, mask),
        "shra" => a.shra(b, mask),
        "eq" => a.eq(b, mask),
        "ge" => a.ge(b, mask),
        "gt" => a.gt(b, mask),
        "le" => a.le(b, mask),
        "lt" => a.lt(b, mask),
        "ne" => a.ne(b, mask),
        _ => return None,
    })
}

pub const UNARY: &[&str] = &["abs", "neg", "not"];
pub const BINARY: &[&str] = &["add", "sub", "mul", "div", "rem", "and", "or", "xor", "shl", "shr", "shra", "eq", "ge", "gt", "le", "lt", "ne"];

fn vres(r: &VRes) -> String {
    match r {
        Ok(v) => format!("ok {}", render_value(v)),
        Err(e) => format!("err {}", rerr(e)),
    }
}

fn vwords(r: &VRes) -> [u64; 2] {
    match r {
        Ok(v) => [0, str_hash(&render_value(v))],
        Err(e) => [1, str_hash(&rerr(e))],
    }
}

fn value_of(t: ValueType, pattern: u64) -> Value {
    match t {
        ValueType::Generic => Value::Generic(pattern),
        ValueType::I8 => Value::I8(pattern as i8),
        ValueType::U8 => Value::U8(pattern as u8),
        ValueType::I16 => Value::I16(pattern as i16),
        ValueType::U16 => Value::U16(pattern as u16),
        ValueType::I32 => Value::I32(pattern as i32),
        ValueType::U32 => Value::U32(pattern as u32),
        ValueType::I64 => Value::I64(pattern as i64),
        ValueType::U64 => Value::U64(pattern),
        ValueType::F32 => Value::F32(f32::from_bits(pattern as u32)),
        ValueType::F64 => Value::F64(f64::from_bits(pattern)),
    }
}

fn with_oracle(s: String, o: Option<String>) -> String {
    match o {
        Some(w) => format!("{s} #oracle:{w}"),
        None => s,
    }
}

// ---------------------------------------------------------------- the line protocol

pub fn handle(op: &str, a: &[&str]) -> Option<String> {
    match (op, a) {
        ("op-parse", [e, asz, fmt, ver, h]) => {
            let en = endian(e)?;
            let enc = encoding(asz, fmt, ver)?;
            let bs = unhex(h)?;
            let mut r = FailReader::new(&bs, en);
            set_fail_at(None);
            let res = Operation::parse(&mut r, enc);
            let consumed = bs.len() - r.len();
            let o = oracle_decode(&bs, en == RunTimeEndian::Big, enc, &res, consumed);
            Some(with_oracle(
                match &res {
                    Ok(op) => format!("ok {} {}", render_op(op), consumed),
                    Err(e) => format!("err {}", rerr(e)),
                },
                o,
            ))
        }
        ("op-iter", [e, asz, fmt, ver, h]) => {
            let en = endian(e)?;
            let enc = encoding(asz, fmt, ver)?;
            let bs = unhex(h)?;
            set_fail_at(None);
            let expr = Expression(FailReader::new(&bs, en));
            let mut it = expr.operations(enc);
            let mut out: Vec<String> = Vec::new();
            let mut err = "-".to_string();
            let mut o = None;
            let mut steps = 0usize;
            loop {
                steps += 1;
                if steps > bs.len() + 2 {
                    o = Some("iter-does-not-end".to_string());
                    break;
                }
                match it.next() {
                    Ok(Some(op)) => out.push(format!("{}@{}", render_op(&op), it.offset_from(&expr))),
                    Ok(None) => break,
                    Err(e) => {
                        err = rerr(&e);
                        // the iterator must be finished after an error
                        if !matches!(it.next(), Ok(None)) {
                            o = Some("iter-continues-after-error".to_string());
                        }
                        break;
                    }
                }
            }
            Some(with_oracle(format!("ok {} {}", if out.is_empty() { "-".to_string() } else { out.join(";") }, err), o))
        }
        ("val-op", [o, mask, v]) => {
            let mask: u64 = mask.parse().ok()?;
            let v = parse_value(v)?;
            if *o == "to_u64" {
                return Some(match v.to_u64(mask) {
                    Ok(x) => format!("ok {x}"),
                    Err(e) => format!("err {}", rerr(&e)),
                });
            }
            let r = unary(o, v, mask)?;
            let orc = oracle_unary(o, &v, mask, &r);
            Some(with_oracle(vres(&r), orc))
        }
        ("val-op", [o, mask, x, y]) => {
            let mask: u64 = mask.parse().ok()?;
            let x = parse_value(x)?;
            if *o == "convert" || *o == "reinterpret" {
                let t = type_of(y)?;
                let r = if *o == "convert" { x.convert(t, mask) } else { x.reinterpret(t, mask) };
                let orc = oracle_convert(o, &x, t, mask, &r);
                return Some(with_oracle(vres(&r), orc));
            }
            let y = parse_value(y)?;
            let r = binary(o, x, y, mask)?;
            let orc = oracle_binary(o, &x, &y, mask, &r);
            Some(with_oracle(vres(&r), orc))
        }
        ("val-parse", [e, t, h]) => {
            let en = endian(e)?;
            let t = type_of(t)?;
            let bs = unhex(h)?;
            Some(vres(&Value::parse(t, EndianSlice::new(&bs, en))))
        }
        ("val-from-u64", [t, n]) => {
            let t = type_of(t)?;
            let n: u64 = n.parse().ok()?;
            Some(vres(&Value::from_u64(t, n)))
        }
        ("val-bit-size", [mask, t]) => {
            let mask: u64 = mask.parse().ok()?;
            Some(format!("ok {}", type_of(t)?.bit_size(mask)))
        }
        ("val-type-enc", [ate, size]) => {
            let ate: u64 = ate.parse().ok()?;
            let size: u64 = size.parse().ok()?;
            let t = u8::try_from(ate).ok().and_then(|a| ValueType::from_encoding(gimli::DwAte(a), size));
            Some(format!("ok {}", t.map(type_name).unwrap_or("-")))
        }
        ("blk-val", [o, t, mask]) => {
            let t = type_of(t)?;
            let mask: u64 = mask.parse().ok()?;
            let n: u64 = if t == ValueType::Generic { 512 } else { 256 };
            let mut h = DIGEST_INIT;
            let mut bad: Option<String> = None;
            let mut badc = 0u64;
            if UNARY.contains(o) {
                for x in 0..n {
                    let v = value_of(t, x);
                    let r = unary(o, v, mask)?;
                    if let Some(w) = oracle_unary(o, &v, mask, &r) {
                        badc += 1;
                        bad.get_or_insert(format!("{w} {}", render_value(&v)));
                    }
                    for w in vwords(&r) {
                        h = digest_step(h, w);
                    }
                }
            } else {
                for x in 0..n {
                    for y in 0..n {
                        let (vx, vy) = (value_of(t, x), value_of(t, y));
                        let r = binary(o, vx, vy, mask)?;
                        if let Some(w) = oracle_binary(o, &vx, &vy, mask, &r) {
                            badc += 1;
                            bad.get_or_insert(format!("{w} {} {}", render_value(&vx), render_value(&vy)));
                        }
                        for w in vwords(&r) {
                            h = digest_step(h, w);
                        }
                    }
                }
            }
            Some(with_oracle(format!("ok digest={h}"), bad.map(|b| format!("{b} ({badc} cases)"))))
        }
        ("expr-eval", [e, asz, fmt, ver, st, init, obj, mx, h, sc, rest @ ..]) => {
            if rest.len() > 1 {
                return None;
            }
            let en = endian(e)?;
            let enc = encoding(asz, fmt, ver)?;
            let prog = unhex(h)?;
            let script = parse_script(sc)?;
            let args = EvalArgs { endian: en, encoding: enc, init: opt_u64(init)?, obj: opt_u64(obj)?, max: opt_u64(mx)?, prog: &prog, script: &script };
            let reply = do_eval(st, &args)?;
            let o = if *st == "heap" && script.is_empty() { oracle_eval(&args, &reply) } else { None };
            Some(with_oracle(reply, o))
        }
        ("expr-blk", [e, asz, st, mx, len, first]) => {
            let en = endian(e)?;
            let asz: u8 = asz.parse().ok()?;
            let len: usize = len.parse().ok()?;
            let first: usize = first.parse().ok()?;
            let mx = opt_u64(mx)?;
            let alpha = alphabet(asz);
            let sym = alpha.get(first)?.clone();
            let enc = Encoding { address_size: asz, format: Format::Dwarf32, version: 4 };
            let mut h = DIGEST_INIT;
            let mut bad: Option<String> = None;
            let mut badc = 0u64;
            let mut prog = sym;
            let st = st.to_string();
            enum_progs(&alpha, len.saturating_sub(1), &mut prog, &mut |p: &[u8]| {
                let args = EvalArgs { endian: en, encoding: enc, init: None, obj: Some(0x1234), max: mx, prog: p, script: &[] };
                let reply = do_eval(&st, &args).unwrap_or_else(|| "bad-storage".into());
                if st == "heap" {
                    if let Some(w) = oracle_eval(&args, &reply) {
                        badc += 1;
                        if bad.is_none() {
                            bad = Some(format!("{w} prog={}", hex(p)));
                        }
                    }
                }
                h = digest_step(h, str_hash(&reply));
            });
            Some(with_oracle(format!("ok digest={h}"), bad.map(|b| format!("{b} ({badc} cases)"))))
        }
        _ => None,
    }
}

fn enum_progs(alpha: &[Vec<u8>], more: usize, prog: &mut Vec<u8>, f: &mut dyn FnMut(&[u8])) {
    if more == 0 {
        f(prog);
        return;
    }
    for sym in alpha {
        let n = prog.len();
        prog.extend_from_slice(sym);
        enum_progs(alpha, more - 1, prog, f);
        prog.truncate(n);
    }
}

fn uleb(mut v: u128) -> Vec<u8> {
    let mut out = vec![];
    loop {
        let b = (v & 0x7f) as u8;
        v >>= 7;
        if v != 0 {
            out.push(b | 0x80);
        } else {
            out.push(b);
            return out;
        }
    }
}

fn sleb(mut v: i128) -> Vec<u8> {
    let mut out = vec![];
    loop {
        let b = (v & 0x7f) as u8;
        v >>= 7;
        let done = (v == 0 && b & 0x40 == 0) || (v == -1 && b & 0x40 != 0);
        if done {
            out.push(b);
            return out;
        }
        out.push(b | 0x80);
    }
}

/// the alphabet of the exhaustive program enumeration (same table as `alphabet` in Drv/C07.lean)
pub fn alphabet(asz: u8) -> Vec<Vec<u8>> {
    let mask: u128 = (1u128 << (8 * asz as u32)) - 1;
    let mut a: Vec<Vec<u8>> = vec![vec![0x12], vec![0x13], vec![0x14], vec![0x16], vec![0x17], vec![0x15, 0x02]];
    for b in 0x19..=0x22u8 {
        a.push(vec![b]);
    }
    for b in [0x24u8, 0x25, 0x26, 0x27, 0x29, 0x2a, 0x2b, 0x2c, 0x2d, 0x2e] {
        a.push(vec![b]);
    }
    a.push(vec![0x23, 0x01]);
    a.push(vec![0x96]);
    a.push(vec![0x2f, 0x01, 0x00]);
    a.push(vec![0x2f, 0xfc, 0xff]);
    a.push(vec![0x28, 0x01, 0x00]);
    a.push(vec![0x28, 0xfb, 0xff]);
    a.push(vec![0x9f]);
    a.push(vec![0x93, 0x01]);
    a.push(vec![0x50]);
    a.push(vec![0x97]);
    a.push(vec![0x30]);
    a.push(vec![0x31]);
    a.push(vec![0x4f]);
    a.push(vec![0x09, 0xff]);
    a.push(vec![0x0e, 0, 0, 0, 0, 0, 0, 0, 0x80]);
    let mut c = vec![0x10];
    c.extend(uleb(mask));
    a.push(c);
    let mut c = vec![0x10];
    c.extend(uleb(mask + 1));
    a.push(c);
    a.push(vec![0x08, 0x07]);
    a
}

pub fn gen(ctx: &Ctx, emit: &mut dyn FnMut(String)) {
    gen_all(ctx, emit)
}
