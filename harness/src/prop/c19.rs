//! C19 — filtered conversion output is dependency-closed, complete and minimal.
//!
//! `flt-conv <mode> <version> <format> <address_size> <nunits> <entries> <required>` (the grammar is
//! documented in `lean/Gimli/Drv/C19.lean`): the abstract multi-unit forest is turned into real
//! DWARF with `gimli::write` (every DIE carries `DW_AT_name "e<id>"`), references to places that
//! are not DIEs are patched into the written bytes, the sections are read back, filtered with
//! `FilterUnitSection` (requiring the listed ids), converted with `Dwarf::convert_with_filter` +
//! `ConvertUnit::convert`, written and read again. The reply lists, per output unit, the surviving
//! ids with their parents.
//!
//! Direct oracle (independent of the Lean model): a naive fixpoint closure over the abstract
//! description (lower bound: required + ancestors + everything referenced + member-like children of
//! non-namespace entries; upper bound: the same with every child), no reference of the output
//! points to a missing DIE, `write()` succeeds, the filtered conversion does not fail when the
//! unfiltered one succeeds, and every surviving DIE has the tag, parent and attributes it has in
//! the unfiltered conversion.
use crate::prop::{Ctx, Tier};
use crate::util::{rerr, werr, Rng};
use gimli::constants as c;
use gimli::read::{self, Reader};
use gimli::write::{self, Address, AttributeValue, DebugInfoRef, Expression, Location, LocationList, Sections, UnitEntryId, UnitId};
use gimli::{EndianSlice, Encoding, Format, LittleEndian, Register, SectionId};
use std::collections::{BTreeMap, BTreeSet, HashMap};

type R<'a> = EndianSlice<'a, LittleEndian>;

#[derive(Clone, Copy, Debug, PartialEq)]
enum Tgt {
    Ent(usize),
    Root(usize),
    Oob,
    Mid(usize),
}

#[derive(Clone, Debug, PartialEq)]
enum AOp {
    Plain,
    Call(Tgt),
    CallRef(Tgt),
    Typed(Tgt),
    Param(Tgt),
    ImplPtr(Tgt),
    VarVal(Tgt),
    Entry(Box<AOp>),
}

#[derive(Clone, Debug, PartialEq)]
enum AAttr {
    Ref(Tgt),
    GRef(Tgt),
    Expr(Vec<AOp>),
    Loc(Vec<(char, Vec<AOp>)>),
}

#[derive(Clone, Debug)]
struct AEntry {
    id: usize,
    unit: usize,
    parent: Option<usize>,
    tag: u16,
    decl: bool,
    attrs: Vec<AAttr>,
}

struct Forest {
    enc: Encoding,
    nunits: usize,
    entries: Vec<AEntry>,
    required: BTreeSet<usize>,
    /// reference attributes of the unit root DIEs (pseudo entries with id usize::MAX)
    roots: Vec<AEntry>,
}

// ---------------------------------------------------------------- parsing

fn parse_tgt(s: &str) -> Option<Tgt> {
    if s == "O" {
        Some(Tgt::Oob)
    } else if let Some(r) = s.strip_prefix('R') {
        r.parse().ok().map(Tgt::Root)
    } else if let Some(r) = s.strip_prefix('M') {
        r.parse().ok().map(Tgt::Mid)
    } else {
        s.parse().ok().map(Tgt::Ent)
    }
}

fn parse_op(s: &str) -> Option<AOp> {
    if s == "n" {
        return Some(AOp::Plain);
    }
    if !s.is_char_boundary(1) {
        return None;
    }
    let (k, rest) = s.split_at(1);
    Some(match k {
        "E" => {
            // `E<k>_<op>`: the operation nested in k DW_OP_entry_value operations
            let (n, op) = rest.split_once('_')?;
            let n: usize = n.parse().ok()?;
            if n == 0 || n > 512 {
                return None;
            }
            let mut inner = parse_op(op)?;
            if matches!(inner, AOp::Entry(_)) {
                return None;
            }
            for _ in 0..n {
                inner = AOp::Entry(Box::new(inner));
            }
            inner
        }
        "c" => AOp::Call(parse_tgt(rest)?),
        "C" => AOp::CallRef(parse_tgt(rest)?),
        "t" => AOp::Typed(parse_tgt(rest)?),
        "p" => AOp::Param(parse_tgt(rest)?),
        "i" => AOp::ImplPtr(parse_tgt(rest)?),
        "v" => AOp::VarVal(parse_tgt(rest)?),
        "e" => {
            let inner = parse_op(rest)?;
            if matches!(inner, AOp::Entry(_)) {
                return None;
            }
            AOp::Entry(Box::new(inner))
        }
        _ => return None,
    })
}

fn parse_ops(s: &str) -> Option<Vec<AOp>> {
    if s.is_empty() {
        return Some(vec![]);
    }
    s.split('.').map(parse_op).collect()
}

fn parse_attr(s: &str) -> Option<AAttr> {
    if s.is_empty() || !s.is_char_boundary(1) {
        return None;
    }
    let (k, rest) = s.split_at(1);
    Some(match k {
        "r" => AAttr::Ref(parse_tgt(rest)?),
        "g" => AAttr::GRef(parse_tgt(rest)?),
        "x" => AAttr::Expr(parse_ops(rest)?),
        "l" => {
            let mut locs = Vec::new();
            for l in rest.split('/') {
                let mut ch = l.chars();
                let kind = ch.next()?;
                if !matches!(kind, 'n' | 'z' | 'i' | 't') {
                    return None;
                }
                locs.push((kind, parse_ops(ch.as_str())?));
            }
            AAttr::Loc(locs)
        }
        _ => return None,
    })
}

fn parse(a: &[&str]) -> Option<Forest> {
    let (a, roots_tok) = match a.len() {
        7 => (a, "-"),
        8 => (&a[..7], a[7]),
        _ => return None,
    };
    let [_mode, ver, fmt, asz, nunits, entries, required] = a else { return None };
    let version: u16 = ver.parse().ok()?;
    let format = match *fmt {
        "32" => Format::Dwarf32,
        "64" => Format::Dwarf64,
        _ => return None,
    };
    let address_size: u8 = asz.parse().ok()?;
    let nunits: usize = nunits.parse().ok()?;
    // guards shared with the Model driver: neighbourhood searches substitute boundary numbers
    if !(2..=5).contains(&version) || !matches!(address_size, 1 | 2 | 4 | 8) || nunits > 64 || entries.len() > 1 << 16 {
        return None;
    }
    let mut es = Vec::new();
    if *entries != "-" {
        for (i, e) in entries.split(';').enumerate() {
            let f: Vec<&str> = e.split(',').collect();
            let [id, unit, parent, tag, decl, attrs] = f[..] else { return None };
            let id: usize = id.parse().ok()?;
            let unit: usize = unit.parse().ok()?;
            if id != i || unit >= nunits {
                return None;
            }
            let parent = if parent == "-" { None } else { Some(parent.parse::<usize>().ok()?) };
            let attrs = if attrs == "-" { vec![] } else { attrs.split('|').map(parse_attr).collect::<Option<Vec<_>>>()? };
            es.push(AEntry { id, unit, parent, tag: tag.parse().ok()?, decl: decl == "1", attrs });
        }
    }
    for (i, e) in es.iter().enumerate() {
        if let Some(p) = e.parent {
            if p >= i || es[p].unit != e.unit {
                return None;
            }
        }
        if i > 0 && es[i - 1].unit > e.unit {
            return None;
        }
    }
    let mut req = BTreeSet::new();
    if *required != "-" {
        for r in required.split(',') {
            let r: usize = r.parse().ok()?;
            if r >= es.len() {
                return None;
            }
            req.insert(r);
        }
    }
    let mut roots: Vec<AEntry> = (0..nunits).map(|u| AEntry { id: usize::MAX, unit: u, parent: None, tag: 0x11, decl: false, attrs: vec![] }).collect();
    if roots_tok != "-" {
        for r in roots_tok.split(';') {
            let (u, attrs) = r.split_once('=')?;
            let u: usize = u.parse().ok()?;
            if u >= nunits {
                return None;
            }
            roots[u].attrs = if attrs == "-" { vec![] } else { attrs.split('|').map(parse_attr).collect::<Option<Vec<_>>>()? };
        }
    }
    Some(Forest { enc: Encoding { version, format, address_size }, nunits, entries: es, required: req, roots })
}

// ---------------------------------------------------------------- building the input DWARF

const REF_NAMES: &[gimli::DwAt] = &[c::DW_AT_type, c::DW_AT_abstract_origin, c::DW_AT_specification, c::DW_AT_import, c::DW_AT_containing_type, c::DW_AT_object_pointer, c::DW_AT_friend, c::DW_AT_discr];
const EXPR_NAMES: &[gimli::DwAt] = &[c::DW_AT_location, c::DW_AT_frame_base, c::DW_AT_data_member_location, c::DW_AT_string_length, c::DW_AT_return_addr, c::DW_AT_static_link, c::DW_AT_use_location, c::DW_AT_segment];

/// the attribute name used for the k-th abstract attribute of an entry
fn attr_names(attrs: &[AAttr]) -> Option<Vec<gimli::DwAt>> {
    let (mut r, mut x) = (0, 0);
    let mut out = Vec::new();
    for a in attrs {
        match a {
            AAttr::Ref(_) | AAttr::GRef(_) => {
                out.push(*REF_NAMES.get(r)?);
                r += 1;
            }
            _ => {
                out.push(*EXPR_NAMES.get(x)?);
                x += 1;
            }
        }
    }
    Some(out)
}

struct Built {
    unit_ids: Vec<UnitId>,
    roots: Vec<UnitEntryId>,
    ids: Vec<UnitEntryId>,
}

fn mask(asize: u8) -> u64 {
    if asize >= 8 { u64::MAX } else { (1u64 << (8 * asize as u32)) - 1 }
}

/// placeholder reference for targets that are patched into the bytes afterwards
fn tgt_entry(f: &Forest, b: &Built, me: &AEntry, t: Tgt, same_unit: bool) -> Option<(UnitId, UnitEntryId)> {
    match t {
        Tgt::Ent(i) => {
            let e = f.entries.get(i)?;
            if same_unit && e.unit != me.unit {
                return None;
            }
            Some((b.unit_ids[e.unit], b.ids[i]))
        }
        Tgt::Root(u) => {
            if u >= f.nunits || (same_unit && u != me.unit) {
                return None;
            }
            Some((b.unit_ids[u], b.roots[u]))
        }
        Tgt::Oob => Some((b.unit_ids[me.unit], *b.ids.get(me.id)?)),
        Tgt::Mid(i) => {
            let e = f.entries.get(i)?;
            if same_unit && e.unit != me.unit {
                return None;
            }
            Some((b.unit_ids[me.unit], *b.ids.get(me.id)?))
        }
    }
}

fn build_op(f: &Forest, b: &Built, me: &AEntry, op: &AOp, x: &mut Expression) -> Option<()> {
    match op {
        AOp::Plain => x.op_constu((me.id as u64).wrapping_add(1) & 0xffff),
        AOp::Call(t) => x.op_call(tgt_entry(f, b, me, *t, true)?.1),
        AOp::Param(t) => x.op_gnu_parameter_ref(tgt_entry(f, b, me, *t, true)?.1),
        AOp::Typed(t) => {
            // the operand is a ULEB128 unit offset: only real, earlier DIEs can be targets
            let Tgt::Ent(i) = *t else { return None };
            if i >= me.id && me.id != usize::MAX {
                return None;
            }
            let base = tgt_entry(f, b, me, *t, true)?.1;
            match i % 5 {
                0 => x.op_deref_type(4, base),
                1 => x.op_regval_type(Register(3), base),
                2 => x.op_const_type(base, vec![1, 2, 3, 4].into_boxed_slice()),
                3 => x.op_convert(Some(base)),
                _ => x.op_reinterpret(Some(base)),
            }
        }
        AOp::CallRef(t) => {
            let (u, e) = tgt_entry(f, b, me, *t, false)?;
            x.op_call_ref(DebugInfoRef::Entry(u, e))
        }
        AOp::ImplPtr(t) => {
            let (u, e) = tgt_entry(f, b, me, *t, false)?;
            x.op_implicit_pointer(DebugInfoRef::Entry(u, e), 0)
        }
        AOp::VarVal(t) => {
            let (u, e) = tgt_entry(f, b, me, *t, false)?;
            x.op_variable_value(DebugInfoRef::Entry(u, e))
        }
        AOp::Entry(inner) => {
            let mut n = Expression::new();
            build_op(f, b, me, inner, &mut n)?;
            x.op_entry_value(n)
        }
    }
    Some(())
}

/// nesting beyond this is hand-encoded: `gimli::write` recurses once per nested expression when
/// it sizes and writes (it is not under test here) and would overflow the worker's small stack
const RAW_DEPTH: usize = 80;

fn nest_depth(op: &AOp) -> usize {
    let (mut d, mut o) = (0, op);
    while let AOp::Entry(i) = o {
        d += 1;
        o = i;
    }
    d
}

fn expr_is_raw(ops: &[AOp]) -> bool {
    ops.iter().any(|o| nest_depth(o) > RAW_DEPTH)
}

fn uleb(mut v: u64, out: &mut Vec<u8>) {
    loop {
        let b = (v & 0x7f) as u8;
        v >>= 7;
        if v == 0 {
            out.push(b);
            return;
        }
        out.push(b | 0x80);
    }
}

/// bytes of one operation with every reference operand zero (all of them are patched afterwards)
fn raw_encode_op(f: &Forest, b: &Built, me: &AEntry, op: &AOp) -> Option<Vec<u8>> {
    let enc = f.enc;
    let word = enc.format.word_size() as usize;
    let (depth, mut inner) = (nest_depth(op), op);
    while let AOp::Entry(i) = inner {
        inner = i;
    }
    let mut bytes = match inner {
        AOp::Plain => {
            let mut v = vec![c::DW_OP_constu.0];
            uleb((me.id as u64).wrapping_add(1) & 0xffff, &mut v);
            v
        }
        AOp::Call(t) | AOp::Param(t) => {
            tgt_entry(f, b, me, *t, true)?;
            let mut v = vec![if matches!(inner, AOp::Call(_)) { c::DW_OP_call4.0 } else { c::DW_OP_GNU_parameter_ref.0 }];
            v.extend([0u8; 4]);
            v
        }
        AOp::CallRef(t) | AOp::VarVal(t) => {
            tgt_entry(f, b, me, *t, false)?;
            let mut v = vec![if matches!(inner, AOp::CallRef(_)) { c::DW_OP_call_ref.0 } else { c::DW_OP_GNU_variable_value.0 }];
            v.extend(vec![0u8; word]);
            v
        }
        AOp::ImplPtr(t) => {
            tgt_entry(f, b, me, *t, false)?;
            let mut v = vec![if enc.version >= 5 { c::DW_OP_implicit_pointer.0 } else { c::DW_OP_GNU_implicit_pointer.0 }];
            v.extend(vec![0u8; ref_size_info(enc)]);
            v.push(0); // byte_offset 0 (SLEB128)
            v
        }
        AOp::Typed(_) | AOp::Entry(_) => return None,
    };
    for _ in 0..depth {
        let mut v = vec![if enc.version >= 5 { c::DW_OP_entry_value.0 } else { c::DW_OP_GNU_entry_value.0 }];
        uleb(bytes.len() as u64, &mut v);
        v.extend(bytes);
        bytes = v;
    }
    Some(bytes)
}

fn build_expr(f: &Forest, b: &Built, me: &AEntry, ops: &[AOp]) -> Option<Expression> {
    if expr_is_raw(ops) {
        let mut bytes = Vec::new();
        for op in ops {
            bytes.extend(raw_encode_op(f, b, me, op)?);
        }
        return Some(Expression::raw(bytes));
    }
    let mut x = Expression::new();
    for op in ops {
        build_op(f, b, me, op, &mut x)?;
    }
    Some(x)
}

/// (begin, end) written for a location-list entry of the given kind; `z` is written with a
/// non-empty range (the pre-v5 writer rejects begin == end) and patched afterwards
fn loc_range(kind: char, k: usize, asize: u8, version: u16) -> (u64, u64) {
    let b = 0x1000 + 0x20 * k as u64;
    match kind {
        'z' if version >= 5 => (b, b),
        'n' | 'z' => (b, b + 8),
        'i' => (b + 8, b),
        _ => (mask(asize) - 1, mask(asize)),
    }
}

struct Secs {
    m: BTreeMap<&'static str, Vec<u8>>,
}
impl Secs {
    fn from(s: &Sections<write::EndianVec<LittleEndian>>) -> Secs {
        let mut m = BTreeMap::new();
        let _ = s.for_each(|id, w| -> Result<(), ()> {
            m.insert(id.name(), w.slice().to_vec());
            Ok(())
        });
        Secs { m }
    }
    fn get(&self, id: SectionId) -> &[u8] {
        self.m.get(id.name()).map(|v| &v[..]).unwrap_or(&[])
    }
    fn dwarf(&self) -> read::Dwarf<R<'_>> {
        read::Dwarf::load(|id| -> Result<R<'_>, ()> { Ok(EndianSlice::new(self.get(id), LittleEndian)) }).unwrap()
    }
}

fn name_id(v: Option<read::AttributeValue<R<'_>>>) -> Option<String> {
    match v? {
        read::AttributeValue::String(s) => Some(String::from_utf8_lossy(s.slice()).into_owned()),
        _ => None,
    }
}

fn build_input(f: &Forest) -> Result<Secs, String> {
    let mut dwarf = write::Dwarf::new();
    let mut b = Built { unit_ids: vec![], roots: vec![], ids: vec![] };
    for u in 0..f.nunits {
        let uid = dwarf.units.add(write::Unit::new(f.enc, write::LineProgram::none()));
        let unit = dwarf.units.get_mut(uid);
        let root = unit.root();
        unit.get_mut(root).set(c::DW_AT_name, AttributeValue::String(format!("u{u}").into_bytes()));
        b.unit_ids.push(uid);
        b.roots.push(root);
    }
    for e in &f.entries {
        let unit = dwarf.units.get_mut(b.unit_ids[e.unit]);
        let parent = e.parent.map(|p| b.ids[p]).unwrap_or(b.roots[e.unit]);
        let id = unit.add(parent, gimli::DwTag(e.tag));
        let d = unit.get_mut(id);
        d.set(c::DW_AT_name, AttributeValue::String(format!("e{}", e.id).into_bytes()));
        if e.decl {
            d.set(c::DW_AT_declaration, AttributeValue::FlagPresent);
        }
        b.ids.push(id);
    }
    for e in f.entries.iter().chain(f.roots.iter()) {
        let names = attr_names(&e.attrs).ok_or("too-many-attrs")?;
        for (a, name) in e.attrs.iter().zip(names) {
            let v = match a {
                AAttr::Ref(t) => AttributeValue::UnitRef(tgt_entry(f, &b, e, *t, true).ok_or("bad-target")?.1),
                AAttr::GRef(t) => {
                    let (u, x) = tgt_entry(f, &b, e, *t, false).ok_or("bad-target")?;
                    AttributeValue::DebugInfoRef(DebugInfoRef::Entry(u, x))
                }
                AAttr::Expr(ops) => AttributeValue::Exprloc(build_expr(f, &b, e, ops).ok_or("bad-op")?),
                AAttr::Loc(locs) => {
                    let mut l = Vec::new();
                    for (k, (kind, ops)) in locs.iter().enumerate() {
                        let (begin, end) = loc_range(*kind, k, f.enc.address_size, f.enc.version);
                        l.push(Location::StartEnd { begin: Address::Constant(begin), end: Address::Constant(end), data: build_expr(f, &b, e, ops).ok_or("bad-op")? });
                    }
                    let unit = dwarf.units.get_mut(b.unit_ids[e.unit]);
                    AttributeValue::LocationListRef(unit.locations.add(LocationList(l)))
                }
            };
            let eid = if e.id == usize::MAX { b.roots[e.unit] } else { b.ids[e.id] };
            dwarf.units.get_mut(b.unit_ids[e.unit]).get_mut(eid).set(name, v);
        }
    }
    let mut sections = Sections::new(write::EndianVec::new(LittleEndian));
    dwarf.write(&mut sections).map_err(|e| format!("build-write-{}", werr(&e)))?;
    let mut secs = Secs::from(&sections);
    let patches = find_patches(f, &secs)?;
    for (sec, pos, size, val) in patches {
        let v = secs.m.get_mut(sec).ok_or("patch-section")?;
        if pos + size > v.len() {
            return Err("patch-range".into());
        }
        v[pos..pos + size].copy_from_slice(&val.to_le_bytes()[..size]);
    }
    Ok(secs)
}

/// where is every DIE of the written input: id -> (unit index, unit-relative offset, section offset)
fn locate(f: &Forest, d: &read::Dwarf<R<'_>>) -> Result<(Vec<(usize, usize, usize)>, Vec<(usize, usize, usize)>), String> {
    // returns (per entry id, per unit: (section offset of unit, header size, entries len))
    let mut pos = vec![(0, 0, 0); f.entries.len()];
    let mut units = Vec::new();
    let mut it = d.units();
    let mut ui = 0;
    let mut order = Vec::new();
    while let Some(h) = it.next().map_err(|e| format!("input-{}", rerr(&e)))? {
        let unit = d.unit(h).map_err(|e| format!("input-{}", rerr(&e)))?;
        let base = unit.header.offset().0;
        let hs = unit.header.header_size();
        units.push((base, hs, unit.header.length_including_self() - hs));
        let mut raw = unit.entries_raw(None).map_err(|e| format!("input-{}", rerr(&e)))?;
        let mut e = read::DebuggingInformationEntry::null();
        while !raw.is_empty() {
            if !raw.read_entry(&mut e).map_err(|e| format!("input-{}", rerr(&e)))? {
                continue;
            }
            let Some(n) = name_id(e.attr_value(c::DW_AT_name)) else { return Err("input-noname".into()) };
            if let Some(id) = n.strip_prefix('e').and_then(|x| x.parse::<usize>().ok()) {
                if id >= pos.len() || f.entries[id].unit != ui {
                    return Err("input-id".into());
                }
                pos[id] = (ui, e.offset.0, base + e.offset.0);
                order.push(id);
            }
        }
        ui += 1;
    }
    if ui != f.nunits || order.len() != f.entries.len() || order.windows(2).any(|w| w[0] >= w[1]) {
        // the generator keeps ids in read order (root-level base types first); anything else is a
        // harness problem, reported as a reply the Model never gives
        return Err("bad-order".into());
    }
    Ok((pos, units))
}

fn ref_size_unit(enc: Encoding) -> usize {
    enc.format.word_size() as usize
}
fn ref_size_info(enc: Encoding) -> usize {
    if enc.version == 2 { enc.address_size as usize } else { enc.format.word_size() as usize }
}

/// byte patches (section name, position, size, value) for references to non-DIEs and for empty ranges
fn find_patches(f: &Forest, secs: &Secs) -> Result<Vec<(&'static str, usize, usize, u64)>, String> {
    let needs = f.entries.iter().any(|e| {
        e.attrs.iter().any(|a| match a {
            AAttr::Ref(t) | AAttr::GRef(t) => matches!(t, Tgt::Oob | Tgt::Mid(_)),
            AAttr::Expr(ops) => expr_is_raw(ops) || ops.iter().any(op_needs_patch),
            AAttr::Loc(l) => l.iter().any(|(k, ops)| (*k == 'z' && f.enc.version <= 4) || expr_is_raw(ops) || ops.iter().any(op_needs_patch)),
        })
    });
    let d = secs.dwarf();
    let (pos, units) = locate(f, &d)?;
    if !needs {
        return Ok(vec![]);
    }
    let info = EndianSlice::new(secs.get(SectionId::DebugInfo), LittleEndian);
    let info_len = info.len();
    let unit_val = |me: &AEntry, t: Tgt| -> u64 {
        match t {
            Tgt::Oob => (units[me.unit].1 + units[me.unit].2 + 0x100) as u64,
            Tgt::Mid(i) => pos[i].1 as u64 + 1,
            // valid targets are patched only inside hand-encoded (raw) expressions
            Tgt::Ent(i) => pos[i].1 as u64,
            Tgt::Root(_) => units[me.unit].1 as u64,
        }
    };
    let sec_val = |t: Tgt| -> u64 {
        match t {
            Tgt::Oob => info_len as u64 + 0x100,
            Tgt::Mid(i) => pos[i].2 as u64 + 1,
            Tgt::Ent(i) => pos[i].2 as u64,
            Tgt::Root(u) => (units[u].0 + units[u].1) as u64,
        }
    };
    let mut out = Vec::new();
    let mut it = d.units();
    while let Some(h) = it.next().map_err(|e| format!("input-{}", rerr(&e)))? {
        let unit = d.unit(h).map_err(|e| format!("input-{}", rerr(&e)))?;
        let uref = unit.unit_ref(&d);
        let enc = unit.encoding();
        let base = unit.header.offset().0;
        let mut raw = unit.entries_raw(None).map_err(|e| format!("input-{}", rerr(&e)))?;
        while !raw.is_empty() {
            let Some(abbrev) = raw.read_abbreviation().map_err(|e| format!("input-{}", rerr(&e)))? else { continue };
            let mut me: Option<&AEntry> = None;
            let mut names: Vec<gimli::DwAt> = vec![];
            for spec in abbrev.attributes() {
                let at = base + raw.next_offset().0;
                let attr = raw.read_attribute(*spec).map_err(|e| format!("input-{}", rerr(&e)))?;
                if attr.name() == c::DW_AT_name {
                    if let Some(id) = name_id(Some(attr.value())).and_then(|n| n.strip_prefix('e').and_then(|x| x.parse::<usize>().ok())) {
                        me = f.entries.get(id);
                        names = me.and_then(|m| attr_names(&m.attrs)).unwrap_or_default();
                    }
                    continue;
                }
                let Some(m) = me else { continue };
                let Some(k) = names.iter().position(|n| *n == attr.name()) else { continue };
                match (&m.attrs[k], attr.value()) {
                    (AAttr::Ref(t), read::AttributeValue::UnitRef(_)) => {
                        if matches!(t, Tgt::Oob | Tgt::Mid(_)) {
                            out.push((".debug_info", at, ref_size_unit(enc), unit_val(m, *t)));
                        }
                    }
                    (AAttr::GRef(t), read::AttributeValue::DebugInfoRef(_)) => {
                        if matches!(t, Tgt::Oob | Tgt::Mid(_)) {
                            out.push((".debug_info", at, ref_size_info(enc), sec_val(*t)));
                        }
                    }
                    (AAttr::Expr(ops), read::AttributeValue::Exprloc(x)) => {
                        let p = x.0.offset_from(info);
                        patch_expr(m, ops, x, p, enc, ".debug_info", &unit_val, &sec_val, expr_is_raw(ops), &mut out)?;
                    }
                    (AAttr::Loc(locs), read::AttributeValue::LocationListsRef(off)) => {
                        let (sname, sid) = if enc.version >= 5 { (".debug_loclists", SectionId::DebugLocLists) } else { (".debug_loc", SectionId::DebugLoc) };
                        let sec = EndianSlice::new(secs.get(sid), LittleEndian);
                        let mut rl = uref.raw_locations(off).map_err(|e| format!("input-{}", rerr(&e)))?;
                        let mut k = 0;
                        while let Some(le) = rl.next().map_err(|e| format!("input-{}", rerr(&e)))? {
                            let data = match le {
                                read::RawLocListEntry::AddressOrOffsetPair { data, .. } | read::RawLocListEntry::StartEnd { data, .. } => data,
                                _ => return Err("input-loc-kind".into()),
                            };
                            let Some((kind, ops)) = locs.get(k) else { return Err("input-loc-count".into()) };
                            let p = data.0.offset_from(sec);
                            if *kind == 'z' && enc.version <= 4 {
                                // (begin, end) (u16 length) data: make end equal to begin
                                let asz = enc.address_size as usize;
                                let (b, _) = loc_range('z', k, enc.address_size, enc.version);
                                out.push((sname, p - 2 - asz, asz, b));
                            }
                            patch_expr(m, ops, data, p, enc, sname, &unit_val, &sec_val, expr_is_raw(ops), &mut out)?;
                            k += 1;
                        }
                        if k != locs.len() {
                            return Err("input-loc-count".into());
                        }
                    }
                    _ => return Err("input-attr-class".into()),
                }
            }
        }
    }
    Ok(out)
}

fn op_needs_patch(op: &AOp) -> bool {
    match op {
        AOp::Plain => false,
        AOp::Call(t) | AOp::CallRef(t) | AOp::Typed(t) | AOp::Param(t) | AOp::ImplPtr(t) | AOp::VarVal(t) => matches!(t, Tgt::Oob | Tgt::Mid(_)),
        AOp::Entry(i) => op_needs_patch(i),
    }
}

#[allow(clippy::too_many_arguments)]
fn patch_expr(
    me: &AEntry,
    ops: &[AOp],
    x: read::Expression<R<'_>>,
    xpos: usize,
    enc: Encoding,
    sec: &'static str,
    unit_val: &dyn Fn(&AEntry, Tgt) -> u64,
    sec_val: &dyn Fn(Tgt) -> u64,
    raw: bool,
    out: &mut Vec<(&'static str, usize, usize, u64)>,
) -> Result<(), String> {
    let mut it = x.clone().operations(enc);
    let mut k = 0;
    loop {
        let at = it.offset_from(&x);
        let Some(op) = it.next().map_err(|e| format!("input-expr-{}", rerr(&e)))? else { break };
        let Some(a) = ops.get(k) else { return Err("input-expr-count".into()) };
        k += 1;
        let bad = |t: &Tgt| raw || matches!(t, Tgt::Oob | Tgt::Mid(_));
        match a {
            AOp::Call(t) | AOp::Param(t) if bad(t) => out.push((sec, xpos + at + 1, 4, unit_val(me, *t))),
            AOp::CallRef(t) | AOp::VarVal(t) if bad(t) => out.push((sec, xpos + at + 1, enc.format.word_size() as usize, sec_val(*t))),
            AOp::ImplPtr(t) if bad(t) => out.push((sec, xpos + at + 1, ref_size_info(enc), sec_val(*t))),
            AOp::Typed(t) if bad(t) => return Err("unsupported-typed-target".into()),
            AOp::Entry(inner) if raw || op_needs_patch(inner) => {
                let read::Operation::EntryValue { expression } = op else { return Err("input-expr-class".into()) };
                let p = xpos + expression.offset_from(x.0);
                patch_expr(me, std::slice::from_ref(inner), read::Expression(expression), p, enc, sec, unit_val, sec_val, raw, out)?;
            }
            _ => {}
        }
    }
    if k != ops.len() {
        return Err("input-expr-count".into());
    }
    Ok(())
}

// ---------------------------------------------------------------- reading a DWARF back, canonically

#[derive(Debug, Clone, PartialEq)]
struct OutEntry {
    label: String,
    parent: String,
    tag: u16,
    attrs: Vec<String>,
}

struct OutDwarf {
    /// per unit, in order
    units: Vec<Vec<OutEntry>>,
    dangling: Vec<String>,
}

fn canon_ops(x: read::Expression<R<'_>>, enc: Encoding, ubase: usize, labels: &HashMap<usize, String>, dangling: &mut Vec<String>, who: &str) -> String {
    let mut out = Vec::new();
    let mut it = x.operations(enc);
    fn lab(o: usize, labels: &HashMap<usize, String>, dangling: &mut Vec<String>, who: &str) -> String {
        match labels.get(&o) {
            Some(l) => l.clone(),
            None => {
                dangling.push(format!("{who}->{o:#x}"));
                "?".into()
            }
        }
    }
    loop {
        match it.next() {
            Ok(None) => break,
            Err(e) => {
                out.push(format!("!{}", rerr(&e)));
                break;
            }
            Ok(Some(op)) => out.push(match op {
                read::Operation::Deref { base_type, size, space } if base_type.0 != 0 => format!("deref_type({size},{space},{})", lab(ubase + base_type.0, labels, dangling, who)),
                read::Operation::RegisterOffset { register, offset, base_type } if base_type.0 != 0 => format!("regval_type({},{offset},{})", register.0, lab(ubase + base_type.0, labels, dangling, who)),
                read::Operation::TypedLiteral { base_type, value } => format!("const_type({},{:?})", lab(ubase + base_type.0, labels, dangling, who), value.slice()),
                read::Operation::Convert { base_type } if base_type.0 != 0 => format!("convert({})", lab(ubase + base_type.0, labels, dangling, who)),
                read::Operation::Reinterpret { base_type } if base_type.0 != 0 => format!("reinterpret({})", lab(ubase + base_type.0, labels, dangling, who)),
                read::Operation::ParameterRef { offset } => format!("parameter_ref({})", lab(ubase + offset.0, labels, dangling, who)),
                read::Operation::Call { offset: read::DieReference::UnitRef(o) } => format!("call({})", lab(ubase + o.0, labels, dangling, who)),
                read::Operation::Call { offset: read::DieReference::DebugInfoRef(o) } => format!("call_ref({})", lab(o.0, labels, dangling, who)),
                read::Operation::VariableValue { offset } => format!("variable_value({})", lab(offset.0, labels, dangling, who)),
                read::Operation::ImplicitPointer { value, byte_offset } => format!("implicit_pointer({},{byte_offset})", lab(value.0, labels, dangling, who)),
                read::Operation::EntryValue { expression } => format!("entry_value[{}]", canon_ops(read::Expression(expression), enc, ubase, labels, dangling, who)),
                other => format!("{other:?}"),
            }),
        }
    }
    out.join(" ")
}

fn read_out(secs: &Secs) -> Result<OutDwarf, String> {
    let d = secs.dwarf();
    // pass 1: labels of every DIE
    let mut labels: HashMap<usize, String> = HashMap::new();
    let mut heads = Vec::new();
    let mut it = d.units();
    while let Some(h) = it.next().map_err(|e| format!("out-{}", rerr(&e)))? {
        heads.push(h);
    }
    for h in &heads {
        let unit = d.unit(*h).map_err(|e| format!("out-{}", rerr(&e)))?;
        let base = unit.header.offset().0;
        let mut raw = unit.entries_raw(None).map_err(|e| format!("out-{}", rerr(&e)))?;
        let mut e = read::DebuggingInformationEntry::null();
        while !raw.is_empty() {
            if !raw.read_entry(&mut e).map_err(|e| format!("out-{}", rerr(&e)))? {
                continue;
            }
            let n = name_id(e.attr_value(c::DW_AT_name)).unwrap_or_else(|| format!("anon@{:#x}", base + e.offset.0));
            labels.insert(base + e.offset.0, n);
        }
    }
    let mut out = OutDwarf { units: vec![], dangling: vec![] };
    for h in &heads {
        let unit = d.unit(*h).map_err(|e| format!("out-{}", rerr(&e)))?;
        let uref = unit.unit_ref(&d);
        let enc = unit.encoding();
        let base = unit.header.offset().0;
        let mut raw = unit.entries_raw(None).map_err(|e| format!("out-{}", rerr(&e)))?;
        let mut e = read::DebuggingInformationEntry::null();
        let mut stack: Vec<(isize, String)> = Vec::new();
        let mut ents = Vec::new();
        while !raw.is_empty() {
            if !raw.read_entry(&mut e).map_err(|e| format!("out-{}", rerr(&e)))? {
                continue;
            }
            let label = labels[&(base + e.offset.0)].clone();
            while stack.last().map_or(false, |p| p.0 >= e.depth) {
                stack.pop();
            }
            let parent = stack.last().map(|p| p.1.clone()).unwrap_or_else(|| "-".into());
            if e.has_children() {
                stack.push((e.depth, label.clone()));
            }
            let mut attrs = Vec::new();
            for a in e.attrs() {
                if a.name() == c::DW_AT_name || a.name() == c::DW_AT_sibling {
                    continue;
                }
                let lab = |o: usize, dang: &mut Vec<String>| -> String {
                    match labels.get(&o) {
                        Some(l) => l.clone(),
                        None => {
                            dang.push(format!("{label}->{o:#x}"));
                            "?".into()
                        }
                    }
                };
                let v = match a.value() {
                    read::AttributeValue::UnitRef(o) => format!("ref({})", lab(base + o.0, &mut out.dangling)),
                    read::AttributeValue::DebugInfoRef(o) => format!("gref({})", lab(o.0, &mut out.dangling)),
                    read::AttributeValue::Exprloc(x) => format!("expr[{}]", canon_ops(x, enc, base, &labels, &mut out.dangling, &label)),
                    read::AttributeValue::LocationListsRef(off) => {
                        let mut s = Vec::new();
                        match uref.raw_locations(off) {
                            Err(e) => s.push(format!("!{}", rerr(&e))),
                            Ok(mut rl) => loop {
                                match rl.next() {
                                    Ok(None) => break,
                                    Err(e) => {
                                        s.push(format!("!{}", rerr(&e)));
                                        break;
                                    }
                                    Ok(Some(le)) => s.push(match le {
                                        read::RawLocListEntry::AddressOrOffsetPair { begin, end, data } | read::RawLocListEntry::StartEnd { begin, end, data } => {
                                            format!("{begin:#x}..{end:#x}:[{}]", canon_ops(data, enc, base, &labels, &mut out.dangling, &label))
                                        }
                                        other => format!("{other:?}"),
                                    }),
                                }
                            },
                        }
                        format!("loc{{{}}}", s.join("; "))
                    }
                    other => format!("{other:?}"),
                };
                attrs.push(format!("{}={}", a.name(), v));
            }
            ents.push(OutEntry { label, parent, tag: e.tag().0, attrs });
        }
        out.units.push(ents);
    }
    Ok(out)
}

// ---------------------------------------------------------------- the conversion under test

enum Conv {
    Ok(Secs),
    FilterErr(String),
    ConvErr(String),
    WriteErr(String),
}

fn cerr(e: &write::ConvertError) -> String {
    let s = format!("{:?}", e);
    let end = s.find(|c: char| c == '(' || c == ' ' || c == '{').unwrap_or(s.len());
    format!("C.{}", &s[..end])
}

fn convert(input: &Secs, required: Option<&BTreeSet<usize>>) -> Conv {
    let d = input.dwarf();
    let mut out = write::Dwarf::new();
    let addr = |a: u64| Some(Address::Constant(a));
    let res: Result<(), Conv> = (|| {
        let mut convert = match required {
            None => out.convert(&d).map_err(|e| Conv::ConvErr(cerr(&e)))?,
            Some(req) => {
                let mut filter = write::FilterUnitSection::new(&d).map_err(|e| Conv::FilterErr(cerr(&e)))?;
                while let Some(mut unit) = filter.read_unit().map_err(|e| Conv::FilterErr(cerr(&e)))? {
                    let mut entry = unit.null_entry();
                    while unit.read_entry(&mut entry).map_err(|e| Conv::FilterErr(cerr(&e)))? {
                        let id = name_id(entry.attr_value(c::DW_AT_name)).and_then(|n| n.strip_prefix('e').and_then(|x| x.parse::<usize>().ok()));
                        if id.map_or(false, |i| req.contains(&i)) {
                            unit.require_entry(entry.offset);
                        }
                    }
                }
                out.convert_with_filter(filter).map_err(|e| Conv::ConvErr(cerr(&e)))?
            }
        };
        while let Some((mut unit, root)) = convert.read_unit().map_err(|e| Conv::ConvErr(cerr(&e)))? {
            unit.convert(root, &addr).map_err(|e| Conv::ConvErr(cerr(&e)))?;
        }
        Ok(())
    })();
    if let Err(c) = res {
        return c;
    }
    let mut sections = Sections::new(write::EndianVec::new(LittleEndian));
    match out.write(&mut sections) {
        Ok(()) => Conv::Ok(Secs::from(&sections)),
        Err(e) => Conv::WriteErr(werr(&e)),
    }
}

/// a one-unit section with only a root DIE: the skeleton unit of the split-DWARF path
fn skeleton(enc: Encoding) -> Option<Secs> {
    let mut dwarf = write::Dwarf::new();
    let uid = dwarf.units.add(write::Unit::new(enc, write::LineProgram::none()));
    let unit = dwarf.units.get_mut(uid);
    let root = unit.root();
    unit.get_mut(root).set(c::DW_AT_name, AttributeValue::String(b"skel".to_vec()));
    let mut sections = Sections::new(write::EndianVec::new(LittleEndian));
    dwarf.write(&mut sections).ok()?;
    Some(Secs::from(&sections))
}

/// split DWARF: the forest is the split unit of a skeleton; `FilterUnitSection::new_split` +
/// `ConvertUnit::convert_split_with_filter` (filtered) or `convert_split` (unfiltered).
/// `probe` only walks `read_entry` and returns the reserved ids.
fn convert_split(input: &Secs, skel: &Secs, required: Option<&BTreeSet<usize>>, probe: Option<&mut BTreeSet<usize>>) -> Conv {
    let d_skel = skel.dwarf();
    let d_split = input.dwarf();
    let mut out = write::Dwarf::new();
    let addr = |a: u64| Some(Address::Constant(a));
    let mut probe = probe;
    let res: Result<(), Conv> = (|| {
        let mut convert = out.convert(&d_skel).map_err(|e| Conv::ConvErr(cerr(&e)))?;
        while let Some((mut unit, _root)) = convert.read_unit().map_err(|e| Conv::ConvErr(cerr(&e)))? {
            match required {
                None => {
                    let mut cs = unit.convert_split(&d_split).map_err(|e| Conv::ConvErr(cerr(&e)))?;
                    let (mut su, sroot) = cs.read_unit().map_err(|e| Conv::ConvErr(cerr(&e)))?;
                    su.convert(sroot, &addr).map_err(|e| Conv::ConvErr(cerr(&e)))?;
                }
                Some(req) => {
                    let mut filter = write::FilterUnitSection::new_split(&d_split, unit.read_unit).map_err(|e| Conv::FilterErr(cerr(&e)))?;
                    while let Some(mut fu) = filter.read_unit().map_err(|e| Conv::FilterErr(cerr(&e)))? {
                        let mut entry = fu.null_entry();
                        while fu.read_entry(&mut entry).map_err(|e| Conv::FilterErr(cerr(&e)))? {
                            let id = name_id(entry.attr_value(c::DW_AT_name)).and_then(|n| n.strip_prefix('e').and_then(|x| x.parse::<usize>().ok()));
                            if id.map_or(false, |i| req.contains(&i)) {
                                fu.require_entry(entry.offset);
                            }
                        }
                    }
                    let mut cs = unit.convert_split_with_filter(filter).map_err(|e| Conv::ConvErr(cerr(&e)))?;
                    let (mut su, sroot) = cs.read_unit().map_err(|e| Conv::ConvErr(cerr(&e)))?;
                    if let Some(k) = probe.as_deref_mut() {
                        let mut entry = sroot;
                        while let Some(id) = su.read_entry(&mut entry).map_err(|e| Conv::ConvErr(cerr(&e)))? {
                            if id.is_some() {
                                if let Some(i) = name_id(entry.attr_value(c::DW_AT_name)).and_then(|n| n.strip_prefix('e').and_then(|x| x.parse::<usize>().ok())) {
                                    k.insert(i);
                                }
                            }
                        }
                    } else {
                        su.convert(sroot, &addr).map_err(|e| Conv::ConvErr(cerr(&e)))?;
                    }
                }
            }
        }
        Ok(())
    })();
    if let Err(c) = res {
        return c;
    }
    if probe.is_some() {
        return Conv::ConvErr("probe".into());
    }
    let mut sections = Sections::new(write::EndianVec::new(LittleEndian));
    match out.write(&mut sections) {
        Ok(()) => Conv::Ok(Secs::from(&sections)),
        Err(e) => Conv::WriteErr(werr(&e)),
    }
}

/// the set of entries the filter reserved, observed through `ConvertUnit::read_entry` (it returns
/// `Some(id)` exactly for reserved entries) — available even when the conversion itself fails
fn probe_reserved(input: &Secs, req: &BTreeSet<usize>) -> Option<BTreeSet<usize>> {
    let d = input.dwarf();
    let mut out = write::Dwarf::new();
    let mut filter = write::FilterUnitSection::new(&d).ok()?;
    while let Some(mut unit) = filter.read_unit().ok()? {
        let mut entry = unit.null_entry();
        while unit.read_entry(&mut entry).ok()? {
            let id = name_id(entry.attr_value(c::DW_AT_name)).and_then(|n| n.strip_prefix('e').and_then(|x| x.parse::<usize>().ok()));
            if id.map_or(false, |i| req.contains(&i)) {
                unit.require_entry(entry.offset);
            }
        }
    }
    let mut convert = out.convert_with_filter(filter).ok()?;
    let mut k = BTreeSet::new();
    while let Some((mut unit, root)) = convert.read_unit().ok()? {
        let mut entry = root;
        while let Some(id) = unit.read_entry(&mut entry).ok()? {
            if id.is_some() {
                if let Some(i) = name_id(entry.attr_value(c::DW_AT_name)).and_then(|n| n.strip_prefix('e').and_then(|x| x.parse::<usize>().ok())) {
                    k.insert(i);
                }
            }
        }
    }
    Some(k)
}

// ---------------------------------------------------------------- direct oracle

/// tags the property text calls member-like ("parameters, members, local variables, blocks and the
/// like"): written by hand from the DWARF standard, NOT derived from the code under test
const MEMBER_LIKE: &[u16] = &[
    0x05, // formal_parameter
    0x0d, // member
    0x34, // variable
    0x0b, // lexical_block
    0x1d, // inlined_subroutine
    0x28, // enumerator
    0x18, // unspecified_parameters
    0x1c, // inheritance
    0x2f, // template_type_parameter
    0x30, // template_value_parameter
    0x0a, // label
    0x21, // subrange_type
    0x19, // variant
    0x33, // variant_part
    0x48, // call_site
    0x49, // call_site_parameter
    0x4109, // GNU_call_site
    0x410a, // GNU_call_site_parameter
];
const NAMESPACE: u16 = 0x39;
const SUBPROGRAM: u16 = 0x2e;

/// `MAX_ENTRY_VALUE_DEPTH` of src/write/op.rs (fix 8679173; the Model takes it from the source): an
/// operation nested in more DW_OP_entry_value operations than this can never be converted
/// (`Expression::from_nested` rejects it) and the filter does not descend to it
const MAX_NEST: usize = 64;

fn op_targets(op: &AOp, all: bool, out: &mut Vec<Tgt>) {
    op_targets_bounded(op, all, usize::MAX, out)
}

/// `max_nest`: targets nested in more than this many DW_OP_entry_value operations are left out — for
/// the *lower* closure bound: an expression nested deeper makes the conversion of its entry fail, and
/// where that entry is not converted at all (a later unit of a split section) nothing refers to the
/// target from the output
fn op_targets_bounded(op: &AOp, all: bool, max_nest: usize, out: &mut Vec<Tgt>) {
    if nest_depth(op) > max_nest {
        return;
    }
    match op {
        AOp::Plain => {}
        AOp::Call(t) | AOp::CallRef(t) | AOp::Typed(t) | AOp::Param(t) => out.push(*t),
        AOp::ImplPtr(t) | AOp::VarVal(t) => {
            if all {
                out.push(*t)
            }
        }
        AOp::Entry(i) => {
            if all {
                op_targets(i, all, out)
            }
        }
    }
}

/// entry ids referenced by `e`; `all` = everything the DWARF says, otherwise without the reference
/// kinds used only to label a known finding (implicit_pointer, variable_value, nested entry_value,
/// location-list entries with an empty/inverted/tombstone range)
fn refs_of(e: &AEntry, all: bool) -> Vec<usize> {
    refs_of_bounded(e, all, usize::MAX)
}

fn refs_of_bounded(e: &AEntry, all: bool, max_nest: usize) -> Vec<usize> {
    let mut t = Vec::new();
    for a in &e.attrs {
        match a {
            AAttr::Ref(x) | AAttr::GRef(x) => t.push(*x),
            AAttr::Expr(ops) => ops.iter().for_each(|o| op_targets_bounded(o, all, max_nest, &mut t)),
            AAttr::Loc(l) => l.iter().for_each(|(k, ops)| {
                if all || *k == 'n' {
                    ops.iter().for_each(|o| op_targets_bounded(o, all, max_nest, &mut t))
                }
            }),
        }
    }
    t.into_iter().filter_map(|x| if let Tgt::Ent(i) = x { Some(i) } else { None }).collect()
}

/// does a kept entry reference, only through a kind of reference of class `unrecorded_op` /
/// skipped location entry, an entry that was not kept?
fn lost_target(f: &Forest, kept: &BTreeSet<usize>, want_op: bool) -> bool {
    fn unrec(op: &AOp) -> bool {
        matches!(op, AOp::ImplPtr(_) | AOp::VarVal(_) | AOp::Entry(_))
    }
    fn tgt(op: &AOp) -> Option<usize> {
        match op {
            AOp::Plain => None,
            AOp::Call(t) | AOp::CallRef(t) | AOp::Typed(t) | AOp::Param(t) | AOp::ImplPtr(t) | AOp::VarVal(t) => if let Tgt::Ent(i) = t { Some(*i) } else { None },
            AOp::Entry(i) => tgt(i),
        }
    }
    f.entries.iter().filter(|e| kept.contains(&e.id)).any(|e| {
        e.attrs.iter().any(|a| {
            let lost = |o: &AOp, skipped: bool| tgt(o).map_or(false, |t| !kept.contains(&t)) && if want_op { unrec(o) } else { skipped && !unrec(o) };
            match a {
                AAttr::Expr(ops) => ops.iter().any(|o| lost(o, false)),
                AAttr::Loc(l) => l.iter().any(|(k, ops)| ops.iter().any(|o| lost(o, *k != 'n'))),
                _ => false,
            }
        })
    })
}

fn closure(f: &Forest, all_refs: bool, every_child: bool) -> BTreeSet<usize> {
    // the lower bound (`every_child == false`) does not demand targets that only an unconvertible
    // nesting depth reaches; the upper bound allows them
    let max_nest = if every_child { usize::MAX } else { MAX_NEST };
    let refs_of = |e: &AEntry, all: bool| refs_of_bounded(e, all, max_nest);
    let mut s: BTreeSet<usize> = f.required.clone();
    // the unit root DIEs are always part of the output: what they reference must be kept
    for r in &f.roots {
        s.extend(refs_of(r, all_refs));
    }
    loop {
        let mut add = Vec::new();
        for e in &f.entries {
            if s.contains(&e.id) {
                if let Some(p) = e.parent {
                    add.push(p);
                }
                add.extend(refs_of(e, all_refs));
            } else if let Some(p) = e.parent {
                let pe = &f.entries[p];
                let member = every_child || (pe.tag != NAMESPACE && (MEMBER_LIKE.contains(&e.tag) || (e.tag == SUBPROGRAM && e.decl)));
                if s.contains(&p) && member {
                    add.push(e.id);
                }
            }
        }
        let n = s.len();
        s.extend(add.into_iter().filter(|i| *i < f.entries.len()));
        if s.len() == n {
            return s;
        }
    }
}

fn oracle(f: &Forest, split: bool, filtered: &Conv, unfiltered: &Conv, fo: Option<&OutDwarf>, uo: Option<&OutDwarf>, kept: Option<&BTreeSet<usize>>) -> Option<String> {
    // a split conversion converts the first unit of the split section only: of the closure (which
    // ranges over the whole section the filter walked) exactly the part inside that unit is expected
    let restrict = |s: BTreeSet<usize>| -> BTreeSet<usize> { if split { s.into_iter().filter(|i| f.entries[*i].unit == 0).collect() } else { s } };
    match (filtered, unfiltered) {
        (Conv::WriteErr(e), _) => {
            // name the behaviour of the repaired finding C19-4 (fix aa527e6): a DIE of the converted
            // split unit references (by section offset) a DIE of a later unit of the split section
            fn info_tgt(op: &AOp) -> Option<usize> {
                match op {
                    AOp::CallRef(Tgt::Ent(i)) | AOp::ImplPtr(Tgt::Ent(i)) | AOp::VarVal(Tgt::Ent(i)) => Some(*i),
                    AOp::Entry(i) => info_tgt(i),
                    _ => None,
                }
            }
            let foreign = split
                && f.entries.iter().filter(|e| e.unit == 0).any(|e| {
                    e.attrs.iter().any(|a| match a {
                        AAttr::GRef(Tgt::Ent(i)) => f.entries[*i].unit != 0,
                        AAttr::Expr(ops) => ops.iter().any(|o| info_tgt(o).map_or(false, |i| f.entries[i].unit != 0)),
                        AAttr::Loc(l) => l.iter().any(|(_, ops)| ops.iter().any(|o| info_tgt(o).map_or(false, |i| f.entries[i].unit != 0))),
                        _ => false,
                    })
                });
            return Some(format!("{} {e}", if foreign { "write-failed-foreign-split-ref" } else { "write-failed" }));
        }
        (Conv::FilterErr(e), Conv::Ok(_)) => return Some(format!("filter-fails {e}")),
        (Conv::ConvErr(e), Conv::Ok(_)) => {
            // name the cause: the behaviour of the repaired findings C19-3 (a root-DIE reference),
            // C19-1 / C19-2 (a reserved entry references, through an operation or
            // location-list entry the filter used to ignore, an entry that was not reserved)
            let root_lost = |k: &BTreeSet<usize>| f.roots.iter().any(|r| refs_of(r, true).iter().any(|t| !k.contains(t)));
            let class = match kept {
                Some(k) if root_lost(k) => "convfail-root-ref",
                Some(k) if lost_target(f, k, true) => "convfail-unrecorded-op",
                Some(k) if lost_target(f, k, false) => "convfail-skipped-loc",
                _ => "convfail",
            };
            return Some(format!("{class} {e}"));
        }
        (Conv::ConvErr(_), _) | (Conv::FilterErr(_), _) => {
            // the input itself cannot be converted (it has references to non-DIEs): the reserved
            // set is still observable and must respect the closure bounds
            if let Some(k) = kept {
                let lower = restrict(closure(f, false, false));
                let upper = restrict(closure(f, true, true));
                if let Some(m) = lower.iter().find(|i| !k.contains(i)) {
                    return Some(format!("missing-closure e{m}"));
                }
                if let Some(m) = k.iter().find(|i| !upper.contains(i)) {
                    return Some(format!("unconnected-entry e{m}"));
                }
            }
            return None;
        }
        _ => {}
    }
    let (Some(fo), Conv::Ok(_)) = (fo, filtered) else { return None };
    let present: BTreeSet<usize> = fo.units.iter().flatten().filter_map(|e| e.label.strip_prefix('e').and_then(|x| x.parse().ok())).collect();
    // closure bounds are meaningful whenever the filtered conversion succeeded
    let lower = restrict(closure(f, true, false));
    let upper = restrict(closure(f, true, true));
    if let Some(m) = lower.iter().find(|i| !present.contains(i)) {
        return Some(format!("missing-closure e{m}"));
    }
    if let Some(m) = present.iter().find(|i| !upper.contains(i)) {
        return Some(format!("unconnected-entry e{m}"));
    }
    if !fo.dangling.is_empty() {
        // a reference that was already dangling in the input (out-of-bounds) cannot survive a
        // successful conversion, so anything here was produced by the filter
        return Some(format!("dangling-ref {}", fo.dangling[0]));
    }
    if let Some(uo) = uo {
        let all: HashMap<&str, &OutEntry> = uo.units.iter().flatten().map(|e| (e.label.as_str(), e)).collect();
        if fo.units.len() != uo.units.len() {
            return Some("unit-count".into());
        }
        for (ui, unit) in fo.units.iter().enumerate() {
            for e in unit {
                match all.get(e.label.as_str()) {
                    None => return Some(format!("invented-entry {}", e.label)),
                    Some(u) => {
                        if !uo.units[ui].iter().any(|x| x.label == e.label) {
                            return Some(format!("moved-unit {}", e.label));
                        }
                        if u.tag != e.tag || u.parent != e.parent {
                            return Some(format!("tree-differs {}", e.label));
                        }
                        if u.attrs != e.attrs {
                            return Some(format!("attrs-differ {} {:?} vs {:?}", e.label, e.attrs, u.attrs).replace(' ', "_").replacen('_', " ", 1));
                        }
                    }
                }
            }
        }
    }
    None
}

// ---------------------------------------------------------------- handler

pub fn handle(op: &str, a: &[&str]) -> Option<String> {
    if op != "flt-conv" && op != "flt-split" {
        return None;
    }
    let split = op == "flt-split";
    let f = parse(a)?;
    if split && (f.nunits == 0 || a.len() != 7) {
        return None;
    }
    let input = match build_input(&f) {
        Ok(s) => s,
        Err(e) => return Some(format!("unsupported {e}")),
    };
    let skel = if split { Some(skeleton(f.enc)?) } else { None };
    let (filtered, unfiltered) = match &skel {
        Some(sk) => (convert_split(&input, sk, Some(&f.required), None), convert_split(&input, sk, None, None)),
        None => (convert(&input, Some(&f.required)), convert(&input, None)),
    };
    let fo = if let Conv::Ok(s) = &filtered { Some(read_out(s)) } else { None };
    let uo = if let Conv::Ok(s) = &unfiltered { read_out(s).ok() } else { None };
    let reply = match (&filtered, &fo) {
        (Conv::Ok(_), Some(Ok(o))) => {
            let units: Vec<String> = o
                .units
                .iter()
                .map(|u| {
                    let v: Vec<String> = u
                        .iter()
                        .filter(|e| e.label.starts_with('e'))
                        .map(|e| format!("{}^{}", &e.label[1..], if e.parent.starts_with('e') { e.parent[1..].to_string() } else { "R".into() }))
                        .collect();
                    if v.is_empty() { "-".into() } else { v.join(",") }
                })
                .collect();
            format!("ok {}", units.join("/"))
        }
        (Conv::Ok(_), Some(Err(e))) => format!("err readback-{e}"),
        (Conv::FilterErr(e), _) => format!("err F{e}"),
        (Conv::ConvErr(e), _) => format!("err {e}"),
        (Conv::WriteErr(e), _) => format!("err {e}"),
        _ => "err ?".into(),
    };
    let fo_ok = fo.as_ref().and_then(|r| r.as_ref().ok());
    let kept = if matches!(filtered, Conv::ConvErr(_)) {
        match &skel {
            Some(sk) => {
                let mut k = BTreeSet::new();
                let _ = convert_split(&input, sk, Some(&f.required), Some(&mut k));
                Some(k)
            }
            None => probe_reserved(&input, &f.required),
        }
    } else {
        None
    };
    let o = match (&filtered, &fo) {
        (Conv::Ok(_), Some(Err(e))) => Some(format!("readback-fails {e}")),
        _ => oracle(&f, split, &filtered, &unfiltered, fo_ok, uo.as_ref(), kept.as_ref()),
    };
    Some(match o {
        Some(w) => format!("{reply} #oracle:{w}"),
        None => reply,
    })
}

// ---------------------------------------------------------------- generator

const T_BASE: u16 = 0x24;
const STANDALONE: &[u16] = &[0x24, 0x13, 0x0f, 0x16, 0x39, 0x04, 0x02, 0x17, 0x15, 0x1e, 0x08, 0x26, 0x01, 0x36, 0x3a, 0x3b];
const MEMBERISH: &[u16] = &[0x34, 0x05, 0x0d, 0x0b, 0x1d, 0x28, 0x2f, 0x21, 0x18, 0x1c, 0x0a, 0x48, 0x4109, 0x19, 0x30, 0x33];
/// every DW_TAG value of DWARF 2-5 plus vendor tags gimli knows and two it does not
const ALL_TAGS: &[u16] = &[
    0x01, 0x02, 0x03, 0x04, 0x05, 0x08, 0x0a, 0x0b, 0x0d, 0x0f, 0x10, 0x11, 0x12, 0x13, 0x15, 0x16, 0x17, 0x18, 0x19, 0x1a, 0x1b, 0x1c, 0x1d, 0x1e, 0x1f, 0x20, 0x21, 0x22, 0x23, 0x24, 0x25, 0x26,
    0x27, 0x28, 0x29, 0x2a, 0x2b, 0x2c, 0x2d, 0x2e, 0x2f, 0x30, 0x31, 0x32, 0x33, 0x34, 0x35, 0x36, 0x37, 0x38, 0x39, 0x3a, 0x3b, 0x3c, 0x3d, 0x3f, 0x40, 0x41, 0x42, 0x43, 0x44, 0x45, 0x46, 0x47,
    0x48, 0x49, 0x4a, 0x4b, 0x4081, 0x4101, 0x4106, 0x4107, 0x4108, 0x4109, 0x410a, 0x4200, 0x5101, 0x8765, 0xffff,
];

#[derive(Clone, Copy)]
struct Style {
    /// references to the root, out of bounds, into the middle of a DIE
    invalid: bool,
    /// historical stream selector (the reference kinds of the repaired findings C19-1/2/3 —
    /// implicit_pointer, variable_value, entry_value nesting, skipped location-list entries with
    /// references, unit roots that reference DIEs — are generated in every stream now)
    finding_kinds: bool,
    /// split sections: the first unit does not reference DIEs of later units by section offset
    /// (such a reference makes both split conversions fail with InvalidDebugInfoRef; before fix
    /// aa527e6 the filtered one failed in write: finding C19-4); later units still reference the first
    split_clean: bool,
}

fn tgt_str(t: Tgt) -> String {
    match t {
        Tgt::Ent(i) => i.to_string(),
        Tgt::Root(u) => format!("R{u}"),
        Tgt::Oob => "O".into(),
        Tgt::Mid(i) => format!("M{i}"),
    }
}

struct GEntry {
    unit: usize,
    parent: Option<usize>,
    tag: u16,
    decl: bool,
    attrs: Vec<String>,
}

fn gen_forest(rng: &mut Rng, n: usize, nunits: usize, st: Style) -> Vec<GEntry> {
    // sizes per unit
    let mut es: Vec<GEntry> = Vec::new();
    let mut per = vec![0usize; nunits];
    for _ in 0..n {
        per[rng.below(nunits as u64) as usize] += 1;
    }
    for u in 0..nunits {
        let first = es.len();
        let mut path: Vec<usize> = Vec::new(); // rightmost path (ids)
        let nbase = if per[u] > 1 && rng.chance(1, 2) { rng.range(1, 2.min(per[u] as u64 - 1)) as usize } else { 0 };
        for j in 0..per[u] {
            let id = first + j;
            if j < nbase {
                es.push(GEntry { unit: u, parent: None, tag: T_BASE, decl: false, attrs: vec![] });
                continue;
            }
            // attach to the root or to a node of the rightmost path
            let k = rng.below(path.len() as u64 + 1) as usize;
            let parent = if k == 0 || rng.chance(1, 4) { None } else { Some(path[k - 1]) };
            match parent {
                None => path.clear(),
                Some(p) => {
                    let i = path.iter().position(|x| *x == p).unwrap();
                    path.truncate(i + 1);
                }
            }
            path.push(id);
            let mut tag = match rng.below(20) {
                0..=8 => *rng.pick(MEMBERISH),
                9..=15 => *rng.pick(STANDALONE),
                16..=18 => SUBPROGRAM,
                _ => *rng.pick(ALL_TAGS),
            };
            if parent.is_none() && tag == T_BASE {
                tag = 0x13; // root-level base types only at the front (the writer moves them there)
            }
            let decl = if tag == SUBPROGRAM { rng.chance(1, 2) } else { rng.chance(1, 10) };
            es.push(GEntry { unit: u, parent, tag, decl, attrs: vec![] });
        }
    }
    let n = es.len();
    // references
    let unit_ids = |u: usize, es: &Vec<GEntry>| -> Vec<usize> { (0..es.len()).filter(|i| es[*i].unit == u).collect() };
    for id in 0..n {
        let u = es[id].unit;
        let mine = unit_ids(u, &es);
        let bases: Vec<usize> = mine.iter().copied().filter(|i| es[*i].tag == T_BASE && es[*i].parent.is_none() && *i < id).collect();
        let nattr = match rng.below(10) {
            0..=3 => 0,
            4..=6 => 1,
            7..=8 => 2,
            _ => 3,
        };
        let (mut nref, mut nexpr) = (0, 0);
        let mut attrs = Vec::new();
        let any_tgt = |rng: &mut Rng, same: bool| -> Tgt {
            if st.invalid && rng.chance(1, 4) {
                return match rng.below(3) {
                    0 => Tgt::Root(if same { u } else { rng.below(nunits as u64) as usize }),
                    1 => Tgt::Oob,
                    _ => Tgt::Mid(if same { *rng.pick(&mine) } else { rng.below(n as u64) as usize }),
                };
            }
            if same || (st.split_clean && u == 0) { Tgt::Ent(*rng.pick(&mine)) } else if rng.chance(1, 2) { Tgt::Ent(rng.below(n as u64) as usize) } else { Tgt::Ent(*rng.pick(&mine)) }
        };
        let gen_op = |rng: &mut Rng, nested: bool| -> String {
            let k = rng.below(12);
            let pre = if nested { "e" } else { "" };
            match k {
                0 | 1 => format!("{pre}n"),
                2 | 3 => format!("{pre}c{}", tgt_str(any_tgt(rng, true))),
                4 => format!("{pre}C{}", tgt_str(any_tgt(rng, false))),
                5 | 6 => {
                    if bases.is_empty() { format!("{pre}n") } else { format!("{pre}t{}", bases[rng.below(bases.len() as u64) as usize]) }
                }
                7 => format!("{pre}p{}", tgt_str(any_tgt(rng, true))),
                8 | 9 => format!("{pre}i{}", tgt_str(any_tgt(rng, false))),
                10 => format!("{pre}v{}", tgt_str(any_tgt(rng, false))),
                _ => "NEST".into(),
            }
        };
        let gen_ops = |rng: &mut Rng| -> String {
            let k = rng.below(4) as usize;
            let mut v = Vec::new();
            for _ in 0..k {
                let mut o = gen_op(rng, false);
                if o == "NEST" {
                    o = gen_op(rng, true);
                    if o == "NEST" {
                        o = "en".into();
                    }
                    // nesting around MAX_ENTRY_VALUE_DEPTH (fix 8679173)
                    if rng.chance(1, 4) {
                        let k = *rng.pick(&[2usize, 3, 63, 64, 65, 66, 200]);
                        o = format!("E{k}_{}", &o[1..]);
                    }
                }
                v.push(o);
            }
            if v.iter().any(|o: &String| o.starts_with("E200_")) {
                // hand-encoded expression: no ULEB128 operands
                for o in v.iter_mut() {
                    if o.starts_with('t') || o.starts_with("et") || (o.starts_with('E') && o.contains("_t")) {
                        *o = "n".into();
                    }
                }
            }
            v.join(".")
        };
        for _ in 0..nattr {
            match rng.below(10) {
                0..=2 if nref < 6 => {
                    nref += 1;
                    attrs.push(format!("r{}", tgt_str(any_tgt(rng, true))));
                }
                3..=4 if nref < 6 => {
                    nref += 1;
                    attrs.push(format!("g{}", tgt_str(any_tgt(rng, false))));
                }
                5..=7 if nexpr < 6 => {
                    nexpr += 1;
                    attrs.push(format!("x{}", gen_ops(rng)));
                }
                _ if nexpr < 6 => {
                    nexpr += 1;
                    let k = rng.range(1, 3) as usize;
                    let locs: Vec<String> = (0..k)
                        .map(|_| {
                            let kind = if rng.chance(3, 4) { 'n' } else { *rng.pick(&['z', 'i', 't']) };
                            // entries the cooked iterator skips carry references too (fix 34014b9)
                            let ops = if kind == 'n' || rng.chance(2, 3) { gen_ops(rng) } else if rng.chance(1, 2) { "n".into() } else { String::new() };
                            format!("{kind}{ops}")
                        })
                        .collect();
                    attrs.push(format!("l{}", locs.join("/")));
                }
                _ => {}
            }
        }
        es[id].attrs = attrs;
    }
    es
}

/// reference attributes on unit root DIEs: to other roots (always resolvable, like
/// DW_AT_import / DW_AT_base_types) and, in the finding stream, to DIEs
fn gen_roots(rng: &mut Rng, nunits: usize, es: &[GEntry], to_dies: bool) -> String {
    let mut v = Vec::new();
    for u in 0..nunits {
        if !rng.chance(1, 3) {
            continue;
        }
        let mine: Vec<usize> = (0..es.len()).filter(|i| es[*i].unit == u).collect();
        let a = if to_dies && !es.is_empty() && rng.chance(2, 3) {
            if !mine.is_empty() && rng.chance(1, 2) { format!("r{}", rng.pick(&mine)) } else { format!("g{}", rng.below(es.len() as u64)) }
        } else if rng.chance(1, 2) {
            format!("rR{u}")
        } else {
            format!("gR{}", rng.below(nunits as u64))
        };
        v.push(format!("{u}={a}"));
    }
    if v.is_empty() { "-".into() } else { v.join(";") }
}

fn forest_line(enc: (u16, u8, u8), nunits: usize, es: &[GEntry], req: &[usize]) -> String {
    let ents: Vec<String> = es
        .iter()
        .enumerate()
        .map(|(i, e)| {
            format!(
                "{i},{},{},{},{},{}",
                e.unit,
                e.parent.map(|p| p.to_string()).unwrap_or("-".into()),
                e.tag,
                e.decl as u8,
                if e.attrs.is_empty() { "-".into() } else { e.attrs.join("|") }
            )
        })
        .collect();
    let r: Vec<String> = req.iter().map(|x| x.to_string()).collect();
    format!(
        "flt-conv @MODE@ {} {} {} {} {} {}",
        enc.0,
        enc.1,
        enc.2,
        nunits,
        if ents.is_empty() { "-".into() } else { ents.join(";") },
        if r.is_empty() { "-".into() } else { r.join(",") }
    )
}

fn rand_enc(rng: &mut Rng) -> (u16, u8, u8) {
    (*rng.pick(&[2u16, 3, 4, 5]), *rng.pick(&[32u8, 64]), *rng.pick(&[4u8, 8]))
}

pub fn gen(ctx: &Ctx, emit: &mut dyn FnMut(String)) {
    let mut rng = ctx.rng(19);
    let plain = Style { invalid: false, finding_kinds: false, split_clean: false };
    // 1. the back-edge rule, tag by tag: a required parent of every category with one child of
    //    every tag (with and without DW_AT_declaration), and the child required instead
    for &pt in &[SUBPROGRAM, 0x13, NAMESPACE, 0x0b, 0x11, 0x1e] {
        for &t in ALL_TAGS {
            for decl in [false, true] {
                let es = vec![
                    GEntry { unit: 0, parent: None, tag: pt, decl: false, attrs: vec![] },
                    GEntry { unit: 0, parent: Some(0), tag: t, decl, attrs: vec![] },
                    GEntry { unit: 0, parent: Some(1), tag: 0x34, decl: false, attrs: vec![] },
                ];
                emit(forest_line((4, 32, 8), 1, &es, &[0]));
                if pt == SUBPROGRAM && !decl {
                    emit(forest_line((5, 64, 4), 1, &es, &[1]));
                }
            }
        }
    }
    // 2. small forests x every subset of required entries (exhaustive)
    let nsmall = ctx.n(400, 3000);
    for i in 0..nsmall {
        let n = rng.range(2, if ctx.tier == Tier::Quick { 6 } else { 8 }) as usize;
        let nunits = rng.range(1, 3) as usize;
        let st = match i % 10 {
            8 => Style { invalid: true, finding_kinds: false, split_clean: false },
            9 => Style { invalid: false, finding_kinds: true, split_clean: false },
            _ => plain,
        };
        // split sections with 1-3 units (i % 3 == 0); two thirds of them without section-offset
        // references from the first unit into later ones
        let st = if i % 3 == 0 && i % 9 != 0 { Style { split_clean: true, ..st } } else { st };
        let es = gen_forest(&mut rng, n, nunits, st);
        let enc = rand_enc(&mut rng);
        for m in 0u32..(1 << es.len()) {
            let req: Vec<usize> = (0..es.len()).filter(|b| m >> b & 1 == 1).collect();
            let l = forest_line(enc, nunits, &es, &req);
            // split-unit filters: new_split / convert_split_with_filter vs convert_split
            if i % 3 == 0 {
                emit(l.replacen("flt-conv", "flt-split", 1));
            } else {
                emit(l);
            }
        }
    }
    // 3. larger random forests x random subsets x versions x formats
    let nbig = ctx.n(6000, 100000);
    for i in 0..nbig {
        let n = rng.range(4, 40) as usize;
        let nunits = rng.range(1, 5) as usize;
        let st = match i % 10 {
            7 | 8 => Style { invalid: true, finding_kinds: false, split_clean: false },
            9 => Style { invalid: rng.chance(1, 3), finding_kinds: true, split_clean: false },
            _ => plain,
        };
        let split = nunits <= 3 && i % 3 == 0 && i % 4 != 1;
        let st = if split && i % 9 != 0 { Style { split_clean: true, ..st } } else { st };
        let es = gen_forest(&mut rng, n, nunits, st);
        let roots = if i % 4 == 1 { gen_roots(&mut rng, nunits, &es, true) } else { "-".into() };
        for _ in 0..3 {
            let enc = rand_enc(&mut rng);
            let dens = rng.range(1, 6);
            let req: Vec<usize> = (0..es.len()).filter(|_| rng.chance(1, dens + 1)).collect();
            let l = forest_line(enc, nunits, &es, &req);
            if roots != "-" {
                emit(format!("{l} {roots}"));
            } else if split {
                emit(l.replacen("flt-conv", "flt-split", 1));
            } else {
                emit(l);
            }
        }
    }
    // empty cases
    emit(forest_line((4, 32, 8), 1, &[], &[]));
    emit(forest_line((5, 64, 8), 3, &[], &[]));
}
