//! C05 — CIE/FDE decoding and address lookup agree with the section contents.
//!
//! Implementation side of the line protocol (the same lines are answered by
//! `lean/Gimli/Drv/C05.lean` from the Model), the direct oracle (exhaustive scan over the generated
//! abstract FDE list; expected field values of every generated entry), and the generator with its own
//! section / `.eh_frame_hdr` encoder (independent of `gimli::write`).
use crate::prop::{Ctx, Tier};
use crate::util::{hex, rerr, unhex, Rng};
use gimli::{
    BaseAddresses, CallFrameInstruction, CieOrFde, CommonInformationEntry, DebugFrame, DwEhPe, EhFrame, EhFrameHdr,
    EndianSlice, FrameDescriptionEntry, Pointer, RunTimeEndian, SectionBaseAddresses, UnwindContext, UnwindOffset,
    UnwindSection,
};

type R<'a> = EndianSlice<'a, RunTimeEndian>;

fn endian(e: &str) -> Option<RunTimeEndian> {
    match e {
        "le" => Some(RunTimeEndian::Little),
        "be" => Some(RunTimeEndian::Big),
        _ => None,
    }
}

fn opt_u64(s: &str) -> Option<Option<u64>> {
    if s == "-" { Some(None) } else { s.parse().ok().map(Some) }
}

fn sec_bases(s: &str) -> Option<SectionBaseAddresses> {
    let v: Vec<&str> = s.split(',').collect();
    if v.len() != 3 {
        return None;
    }
    Some(SectionBaseAddresses { section: opt_u64(v[0])?, text: opt_u64(v[1])?, data: opt_u64(v[2])? })
}

fn bases(s: &str) -> Option<BaseAddresses> {
    let (h, f) = s.split_once(';')?;
    Some(BaseAddresses { eh_frame_hdr: sec_bases(h)?, eh_frame: sec_bases(f)? })
}

fn ptr_s(p: Pointer) -> String {
    match p {
        Pointer::Direct(v) => format!("D{v}"),
        Pointer::Indirect(v) => format!("I{v}"),
    }
}

fn opt_s<T>(o: Option<T>, f: impl Fn(T) -> String) -> String {
    match o {
        Some(x) => f(x),
        None => "-".into(),
    }
}

/// `(number of bytes)` of the last `EndianSlice(.., [..])` after `key` in a `{:?}` rendering
/// (the instruction ranges of CIEs/FDEs have no accessor; Debug shows up to 8 bytes and the length)
fn debug_slice_len(dbg: &str, key: &str) -> Option<usize> {
    let i = dbg.rfind(key)? + key.len();
    let s = &dbg[i..];
    let a = s.find('[')?;
    let b = s[a..].find(']')? + a;
    let inner = &s[a + 1..b];
    if inner.trim().is_empty() {
        return Some(0);
    }
    let items: Vec<&str> = inner.split(", ").collect();
    if let Some(l) = items.last().and_then(|l| l.strip_prefix("...; ")) {
        return l.trim().parse().ok();
    }
    Some(items.len())
}

fn debug_format(dbg: &str) -> &'static str {
    match dbg.find("format: Dwarf") {
        Some(i) if dbg[i + 13..].starts_with("64") => "64",
        Some(_) => "32",
        None => "?",
    }
}

fn initial_len_size(fmt: &str) -> usize {
    if fmt == "64" { 12 } else { 4 }
}

fn cie_s(c: &CommonInformationEntry<R<'_>>) -> String {
    let dbg = format!("{:?}", c);
    let fmt = debug_format(&dbg);
    let ilen = debug_slice_len(&dbg, "initial_instructions: ").unwrap_or(usize::MAX);
    let end = c.offset() + initial_len_size(fmt) + c.entry_len();
    let aug = match c.augmentation() {
        None => "-".to_string(),
        Some(_) => format!(
            "A:{}:{}:{}:{}",
            opt_s(c.lsda_encoding(), |e| e.0.to_string()),
            opt_s(c.personality_with_encoding(), |(e, p)| format!("{}={}", e.0, ptr_s(p))),
            opt_s(c.fde_address_encoding(), |e| e.0.to_string()),
            if c.is_signal_trampoline() { 1 } else { 0 }
        ),
    };
    format!(
        "C,{},{},{},{},{},{},{},{},{},{},{}",
        c.offset(),
        c.entry_len(),
        fmt,
        c.version(),
        c.address_size(),
        c.code_alignment_factor(),
        c.data_alignment_factor(),
        c.return_address_register().0,
        aug,
        end.wrapping_sub(ilen),
        ilen
    )
}

fn fde_s(f: &FrameDescriptionEntry<R<'_>>) -> String {
    let dbg = format!("{:?}", f);
    let fmt = debug_format(&dbg);
    let ilen = debug_slice_len(&dbg, " instructions: ").unwrap_or(usize::MAX);
    let end = f.offset() + initial_len_size(fmt) + f.entry_len();
    format!(
        "F,{},{},{},{},{},{},{},{},{},{}|{}",
        f.offset(),
        f.entry_len(),
        fmt,
        f.cie().offset(),
        f.initial_address(),
        f.len(),
        f.end_address(),
        opt_s(f.lsda(), ptr_s),
        end.wrapping_sub(ilen),
        ilen,
        cie_s(f.cie())
    )
}

fn fde_short(f: &FrameDescriptionEntry<R<'_>>) -> String {
    format!("F@{}:{}:{}", f.offset(), f.initial_address(), f.len())
}

fn entries_s<'a, S>(sec: &S, b: &BaseAddresses, n: usize) -> String
where
    S: UnwindSection<R<'a>>,
    S::Offset: UnwindOffset<usize>,
{
    let mut items: Vec<String> = Vec::new();
    let mut it = sec.entries(b);
    let mut steps = 0usize;
    loop {
        steps += 1;
        if steps > n + 16 {
            items.push("steps".into());
            break;
        }
        match it.next() {
            Ok(None) => {
                items.push(".".into());
                break;
            }
            Err(e) => {
                // the iterator must be finished after an error
                let more = !matches!(it.next(), Ok(None));
                items.push(format!("!{}{}", rerr(&e), if more { "+" } else { "" }));
                break;
            }
            Ok(Some(CieOrFde::Cie(c))) => items.push(cie_s(&c)),
            Ok(Some(CieOrFde::Fde(p))) => {
                let dbg = format!("{:?}", p);
                let head = format!("F,{},{},{},{}", p.offset(), p.entry_len(), debug_format(&dbg), UnwindOffset::into(p.cie_offset()));
                match p.parse(S::cie_from_offset) {
                    Ok(f) => items.push(fde_s(&f)),
                    Err(e) => items.push(format!("{head},!{}", rerr(&e))),
                }
            }
        }
    }
    items.join(";")
}

/// do the CIE and the FDE consist of `DW_CFA_nop` only? (the Model keeps instructions opaque and
/// predicts the row only for such programs: one row `[initial, end)`)
fn nop_only<'a, S>(sec: &S, b: &BaseAddresses, f: &FrameDescriptionEntry<R<'a>>) -> bool
where
    S: UnwindSection<R<'a>>,
{
    let mut it = f.cie().instructions(sec, b);
    loop {
        match it.next() {
            Ok(None) => break,
            Ok(Some(CallFrameInstruction::Nop)) => {}
            _ => return false,
        }
    }
    let mut it = f.instructions(sec, b);
    loop {
        match it.next() {
            Ok(None) => break,
            Ok(Some(CallFrameInstruction::Nop)) => {}
            _ => return false,
        }
    }
    true
}

/// abstract FDE of the oracle token: `off:initial:len:asz`
#[derive(Clone, Copy, Debug)]
struct OFde {
    off: u64,
    initial: u64,
    len: u64,
    asz: u8,
}

/// `H` prefix: the `.eh_frame_hdr` table is a proper index of the section
fn parse_ofdes(s: &str) -> Option<(bool, Vec<OFde>)> {
    let (proper, s) = match s.strip_prefix('H') {
        Some(r) => (true, r),
        None => (false, s),
    };
    let mut v = Vec::new();
    if !s.is_empty() && s != "." {
        for t in s.split(',') {
            let p: Vec<&str> = t.split(':').collect();
            if p.len() != 4 {
                return None;
            }
            v.push(OFde { off: p[0].parse().ok()?, initial: p[1].parse().ok()?, len: p[2].parse().ok()?, asz: p[3].parse().ok()? });
        }
    }
    Some((proper, v))
}

fn top(asz: u8) -> u128 {
    1u128 << (8 * asz as u32)
}

/// what an exhaustive scan of the abstract list finds: the first FDE (section order) covering `a`.
/// `Err(())`: the list contains an FDE running beyond the top of the address space before any
/// covering one (not a well-formed section, no demand)
fn scan(fdes: &[OFde], a: u64) -> Result<Option<OFde>, ()> {
    for f in fdes {
        let end = f.initial as u128 + f.len as u128;
        if end > top(f.asz) {
            return Err(());
        }
        if f.initial <= a && (a as u128) < end {
            return Ok(Some(*f));
        }
    }
    Ok(None)
}

fn oracle_lookup(which: &str, got: &str, fdes: &[OFde], a: u64) -> Option<String> {
    let exp = match scan(fdes, a) {
        Ok(e) => e,
        Err(()) => return None,
    };
    let exp_s = match exp {
        Some(f) => {
            if which == "lin" || which == "hdr" {
                format!("F@{}:{}:{}", f.off, f.initial, f.len)
            } else {
                format!("R:{}:{}", f.initial, ((f.initial as u128 + f.len as u128) % top(f.asz).min(1u128 << 64)) as u64)
            }
        }
        None => "!NoUnwindInfoForAddress".to_string(),
    };
    if got == "?" || got == exp_s {
        return None;
    }
    // an FDE ending exactly at the top of the address space: `end_address` wraps to 0
    if let Some(f) = exp {
        if f.initial as u128 + f.len as u128 == top(f.asz) {
            return Some(format!("top-of-address-space {which} expected={exp_s} got={got}"));
        }
    }
    Some(format!("{which}-differs-from-scan expected={exp_s} got={got}"))
}

fn lookup_s<'a, S>(sec: &S, b: &BaseAddresses, a: u64) -> (String, String)
where
    S: UnwindSection<R<'a>>,
    S::Offset: UnwindOffset<usize>,
{
    let lin = sec.fde_for_address(b, a, S::cie_from_offset);
    let lin_s = match &lin {
        Ok(f) => fde_short(f),
        Err(e) => format!("!{}", rerr(e)),
    };
    let opaque = match &lin {
        Ok(f) => !nop_only(sec, b, f),
        Err(_) => false,
    };
    let uia = if opaque {
        "?".to_string()
    } else {
        let mut ctx = UnwindContext::new();
        match sec.unwind_info_for_address(b, &mut ctx, a, S::cie_from_offset) {
            Ok(row) => format!("R:{}:{}", row.start_address(), row.end_address()),
            Err(e) => format!("!{}", rerr(&e)),
        }
    };
    (lin_s, uia)
}

/// the FDEs gimli itself lists for the section: (offset, initial, len)
fn listed_fdes<'a, S>(sec: &S, b: &BaseAddresses, n: usize) -> Option<Vec<(u64, u64, u64)>>
where
    S: UnwindSection<R<'a>>,
    S::Offset: UnwindOffset<usize>,
{
    let mut v = Vec::new();
    let mut it = sec.entries(b);
    for _ in 0..n + 16 {
        match it.next() {
            Ok(None) => return Some(v),
            Err(_) => return None,
            Ok(Some(CieOrFde::Cie(_))) => {}
            Ok(Some(CieOrFde::Fde(p))) => match p.parse(S::cie_from_offset) {
                Ok(f) => v.push((f.offset() as u64, f.initial_address(), f.len())),
                Err(_) => return None,
            },
        }
    }
    None
}

fn with_oracle(s: String, o: Option<String>) -> String {
    match o {
        Some(w) => format!("{s} #oracle:{w}"),
        None => s,
    }
}

pub fn handle(op: &str, a: &[&str]) -> Option<String> {
    match (op, a) {
        ("ehpe-valid", [b]) => {
            let b: u64 = b.parse().ok()?;
            if b > 255 {
                return None;
            }
            let e = DwEhPe(b as u8);
            let s = format!(
                "ok {} {} {} {} {}",
                e.is_valid_encoding() as u8,
                e.format().0,
                e.application().0,
                e.is_indirect() as u8,
                e.is_absent() as u8
            );
            // LSB definition, written out independently: format nibble 0-4 / 9-12, application 0-5, or omit
            let f = b & 0x0f;
            let ap = (b >> 4) & 7;
            let lsb = b == 0xff || ((f <= 4 || (9..=12).contains(&f)) && ap <= 5);
            let o = if lsb != e.is_valid_encoding() { Some(format!("valid-encoding-table byte={b}")) } else { None };
            Some(with_oracle(s, o))
        }
        ("ehpe-ptr", [_m, via, e, enc, asz, sb, fb, off, h]) => {
            let en = endian(e)?;
            let enc: u64 = enc.parse().ok()?;
            let asz: u64 = asz.parse().ok()?;
            if enc > 255 || asz > 255 {
                return None;
            }
            let (enc, asz) = (enc as u8, asz as u8);
            let sb = sec_bases(sb)?;
            let fb = opt_u64(fb)?;
            let off: usize = off.parse().ok()?;
            let bs = unhex(h)?;
            let big = *e == "be";
            let r: Result<Pointer, gimli::Error> = match *via {
                "hdr" => {
                    if off != 4 || fb.is_some() {
                        return Some("err BadRequest".into());
                    }
                    let mut s = vec![1u8, enc, 0xff, 0xff];
                    s.extend_from_slice(&bs);
                    let b = BaseAddresses { eh_frame_hdr: sb, eh_frame: SectionBaseAddresses::default() };
                    EhFrameHdr::new(&s, en).parse(&b, asz).map(|h| h.eh_frame_ptr())
                }
                "pers" => {
                    if off != 17 || fb.is_some() || bs.len() + 1 >= 128 {
                        return Some("err BadRequest".into());
                    }
                    let mut w = W::new(big);
                    w.u32((13 + bs.len()) as u32);
                    w.u32(0);
                    w.u8(1);
                    w.bytes(b"zP\0");
                    w.u8(1);
                    w.u8(1);
                    w.u8(0);
                    w.u8((1 + bs.len()) as u8);
                    w.u8(enc);
                    w.bytes(&bs);
                    let b = BaseAddresses { eh_frame: sb, eh_frame_hdr: SectionBaseAddresses::default() };
                    let mut eh = EhFrame::new(&w.b, en);
                    eh.set_address_size(asz);
                    let mut it = eh.entries(&b);
                    match it.next() {
                        Ok(Some(CieOrFde::Cie(c))) => match c.personality() {
                            Some(p) => Ok(p),
                            None => return Some("err BadRequest".into()),
                        },
                        Ok(_) => return Some("err BadRequest".into()),
                        Err(e) => Err(e),
                    }
                }
                "lsda" => {
                    let Some(fb) = fb else { return Some("err BadRequest".into()) };
                    if off < 44 || bs.len() >= 128 || !(1..=8).contains(&asz) {
                        return Some("err BadRequest".into());
                    }
                    let pad = off - 44;
                    let mut w = W::new(big);
                    w.u32((15 + pad) as u32);
                    w.u32(0);
                    w.u8(1);
                    w.bytes(b"zLR\0");
                    w.u8(1);
                    w.u8(1);
                    w.u8(0);
                    w.u8(2);
                    w.u8(enc);
                    w.u8(0x04);
                    w.bytes(&vec![0u8; pad]);
                    let fde_off = w.b.len();
                    w.u32((4 + 8 + 8 + 1 + bs.len()) as u32);
                    w.u32((fde_off + 4) as u32);
                    w.u64(fb);
                    w.u64(0);
                    w.u8(bs.len() as u8);
                    w.bytes(&bs);
                    let b = BaseAddresses { eh_frame: sb, eh_frame_hdr: SectionBaseAddresses::default() };
                    let mut eh = EhFrame::new(&w.b, en);
                    eh.set_address_size(asz);
                    match eh.fde_from_offset(&b, gimli::EhFrameOffset(fde_off), EhFrame::cie_from_offset) {
                        Ok(f) => {
                            if f.initial_address() != fb {
                                return Some("err BadRequest".into());
                            }
                            match f.lsda() {
                                Some(p) => Ok(p),
                                None => return Some("err BadRequest".into()),
                            }
                        }
                        Err(e) => Err(e),
                    }
                }
                _ => return None,
            };
            Some(match r {
                Ok(p) => format!("ok {}", ptr_s(p)),
                Err(e) => format!("err {}", rerr(&e)),
            })
        }
        ("cfi-entries", [_m, k, e, asz, b, exp, h]) => {
            let en = endian(e)?;
            let asz: u64 = asz.parse().ok()?;
            if asz > 255 {
                return None;
            }
            let b = bases(b)?;
            let bs = unhex(h)?;
            let s = match *k {
                "eh" => {
                    let mut s = EhFrame::new(&bs, en);
                    s.set_address_size(asz as u8);
                    entries_s(&s, &b, bs.len())
                }
                "df" => {
                    let mut s = DebugFrame::new(&bs, en);
                    s.set_address_size(asz as u8);
                    entries_s(&s, &b, bs.len())
                }
                _ => return None,
            };
            let o = if *exp != "-" && *exp != s { Some(format!("entries-differ-from-encoded expected={exp}")) } else { None };
            Some(with_oracle(format!("ok {s}"), o))
        }
        ("cfi-lookup", [_m, k, e, asz, b, addr, fdes, h, hh]) => {
            let en = endian(e)?;
            let asz: u64 = asz.parse().ok()?;
            if asz > 255 {
                return None;
            }
            let b = bases(b)?;
            let addr: u64 = addr.parse().ok()?;
            let bs = unhex(h)?;
            let mut listed: Option<Vec<(u64, u64, u64)>> = None;
            let (lin, uia, hdr, huia) = match *k {
                "eh" => {
                    let mut s = EhFrame::new(&bs, en);
                    s.set_address_size(asz as u8);
                    if *fdes != "-" {
                        listed = listed_fdes(&s, &b, bs.len());
                    }
                    let (lin, uia) = lookup_s(&s, &b, addr);
                    let (hdr, huia) = if *hh == "x" {
                        ("x".to_string(), "x".to_string())
                    } else {
                        let hb = unhex(hh)?;
                        match EhFrameHdr::new(&hb, en).parse(&b, asz as u8) {
                            Err(e) => (format!("!{}", rerr(&e)), format!("!{}", rerr(&e))),
                            Ok(ph) => match ph.table() {
                                None => ("notable".to_string(), "notable".to_string()),
                                Some(t) => {
                                    let r = t.fde_for_address(&s, &b, addr, EhFrame::cie_from_offset);
                                    let hs = match &r {
                                        Ok(f) => fde_short(f),
                                        Err(e) => format!("!{}", rerr(e)),
                                    };
                                    let opaque = match &r {
                                        Ok(f) => !nop_only(&s, &b, f),
                                        Err(_) => false,
                                    };
                                    let hu = if opaque {
                                        "?".to_string()
                                    } else {
                                        let mut ctx = UnwindContext::new();
                                        match t.unwind_info_for_address(&s, &b, &mut ctx, addr, EhFrame::cie_from_offset) {
                                            Ok(row) => format!("R:{}:{}", row.start_address(), row.end_address()),
                                            Err(e) => format!("!{}", rerr(&e)),
                                        }
                                    };
                                    (hs, hu)
                                }
                            },
                        }
                    };
                    (lin, uia, hdr, huia)
                }
                "df" => {
                    if *hh != "x" {
                        return None;
                    }
                    let mut s = DebugFrame::new(&bs, en);
                    s.set_address_size(asz as u8);
                    if *fdes != "-" {
                        listed = listed_fdes(&s, &b, bs.len());
                    }
                    let (lin, uia) = lookup_s(&s, &b, addr);
                    (lin, uia, "x".to_string(), "x".to_string())
                }
                _ => return None,
            };
            let mut o = None;
            if *fdes != "-" {
                let (proper, of) = parse_ofdes(fdes)?;
                // the abstract list must be what the section encodes (it is, for generated cases; this
                // also keeps the shrinker from drifting to bytes the list no longer describes)
                let want: Vec<(u64, u64, u64)> = of.iter().map(|f| (f.off, f.initial, f.len)).collect();
                if listed.as_ref() != Some(&want) {
                    return Some(with_oracle(format!("ok lin={lin} uia={uia} hdr={hdr} huia={huia}"), Some("fde-list-differs-from-encoded".into())));
                }
                o = oracle_lookup("lin", &lin, &of, addr).or_else(|| oracle_lookup("uia", &uia, &of, addr));
                if o.is_none() && proper && hdr != "x" {
                    o = oracle_lookup("hdr", &hdr, &of, addr).or_else(|| oracle_lookup("huia", &huia, &of, addr));
                }
                // the three paths must agree with each other whenever the table is a proper index
                if o.is_none() && proper && hdr != "x" && (hdr != lin || (huia != uia)) {
                    o = Some(format!("paths-disagree lin={lin} hdr={hdr}"));
                }
            }
            Some(with_oracle(format!("ok lin={lin} uia={uia} hdr={hdr} huia={huia}"), o))
        }
        ("hdr-parse", [_m, e, asz, b, addr, rows, hh]) => {
            let en = endian(e)?;
            let asz: u64 = asz.parse().ok()?;
            if asz > 255 {
                return None;
            }
            let b = bases(b)?;
            let addr: u64 = addr.parse().ok()?;
            let hb = unhex(hh)?;
            let ph = match EhFrameHdr::new(&hb, en).parse(&b, asz as u8) {
                Ok(p) => p,
                Err(e) => return Some(format!("err {}", rerr(&e))),
            };
            let dbg = format!("{:?}", ph);
            let n: u64 = dbg.find("fde_count: ").and_then(|i| dbg[i + 11..].split(|c: char| !c.is_ascii_digit()).next()).and_then(|t| t.parse().ok()).unwrap_or(u64::MAX);
            let tlen = debug_slice_len(&dbg, " table: ").unwrap_or(usize::MAX);
            let mut s = format!("ok ptr={} n={} toff={}", ptr_s(ph.eh_frame_ptr()), n, hb.len().wrapping_sub(tlen));
            let mut o = None;
            match ph.table() {
                None => s.push_str(" notable"),
                Some(t) => {
                    let mut rs: Vec<String> = Vec::new();
                    let mut it = t.iter(&b);
                    loop {
                        if rs.len() >= 8 {
                            rs.push(".".into());
                            break;
                        }
                        match it.next() {
                            Ok(Some((x, y))) => rs.push(format!("{}>{}", ptr_s(x), ptr_s(y))),
                            Ok(None) => {
                                rs.push(".".into());
                                break;
                            }
                            Err(e) => {
                                let more = !matches!(it.next(), Ok(None));
                                rs.push(format!("!{}{}", rerr(&e), if more { "+" } else { "" }));
                                break;
                            }
                        }
                    }
                    let lk = t.lookup(addr, &b);
                    let lks = match &lk {
                        Ok(p) => ptr_s(*p),
                        Err(e) => format!("!{}", rerr(e)),
                    };
                    let off = match &lk {
                        Ok(p) => match t.pointer_to_offset(*p) {
                            Ok(o) => o.0.to_string(),
                            Err(e) => format!("!{}", rerr(&e)),
                        },
                        Err(e) => format!("!{}", rerr(e)),
                    };
                    s.push_str(&format!(" rows={} lookup={} off={}", rs.join(","), lks, off));
                    // oracle: rows `key:ptr,…` sorted by key -> the row with the greatest key <= addr, else the first
                    if *rows != "-" {
                        let mut v: Vec<(u64, u64)> = Vec::new();
                        for t in rows.split(',') {
                            let (k, p) = t.split_once(':')?;
                            v.push((k.parse().ok()?, p.parse().ok()?));
                        }
                        let mut best = v[0];
                        for r in &v {
                            if r.0 <= addr && (best.0 > addr || r.0 >= best.0) {
                                best = *r;
                            }
                        }
                        // rows with equal keys are ambiguous: accept any of them
                        let ok = v.iter().any(|r| r.0 == best.0 && lks == format!("D{}", r.1));
                        if !ok {
                            o = Some(format!("hdr-search expected=D{} got={}", best.1, lks));
                        }
                    }
                }
            }
            Some(with_oracle(s, o))
        }
        _ => None,
    }
}

// ------------------------------------------------------------------------------------------------
// the generator's own encoder
// ------------------------------------------------------------------------------------------------

struct W {
    b: Vec<u8>,
    big: bool,
}
impl W {
    fn new(big: bool) -> Self {
        W { b: Vec::new(), big }
    }
    fn u8(&mut self, v: u8) {
        self.b.push(v);
    }
    fn bytes(&mut self, v: &[u8]) {
        self.b.extend_from_slice(v);
    }
    fn uint(&mut self, v: u64, n: usize) {
        for i in 0..n {
            let k = if self.big { n - 1 - i } else { i };
            self.b.push(if k < 8 { (v >> (8 * k)) as u8 } else { 0 });
        }
    }
    fn u16(&mut self, v: u16) {
        self.uint(v as u64, 2)
    }
    fn u32(&mut self, v: u32) {
        self.uint(v as u64, 4)
    }
    fn u64(&mut self, v: u64) {
        self.uint(v, 8)
    }
    fn uleb(&mut self, mut v: u64) {
        loop {
            let b = (v & 0x7f) as u8;
            v >>= 7;
            if v == 0 {
                self.b.push(b);
                break;
            }
            self.b.push(b | 0x80);
        }
    }
    fn sleb(&mut self, mut v: i64) {
        loop {
            let b = (v & 0x7f) as u8;
            v >>= 7;
            let done = (v == 0 && b & 0x40 == 0) || (v == -1 && b & 0x40 != 0);
            if done {
                self.b.push(b);
                break;
            }
            self.b.push(b | 0x80);
        }
    }
}

fn mask(asz: u8) -> u64 {
    if asz >= 8 { u64::MAX } else { (1u64 << (8 * asz as u32)) - 1 }
}

const FORMATS: [u8; 9] = [0x00, 0x01, 0x02, 0x03, 0x04, 0x09, 0x0a, 0x0b, 0x0c];

/// the memory layout a generated case pretends to have
#[derive(Clone, Copy)]
struct Layout {
    asz: u8,
    /// address of the section the pointer lives in (`None`: base not provided)
    sect: Option<u64>,
    text: Option<u64>,
    data: Option<u64>,
}

/// base address an encoding's application refers to, for a pointer at section offset `pos`
fn app_base(enc: u8, l: &Layout, func: Option<u64>, pos: u64) -> Option<u64> {
    match enc & 0x70 {
        0x00 => Some(0),
        0x10 => l.sect.map(|s| s.wrapping_add(pos) & mask(l.asz)),
        0x20 => l.text,
        0x30 => l.data,
        0x40 => func,
        _ => None,
    }
}

/// write the operand `x` (a 64-bit pattern, sign-extended for signed formats) in the format of
/// `enc`; `false` if it does not fit
fn write_operand(w: &mut W, enc: u8, asz: u8, x: u64) -> bool {
    let sx = x as i64;
    match enc & 0x0f {
        0x00 => {
            if x & !mask(asz) != 0 {
                return false;
            }
            w.uint(x, asz as usize)
        }
        0x01 => w.uleb(x),
        0x02 => {
            if x > 0xffff {
                return false;
            }
            w.u16(x as u16)
        }
        0x03 => {
            if x > 0xffff_ffff {
                return false;
            }
            w.u32(x as u32)
        }
        0x04 => w.u64(x),
        0x09 => w.sleb(sx),
        0x0a => {
            if sx < i16::MIN as i64 || sx > i16::MAX as i64 {
                return false;
            }
            w.u16(sx as u16)
        }
        0x0b => {
            if sx < i32::MIN as i64 || sx > i32::MAX as i64 {
                return false;
            }
            w.u32(sx as u32)
        }
        0x0c => w.u64(x),
        _ => return false,
    }
    true
}

/// encode a pointer that must decode to `target` (< 2^(8 asz)); `false` if the format cannot hold
/// the needed operand or the base is missing
fn write_ptr_to(w: &mut W, enc: u8, l: &Layout, func: Option<u64>, target: u64) -> bool {
    let pos = w.b.len() as u64;
    let Some(base) = app_base(enc, l, func, pos) else { return false };
    let m = mask(l.asz);
    let d = target.wrapping_sub(base) & m;
    // signed representative of the difference in `asz` bytes
    let sd = if l.asz < 8 && d & (1u64 << (8 * l.asz as u32 - 1)) != 0 { d | !m } else { d };
    let signed = matches!(enc & 0x0f, 0x09 | 0x0a | 0x0b | 0x0c);
    let mark = w.b.len();
    if signed {
        if write_operand(w, enc, l.asz, sd) {
            return true;
        }
    } else if write_operand(w, enc, l.asz, d) {
        return true;
    }
    w.b.truncate(mark);
    false
}

/// encode a pointer with a freely chosen operand; returns the address it decodes to
fn write_ptr_free(w: &mut W, rng: &mut Rng, enc: u8, l: &Layout, func: Option<u64>) -> Option<u64> {
    let pos = w.b.len() as u64;
    let base = app_base(enc, l, func, pos)?;
    let x: u64 = match enc & 0x0f {
        0x00 => rng.boundary_u64() & mask(l.asz),
        0x01 | 0x04 | 0x0c => rng.boundary_u64(),
        0x02 => rng.boundary_u64() & 0xffff,
        0x03 => rng.boundary_u64() & 0xffff_ffff,
        0x09 => rng.boundary_i64() as u64,
        0x0a => (rng.boundary_u64() as u16 as i16) as i64 as u64,
        0x0b => (rng.boundary_u64() as u32 as i32) as i64 as u64,
        _ => return None,
    };
    if !write_operand(w, enc, l.asz, x) {
        return None;
    }
    Some(base.wrapping_add(x) & mask(l.asz))
}

#[derive(Clone)]
struct GCie {
    fmt64: bool,
    version: u8,
    /// augmentation string (without NUL)
    aug: Vec<u8>,
    lsda_enc: u8,
    pers_enc: u8,
    fde_enc: u8,
    v4_asz: u8,
    caf: u64,
    daf: i64,
    rar: u64,
    instr: Vec<u8>,
    aug_pad: usize,
}

#[derive(Clone)]
struct GFde {
    cie: usize,
    fmt64: bool,
    initial: u64,
    len: u64,
    instr: Vec<u8>,
    aug_pad: usize,
}

#[derive(Clone)]
enum GEntry {
    Cie(usize),
    Fde(usize),
    /// a zero length (32-bit or 64-bit form): terminator in `.eh_frame`, skipped in `.debug_frame`
    Zero(bool),
}

struct Encoded {
    bytes: Vec<u8>,
    /// expected canonical `cfi-entries` reply (without `ok `)
    expect: String,
    /// FDEs that an exhaustive scan sees (section order, up to the terminator): off, initial, len, asz
    fdes: Vec<OFde>,
}

struct SectionSpec {
    eh: bool,
    big: bool,
    asz: u8,
    layout: Layout,
    cies: Vec<GCie>,
    fdes: Vec<GFde>,
    order: Vec<GEntry>,
}

fn cie_asz(s: &SectionSpec, c: &GCie) -> u8 {
    if !s.eh && c.version == 4 { c.v4_asz } else { s.asz }
}

/// body of a CIE (after the length field) at section offset `at` (= offset of the length field)
fn encode_cie(s: &SectionSpec, c: &GCie, at: usize, rng: &mut Rng, expect: &mut String) -> Option<Vec<u8>> {
    let lsz = if c.fmt64 { 12 } else { 4 };
    let mut w = W::new(s.big);
    // the writer's positions must be section offsets for pc-relative pointers: prefill
    w.b = vec![0u8; at + lsz];
    if s.eh {
        w.u32(0);
    } else if c.fmt64 {
        w.u64(u64::MAX);
    } else {
        w.u32(0xffff_ffff);
    }
    w.u8(c.version);
    w.bytes(&c.aug);
    w.u8(0);
    let asz = cie_asz(s, c);
    if !s.eh && c.version == 4 {
        w.u8(c.v4_asz);
        w.u8(0);
    }
    w.uleb(c.caf);
    w.sleb(c.daf);
    if c.version == 1 {
        w.u8(c.rar as u8);
    } else {
        w.uleb(c.rar);
    }
    let l = Layout { asz, ..s.layout };
    let mut pers_s = "-".to_string();
    let (mut has_l, mut has_p, mut has_r, mut has_s) = (false, false, false, false);
    if c.aug.first() == Some(&b'z') {
        // augmentation data: arguments in the order of the characters; the length is known only
        // after the arguments are encoded, and pc-relative pointers need their final position:
        // the length is a single byte here (the data is shorter than 128 bytes)
        let len_at = w.b.len();
        w.u8(0);
        let start = w.b.len();
        for ch in &c.aug[1..] {
            match ch {
                b'L' => {
                    w.u8(c.lsda_enc);
                    has_l = true;
                }
                b'R' => {
                    w.u8(c.fde_enc);
                    has_r = true;
                }
                b'P' => {
                    w.u8(c.pers_enc);
                    let t = write_ptr_free(&mut w, rng, c.pers_enc, &l, None)?;
                    pers_s = format!("{}={}{}", c.pers_enc, if c.pers_enc & 0x80 != 0 { "I" } else { "D" }, t);
                    has_p = true;
                }
                b'S' => has_s = true,
                _ => return None,
            }
        }
        w.bytes(&vec![0xaa; c.aug_pad]);
        let n = w.b.len() - start;
        if n >= 128 {
            return None;
        }
        w.b[len_at] = n as u8;
    } else {
        for ch in &c.aug {
            match ch {
                b'S' => has_s = true,
                _ => return None,
            }
        }
    }
    let _ = has_p;
    let ioff = w.b.len();
    w.bytes(&c.instr);
    let body = w.b[at + lsz..].to_vec();
    let aug_s = if c.aug.is_empty() {
        "-".to_string()
    } else {
        format!(
            "A:{}:{}:{}:{}",
            if has_l { c.lsda_enc.to_string() } else { "-".into() },
            pers_s,
            if has_r { c.fde_enc.to_string() } else { "-".into() },
            has_s as u8
        )
    };
    *expect = format!(
        "C,{},{},{},{},{},{},{},{},{},{},{}",
        at,
        body.len(),
        if c.fmt64 { 64 } else { 32 },
        c.version,
        asz,
        c.caf,
        c.daf,
        c.rar,
        aug_s,
        ioff,
        c.instr.len()
    );
    Some(body)
}

fn has_char(c: &GCie, ch: u8) -> bool {
    c.aug.contains(&ch)
}

/// body of an FDE at section offset `at`, its CIE at `cie_off`
fn encode_fde(s: &SectionSpec, f: &GFde, at: usize, cie_off: usize, cie_expect: &str, rng: &mut Rng, expect: &mut String, ofde: &mut Option<OFde>) -> Option<Vec<u8>> {
    let c = &s.cies[f.cie];
    let lsz = if f.fmt64 { 12 } else { 4 };
    let mut w = W::new(s.big);
    w.b = vec![0u8; at + lsz];
    if s.eh {
        let base = at + lsz;
        w.u32((base - cie_off) as u32);
    } else if f.fmt64 {
        w.u64(cie_off as u64);
    } else {
        w.u32(cie_off as u32);
    }
    let asz = cie_asz(s, c);
    let l = Layout { asz, ..s.layout };
    if f.initial & !mask(asz) != 0 || f.len & !mask(asz) != 0 {
        return None;
    }
    if has_char(c, b'R') {
        if !write_ptr_to(&mut w, c.fde_enc, &l, None, f.initial) {
            return None;
        }
        // the range is the plain value in the encoding's format (signed formats sign-extend)
        let fenc = c.fde_enc & 0x0f;
        if !write_operand(&mut w, fenc, asz, f.len) {
            return None;
        }
        if matches!(fenc, 0x0a | 0x0b) && (f.len as i64) < 0 {
            return None;
        }
    } else {
        if !matches!(asz, 1 | 2 | 4 | 8) {
            return None;
        }
        w.uint(f.initial, asz as usize);
        w.uint(f.len, asz as usize);
    }
    let mut lsda_s = "-".to_string();
    if !c.aug.is_empty() {
        let len_at = w.b.len();
        w.u8(0);
        let start = w.b.len();
        if has_char(c, b'L') {
            let t = write_ptr_free(&mut w, rng, c.lsda_enc, &l, Some(f.initial))?;
            lsda_s = format!("{}{}", if c.lsda_enc & 0x80 != 0 { "I" } else { "D" }, t);
        }
        w.bytes(&vec![0xbb; f.aug_pad]);
        let n = w.b.len() - start;
        if n >= 128 {
            return None;
        }
        w.b[len_at] = n as u8;
    }
    let ioff = w.b.len();
    w.bytes(&f.instr);
    let body = w.b[at + lsz..].to_vec();
    let end = f.initial.wrapping_add(f.len) & mask(asz);
    *expect = format!(
        "F,{},{},{},{},{},{},{},{},{},{}|{}",
        at,
        body.len(),
        if f.fmt64 { 64 } else { 32 },
        cie_off,
        f.initial,
        f.len,
        end,
        lsda_s,
        ioff,
        f.instr.len(),
        cie_expect
    );
    *ofde = Some(OFde { off: at as u64, initial: f.initial, len: f.len, asz });
    Some(body)
}

fn encode_section(s: &SectionSpec, seed: u64) -> Option<Encoded> {
    // pass 1: sizes (every size is independent of the position: pc-relative pointers with a
    // chosen target use fixed-size formats or LEB operands that do not depend on it — see gen)
    let mut offs: Vec<usize> = Vec::new();
    let mut cie_off = vec![usize::MAX; s.cies.len()];
    for pass in 0..2 {
        let mut at = 0usize;
        offs.clear();
        for en in &s.order {
            offs.push(at);
            let size = match en {
                GEntry::Zero(w64) => if *w64 { 12 } else { 4 },
                GEntry::Cie(i) => {
                    let mut e = String::new();
                    let mut rng = Rng::new(seed ^ (*i as u64) << 8);
                    let b = encode_cie(s, &s.cies[*i], at, &mut rng, &mut e)?;
                    cie_off[*i] = at;
                    (if s.cies[*i].fmt64 { 12 } else { 4 }) + b.len()
                }
                GEntry::Fde(i) => {
                    let f = &s.fdes[*i];
                    let co = if cie_off[f.cie] == usize::MAX { if pass == 0 { 0 } else { return None } } else { cie_off[f.cie] };
                    let mut e = String::new();
                    let mut o = None;
                    let mut rng = Rng::new(seed ^ 0x77 ^ (*i as u64) << 8);
                    // in pass 1 a forward CIE reference (.debug_frame only) is sized with offset 0
                    let at_for = if s.eh && co > at { return None } else { at };
                    let b = encode_fde(s, f, at_for, co, "", &mut rng, &mut e, &mut o)?;
                    (if f.fmt64 { 12 } else { 4 }) + b.len()
                }
            };
            at += size;
        }
    }
    // pass 2: real encoding with the final offsets
    let mut out = W::new(s.big);
    let mut items: Vec<String> = Vec::new();
    let mut fdes: Vec<OFde> = Vec::new();
    let mut cie_exp = vec![String::new(); s.cies.len()];
    for (i, c) in s.cies.iter().enumerate() {
        if cie_off[i] != usize::MAX {
            let mut rng = Rng::new(seed ^ (i as u64) << 8);
            encode_cie(s, c, cie_off[i], &mut rng, &mut cie_exp[i])?;
        }
    }
    let mut terminated = false;
    for (k, en) in s.order.iter().enumerate() {
        let at = offs[k];
        if out.b.len() != at {
            return None;
        }
        match en {
            GEntry::Zero(w64) => {
                if *w64 {
                    out.u32(0xffff_ffff);
                    out.u64(0);
                } else {
                    out.u32(0);
                }
                if s.eh {
                    terminated = true;
                }
            }
            GEntry::Cie(i) => {
                let c = &s.cies[*i];
                let mut e = String::new();
                let mut rng = Rng::new(seed ^ (*i as u64) << 8);
                let b = encode_cie(s, c, at, &mut rng, &mut e)?;
                if c.fmt64 {
                    out.u32(0xffff_ffff);
                    out.u64(b.len() as u64);
                } else {
                    out.u32(b.len() as u32);
                }
                out.bytes(&b);
                if !terminated {
                    items.push(e);
                }
            }
            GEntry::Fde(i) => {
                let f = &s.fdes[*i];
                let co = cie_off[f.cie];
                if co == usize::MAX || (s.eh && co > at) {
                    return None;
                }
                let mut e = String::new();
                let mut o = None;
                let mut rng = Rng::new(seed ^ 0x77 ^ (*i as u64) << 8);
                let b = encode_fde(s, f, at, co, &cie_exp[f.cie], &mut rng, &mut e, &mut o)?;
                if f.fmt64 {
                    out.u32(0xffff_ffff);
                    out.u64(b.len() as u64);
                } else {
                    out.u32(b.len() as u32);
                }
                out.bytes(&b);
                if !terminated {
                    items.push(e);
                    fdes.push(o?);
                }
            }
        }
    }
    items.push(".".into());
    Some(Encoded { bytes: out.b, expect: items.join(";"), fdes })
}

fn bases_token(hdr: &Layout, frame: &Layout) -> String {
    let f = |o: Option<u64>| o.map(|v| v.to_string()).unwrap_or_else(|| "-".into());
    format!("{},{},{};{},{},{}", f(hdr.sect), f(hdr.text), f(hdr.data), f(frame.sect), f(frame.text), f(frame.data))
}

fn ofdes_token(proper: bool, v: &[OFde]) -> String {
    let body = if v.is_empty() { ".".to_string() } else { v.iter().map(|f| format!("{}:{}:{}:{}", f.off, f.initial, f.len, f.asz)).collect::<Vec<_>>().join(",") };
    format!("{}{}", if proper { "H" } else { "" }, body)
}

/// `.eh_frame_hdr` bytes for the given rows (initial location, FDE address), `None` if a value does
/// not fit the chosen encodings
fn encode_hdr(big: bool, l: &Layout, ptr_enc: u8, cnt_enc: u8, tbl_enc: u8, eh_frame_addr: u64, count: u64, rows: &[(u64, u64)]) -> Option<Vec<u8>> {
    let mut w = W::new(big);
    w.u8(1);
    w.u8(ptr_enc);
    w.u8(cnt_enc);
    w.u8(tbl_enc);
    if !write_ptr_to(&mut w, ptr_enc, l, None, eh_frame_addr) {
        return None;
    }
    if cnt_enc != 0xff && tbl_enc != 0xff {
        if !write_operand(&mut w, cnt_enc, l.asz, count) {
            return None;
        }
        if matches!(cnt_enc & 0x0f, 0x0a | 0x0b) && (count as i64) < 0 {
            return None;
        }
        for (k, p) in rows {
            if !write_ptr_to(&mut w, tbl_enc, l, None, *k) {
                return None;
            }
            if !write_ptr_to(&mut w, tbl_enc, l, None, *p) {
                return None;
            }
        }
    }
    Some(w.b)
}

fn valid_encodings() -> Vec<u8> {
    (0..=255u8).filter(|b| *b != 0xff && FORMATS.contains(&(b & 0x0f)) && ((b >> 4) & 7) <= 5).collect()
}

fn gen_aug(rng: &mut Rng, force: Option<u64>) -> Vec<u8> {
    // every subset of zLPRS that gimli accepts: L, P, R need a leading z; S may stand alone
    let mut v = Vec::new();
    let subset = force.unwrap_or_else(|| rng.below(16));
    let z = rng.chance(4, 5) || subset & 7 != 0 || force.is_some();
    if !z {
        if subset & 8 != 0 {
            v.push(b'S');
        }
        return v;
    }
    v.push(b'z');
    let mut rest = Vec::new();
    if subset & 1 != 0 {
        rest.push(b'L');
    }
    if subset & 2 != 0 {
        rest.push(b'P');
    }
    if subset & 4 != 0 {
        rest.push(b'R');
    }
    if subset & 8 != 0 {
        rest.push(b'S');
    }
    // any order
    for i in (1..rest.len()).rev() {
        let j = rng.below(i as u64 + 1) as usize;
        rest.swap(i, j);
    }
    v.extend(rest);
    v
}

fn pick_enc(rng: &mut Rng, encs: &[u8], allow_funcrel: bool) -> u8 {
    loop {
        let mut e = *rng.pick(encs);
        if rng.chance(1, 6) {
            e |= 0x80;
        }
        let app = e & 0x70;
        if app == 0x50 || (app == 0x40 && !allow_funcrel) {
            continue;
        }
        return e;
    }
}

struct GenSection {
    spec: SectionSpec,
    enc: Encoded,
    frame_layout: Layout,
}

/// a structured-valid section
fn gen_section(rng: &mut Rng, nop_only: bool, force: Option<(bool, u64)>) -> Option<GenSection> {
    let encs = valid_encodings();
    let eh = match force {
        Some((k, _)) => k,
        None => rng.chance(2, 3),
    };
    let big = rng.chance(1, 3);
    let asz = *rng.pick(&[8u8, 8, 8, 4, 4, 2, 1]);
    let m = mask(asz);
    // memory layout: bases somewhere in the address space, sometimes near its top
    let region = match rng.below(4) {
        0 => 0x1000u64,
        1 => 0x40_0000 & m,
        2 => m.wrapping_sub(0x3fff) & m,
        _ => rng.next() & m & !0xfff,
    };
    let layout = Layout {
        asz,
        sect: Some(region & m),
        text: Some(region.wrapping_add(0x800) & m),
        data: Some(region.wrapping_sub(0x100) & m),
    };
    let ncie = 1 + rng.below(3) as usize;
    let mut cies = Vec::new();
    for _ in 0..ncie {
        let version = if eh { *rng.pick(&[1u8, 1, 3, 4]) } else { *rng.pick(&[1u8, 3, 4, 4]) };
        let aug = gen_aug(rng, force.map(|f| f.1));
        let v4_asz = *rng.pick(&[1u8, 2, 4, 8, 8]);
        let casz = if !eh && version == 4 { v4_asz } else { asz };
        // FDE address encoding: fixed-size formats for every application; LEB formats only when
        // the base does not depend on the position (sizes must be position independent)
        let fde_enc = loop {
            let e = pick_enc(rng, &encs, false);
            let leb = matches!(e & 0x0f, 0x01 | 0x09);
            if leb && e & 0x70 == 0x10 {
                continue;
            }
            break e;
        };
        let mut instr = Vec::new();
        if !nop_only && rng.chance(1, 2) {
            instr = vec![0x0c, 0x07, 0x08, 0x90, 0x01];
        }
        instr.extend(vec![0u8; rng.below(7) as usize]);
        let _ = casz;
        cies.push(GCie {
            fmt64: rng.chance(1, 4),
            version,
            aug,
            lsda_enc: pick_enc(rng, &encs, true),
            pers_enc: pick_enc(rng, &encs, false),
            fde_enc,
            v4_asz,
            caf: if rng.chance(1, 3) { rng.boundary_u64() } else { 1 + rng.below(8) },
            daf: if rng.chance(1, 3) { rng.boundary_i64() } else { -(rng.below(9) as i64) },
            rar: if version == 1 { rng.below(256) } else if rng.chance(1, 4) { 0xffff } else { rng.below(200) },
            instr,
            aug_pad: if rng.chance(1, 4) { rng.below(4) as usize } else { 0 },
        });
    }
    // FDE address ranges: mostly disjoint, ascending from a window start, then shuffled
    let nfde = rng.below(7) as usize;
    let mut fdes = Vec::new();
    let mut cur: u128 = match rng.below(4) {
        0 => 0,
        1 => (region as u128 + 0x900) & m as u128,
        _ => (region as u128) & m as u128,
    };
    for _ in 0..nfde {
        let cie = rng.below(ncie as u64) as usize;
        let casz = if !eh && cies[cie].version == 4 { cies[cie].v4_asz } else { asz };
        let cm = mask(casz) as u128;
        let gap = if rng.chance(1, 3) { 0 } else { rng.below(40) as u128 };
        let len = match rng.below(8) {
            0 => 0u128,
            1 => 1,
            _ => 1 + rng.below(0x60) as u128,
        };
        let mut start = cur + gap;
        if start + len > cm + 1 || start > cm {
            // does not fit below the top of this CIE's address space: restart low
            start = rng.below(0x40) as u128;
            if start + len > cm + 1 {
                continue;
            }
        }
        cur = start + len;
        let mut instr = Vec::new();
        if !nop_only && rng.chance(1, 3) {
            instr = vec![0x41, 0x0e, 0x10];
        }
        instr.extend(vec![0u8; rng.below(5) as usize]);
        fdes.push(GFde { cie, fmt64: rng.chance(1, 5), initial: start as u64, len: len as u64, instr, aug_pad: if rng.chance(1, 5) { rng.below(3) as usize } else { 0 } });
    }
    // occasionally an overlapping FDE (the scan returns the first in section order)
    if !fdes.is_empty() && rng.chance(1, 6) {
        let k = rng.below(fdes.len() as u64) as usize;
        let mut f = fdes[k].clone();
        f.len = f.len.saturating_add(rng.below(8));
        let casz = if !eh && cies[f.cie].version == 4 { cies[f.cie].v4_asz } else { asz };
        if (f.initial as u128 + f.len as u128) <= mask(casz) as u128 + 1 {
            fdes.push(f);
        }
    }
    // section order: `.eh_frame` needs each CIE before its FDEs; `.debug_frame` any order
    let mut order: Vec<GEntry> = Vec::new();
    let mut fde_idx: Vec<usize> = (0..fdes.len()).collect();
    for i in (1..fde_idx.len()).rev() {
        let j = rng.below(i as u64 + 1) as usize;
        fde_idx.swap(i, j);
    }
    if eh {
        // interleave: place CIEs at random positions, FDEs after their CIE
        let mut placed = vec![false; ncie];
        for fi in fde_idx {
            let ci = fdes[fi].cie;
            if !placed[ci] {
                order.push(GEntry::Cie(ci));
                placed[ci] = true;
            }
            // sometimes introduce another CIE early (interleaving)
            if rng.chance(1, 4) {
                let cj = rng.below(ncie as u64) as usize;
                if !placed[cj] {
                    order.push(GEntry::Cie(cj));
                    placed[cj] = true;
                }
            }
            order.push(GEntry::Fde(fi));
        }
        for (ci, p) in placed.iter().enumerate() {
            if !*p {
                order.push(GEntry::Cie(ci));
            }
        }
        match rng.below(5) {
            0 => {}
            1 | 2 => order.push(GEntry::Zero(false)),
            3 => {
                // terminator in the middle: what follows must not be reported
                let k = rng.below(order.len() as u64 + 1) as usize;
                // keep CIE-before-FDE: only FDEs whose CIE is before the terminator stay valid, the
                // encoder requires the CIE offset anyway (it is encoded, just not iterated)
                order.insert(k, GEntry::Zero(false));
            }
            _ => order.push(GEntry::Zero(true)),
        }
    } else {
        for ci in 0..ncie {
            order.push(GEntry::Cie(ci));
        }
        for fi in fde_idx {
            order.push(GEntry::Fde(fi));
        }
        for i in (1..order.len()).rev() {
            let j = rng.below(i as u64 + 1) as usize;
            order.swap(i, j);
        }
        if rng.chance(1, 3) {
            let k = rng.below(order.len() as u64 + 1) as usize;
            order.insert(k, GEntry::Zero(rng.chance(1, 3)));
        }
    }
    let spec = SectionSpec { eh, big, asz, layout, cies, fdes, order };
    let enc = encode_section(&spec, rng.next())?;
    Some(GenSection { spec, enc, frame_layout: layout })
}

fn probes(rng: &mut Rng, fdes: &[OFde], asz: u8) -> Vec<u64> {
    let mut v: Vec<u64> = Vec::new();
    for f in fdes {
        let m = mask(f.asz);
        let end = f.initial.wrapping_add(f.len);
        v.extend([f.initial.wrapping_sub(1), f.initial, f.initial.wrapping_add(1), end.wrapping_sub(1), end, end & m, f.initial.wrapping_sub(1) & m]);
        if f.asz < 8 {
            // the same low bits above the address size (must not be found)
            v.push(f.initial | (1u64 << (8 * f.asz as u32)));
        }
    }
    v.extend([0, 1, mask(asz), mask(asz).wrapping_sub(1), u64::MAX, rng.boundary_u64()]);
    v.sort();
    v.dedup();
    v
}

/// hdr for a generated `.eh_frame` section: rows sorted by initial location; `proper` when the
/// table indexes the section (one row per FDE, disjoint non-empty ranges)
fn gen_hdr(rng: &mut Rng, g: &GenSection, size: u8) -> Option<(Vec<u8>, Layout, bool, Vec<(u64, u64)>)> {
    let l = g.frame_layout;
    let m = mask(l.asz);
    let eh_frame_addr = l.sect?;
    // the hdr section sits just before .eh_frame
    let hdr_addr = eh_frame_addr.wrapping_sub(0x100) & m;
    let hl = Layout { asz: l.asz, sect: Some(hdr_addr), text: l.text, data: Some(hdr_addr) };
    let mut rows: Vec<(u64, u64)> = g.enc.fdes.iter().map(|f| (f.initial, eh_frame_addr.wrapping_add(f.off) & m)).collect();
    rows.sort();
    let mut proper = !rows.is_empty() && g.enc.fdes.iter().all(|f| f.len > 0 && f.asz == l.asz);
    for w in rows.windows(2) {
        if w[0].0 == w[1].0 {
            proper = false;
        }
    }
    let mut sorted: Vec<OFde> = g.enc.fdes.clone();
    sorted.sort_by_key(|f| f.initial);
    for w in sorted.windows(2) {
        if w[0].initial as u128 + w[0].len as u128 > w[1].initial as u128 {
            proper = false;
        }
    }
    let fmts: &[u8] = match size {
        2 => &[0x02, 0x0a],
        4 => &[0x03, 0x0b],
        _ => &[0x04, 0x0c],
    };
    for _ in 0..8 {
        let tbl_enc = *rng.pick(fmts) | *rng.pick(&[0x00u8, 0x10, 0x30, 0x30, 0x20]);
        let ptr_enc = *rng.pick(&[0x1bu8, 0x03, 0x04, 0x00, 0x33, 0x0c, 0x1c]);
        let cnt_enc = *rng.pick(&[0x03u8, 0x03, 0x04, 0x02, 0x01, 0x00, 0x0b]);
        if let Some(b) = encode_hdr(g.spec.big, &hl, ptr_enc, cnt_enc, tbl_enc, eh_frame_addr, rows.len() as u64, &rows) {
            return Some((b, hl, proper, rows));
        }
    }
    None
}

/// `.eh_frame` / `.eh_frame_hdr` of a compiler-built ELF file on this machine, with the FDE list
/// as `readelf --debug-dump=frames` prints it (an oracle independent of gimli, the Model and this
/// file's encoder). `None` when the file or readelf is missing or the output is not understood.
fn real_binary(path: &str) -> Option<(Vec<u8>, u64, Vec<u8>, u64, Vec<OFde>)> {
    use std::process::Command;
    let file = std::fs::read(path).ok()?;
    let out = Command::new("readelf").args(["-SW", path]).output().ok()?;
    let txt = String::from_utf8_lossy(&out.stdout).to_string();
    let mut eh: Option<(u64, usize, usize)> = None;
    let mut hdr: Option<(u64, usize, usize)> = None;
    for l in txt.lines() {
        let Some(i) = l.find(']') else { continue };
        let t: Vec<&str> = l[i + 1..].split_whitespace().collect();
        if t.len() < 5 {
            continue;
        }
        let parse = || -> Option<(u64, usize, usize)> { Some((u64::from_str_radix(t[2], 16).ok()?, usize::from_str_radix(t[3], 16).ok()?, usize::from_str_radix(t[4], 16).ok()?)) };
        if t[0] == ".eh_frame" {
            eh = parse();
        } else if t[0] == ".eh_frame_hdr" {
            hdr = parse();
        }
    }
    let (eh_addr, eh_off, eh_size) = eh?;
    let (hdr_addr, hdr_off, hdr_size) = hdr?;
    let sec = file.get(eh_off..eh_off + eh_size)?.to_vec();
    let hb = file.get(hdr_off..hdr_off + hdr_size)?.to_vec();
    let out = Command::new("readelf").args(["--debug-dump=frames", path]).output().ok()?;
    let txt = String::from_utf8_lossy(&out.stdout).to_string();
    let mut fdes = Vec::new();
    for l in txt.lines() {
        // 00000018 0000000000000014 0000001c FDE cie=00000000 pc=00000000000023d0..00000000000023f2
        let t: Vec<&str> = l.split_whitespace().collect();
        if t.len() >= 6 && t[3] == "FDE" && t[5].starts_with("pc=") {
            let off = u64::from_str_radix(t[0], 16).ok()?;
            let (a, b) = t[5][3..].split_once("..")?;
            let a = u64::from_str_radix(a, 16).ok()?;
            let b = u64::from_str_radix(b, 16).ok()?;
            fdes.push(OFde { off, initial: a, len: b.wrapping_sub(a), asz: 8 });
        }
    }
    if fdes.is_empty() {
        return None;
    }
    Some((sec, eh_addr, hb, hdr_addr, fdes))
}

fn real_binary_cases(path: &str, nprobes: usize, rng: &mut Rng, emit: &mut dyn FnMut(String)) {
    let Some((sec, eh_addr, hb, hdr_addr, fdes)) = real_binary(path) else { return };
    if cfg!(target_endian = "big") || sec.len() > 64 * 1024 {
        return;
    }
    let m = mode_tok();
    let bt = format!("{hdr_addr},-,{hdr_addr};{eh_addr},-,-");
    let sh = hex(&sec);
    let hh = hex(&hb);
    emit(format!("cfi-entries {m} eh le 8 {bt} - {sh}"));
    // the linker's table is a proper index when the FDEs are non-empty and pairwise disjoint
    let mut sorted = fdes.clone();
    sorted.sort_by_key(|f| f.initial);
    let proper = sorted.iter().all(|f| f.len > 0) && sorted.windows(2).all(|w| w[0].initial + w[0].len <= w[1].initial);
    let ft = ofdes_token(proper, &fdes);
    let mut ps: Vec<u64> = vec![0, u64::MAX, eh_addr];
    for _ in 0..nprobes {
        let f = fdes[rng.below(fdes.len() as u64) as usize];
        let e = f.initial.wrapping_add(f.len);
        ps.push(*rng.pick(&[f.initial.wrapping_sub(1), f.initial, f.initial + f.len / 2, e.wrapping_sub(1), e]));
    }
    ps.sort();
    ps.dedup();
    for a in &ps {
        emit(format!("cfi-lookup {m} eh le 8 {bt} {a} {ft} {sh} {hh}"));
    }
    for a in ps.iter().take(6) {
        emit(format!("hdr-parse {m} le 8 {bt} {a} - {hh}"));
    }
}

fn mode_tok() -> &'static str {
    "@MODE@"
}

pub fn gen(ctx: &Ctx, emit: &mut dyn FnMut(String)) {
    let mut rng = ctx.rng(5);
    let m = mode_tok();
    // ---- all 256 encoding bytes: accept/reject and the accessors
    for b in 0..=255u32 {
        emit(format!("ehpe-valid {b}"));
    }
    // ---- parse_encoded_pointer: every byte x every base set (16) through the hdr / personality /
    //      LSDA paths, address sizes 1,2,4,8 (+ odd ones), both byte orders
    // pass 0: every byte; passes 1..3: the valid encodings again with other sizes / values / byte orders
    let valid = valid_encodings();
    for pass in 0..4u32 {
    for enc in 0..=255u32 {
        if pass > 0 && !valid.contains(&(enc as u8)) {
            continue;
        }
        for set in 0..16u32 {
            let asz = *rng.pick(&[8u8, 8, 4, 4, 2, 1, 3, 7]);
            let e = if rng.chance(1, 3) { "be" } else { "le" };
            let mk = rng.next() & mask(asz.min(8));
            let s = if set & 1 != 0 { Some(mk & !0xff) } else { None };
            let t = if set & 2 != 0 { Some(rng.boundary_u64() & mask(asz)) } else { None };
            let d = if set & 4 != 0 { Some(rng.next() & mask(asz)) } else { None };
            let f = if set & 8 != 0 { Some(rng.boundary_u64() & mask(asz)) } else { None };
            let o = |x: Option<u64>| x.map(|v| v.to_string()).unwrap_or_else(|| "-".into());
            // operand bytes: a boundary value in the format, then junk
            let mut w = W::new(e == "be");
            let fmt = (enc & 0x0f) as u8;
            let x = rng.boundary_u64();
            match fmt {
                0x00 => w.uint(x & mask(asz), asz as usize),
                0x01 => w.uleb(x),
                0x02 | 0x0a => w.u16(x as u16),
                0x03 | 0x0b => w.u32(x as u32),
                0x04 | 0x0c => w.u64(x),
                0x09 => w.sleb(x as i64),
                _ => w.u64(x),
            }
            if rng.chance(1, 8) && !w.b.is_empty() {
                let k = rng.below(w.b.len() as u64) as usize;
                w.b.truncate(k);
            } else if rng.chance(1, 4) {
                w.bytes(&rng.bytes_below(4));
            }
            let bytes = hex(&w.b);
            let (via, off, fb) = if f.is_some() { ("lsda", 44 + rng.below(200), f) } else if rng.chance(1, 2) { ("hdr", 4, None) } else { ("pers", 17, None) };
            let asz = if via == "lsda" && !(1..=8).contains(&asz) { 8 } else { asz };
            emit(format!("ehpe-ptr {m} {via} {e} {enc} {asz} {},{},{} {} {off} {bytes}", o(s), o(t), o(d), o(fb)));
        }
    }
    }
    // address sizes outside 1..8 (API misuse: overflow in `ones_sized`, mode dependent)
    for asz in [0u32, 9, 16, 31, 32, 33, 64, 255] {
        for enc in [0x00u32, 0x03, 0x13, 0x1b, 0x9b, 0x33] {
            let via = if rng.chance(1, 2) { ("hdr", 4) } else { ("pers", 17) };
            emit(format!("ehpe-ptr {m} {} le {enc} {asz} 4096,8192,12288 - {} 0102030405060708", via.0, via.1));
        }
    }
    // ---- structured-valid sections: entries, probes, three lookup paths, hdr tables of sizes 2/4/8
    let nsec = ctx.n(900, 30_000);
    for i in 0..nsec + 96 {
        let nop_only = i % 3 != 0;
        // the first 96 sections enumerate every augmentation subset of zLPRS (z alone = subset 0) for
        // both section kinds, three times; the rest draw everything at random
        let force = if i < 96 { Some((i % 2 == 0, (i as u64 / 2) % 16)) } else { None };
        let Some(g) = gen_section(&mut rng, nop_only, force) else { continue };
        let k = if g.spec.eh { "eh" } else { "df" };
        let e = if g.spec.big { "be" } else { "le" };
        let asz = g.spec.asz;
        let none = Layout { asz, sect: None, text: None, data: None };
        let bt = bases_token(&none, &g.frame_layout);
        let sec = hex(&g.enc.bytes);
        emit(format!("cfi-entries {m} {k} {e} {asz} {bt} {} {sec}", g.enc.expect));
        // the same section with a base missing: error iff a pointer needs it (correspondence only)
        if rng.chance(1, 4) {
            let mut l2 = g.frame_layout;
            match rng.below(3) {
                0 => l2.sect = None,
                1 => l2.text = None,
                _ => l2.data = None,
            }
            emit(format!("cfi-entries {m} {k} {e} {asz} {} - {sec}", bases_token(&none, &l2)));
        }
        let ps = probes(&mut rng, &g.enc.fdes, asz);
        let hsize = *rng.pick(&[2u8, 4, 4, 8]);
        let hdr = if g.spec.eh { gen_hdr(&mut rng, &g, hsize) } else { None };
        let (hh, hl, proper) = match &hdr {
            Some((b, hl, proper, _)) => (hex(b), *hl, *proper),
            None => ("x".to_string(), none, false),
        };
        let bt2 = bases_token(&hl, &g.frame_layout);
        let ft = ofdes_token(proper, &g.enc.fdes);
        let take = ctx.n(10, 40);
        for (j, a) in ps.iter().enumerate() {
            if j >= take && !rng.chance(1, 4) {
                continue;
            }
            emit(format!("cfi-lookup {m} {k} {e} {asz} {bt2} {a} {ft} {sec} {hh}"));
        }
        if let Some((b, hl, _, rows)) = &hdr {
            let rt = if rows.is_empty() { "-".to_string() } else { rows.iter().map(|(k, p)| format!("{k}:{p}")).collect::<Vec<_>>().join(",") };
            for a in ps.iter().take(6) {
                emit(format!("hdr-parse {m} {e} {asz} {} {a} {rt} {}", bases_token(hl, &g.frame_layout), hex(b)));
            }
        }
        // ---- malformed: truncations and byte mutations of the valid section (correspondence only)
        if i % 4 == 0 && !g.enc.bytes.is_empty() {
            for _ in 0..3 {
                let mut bs = g.enc.bytes.clone();
                match rng.below(4) {
                    0 => {
                        let k2 = rng.below(bs.len() as u64) as usize;
                        bs.truncate(k2);
                    }
                    1 => {
                        let k2 = rng.below(bs.len() as u64) as usize;
                        bs[k2] = *rng.pick(&[0u8, 1, 0x7f, 0x80, 0xff, 0xfe, 3, 4, b'z', b'e', b'S']);
                    }
                    2 => {
                        let k2 = rng.below(bs.len() as u64) as usize;
                        bs[k2] = bs[k2].wrapping_add(1);
                    }
                    _ => {
                        let k2 = rng.below(bs.len() as u64) as usize;
                        bs.remove(k2);
                    }
                }
                let sec2 = hex(&bs);
                emit(format!("cfi-entries {m} {k} {e} {asz} {bt} - {sec2}"));
                let a = ps[rng.below(ps.len() as u64) as usize];
                emit(format!("cfi-lookup {m} {k} {e} {asz} {bt2} {a} - {sec2} {hh}"));
            }
        }
    }
    // ---- an FDE that ends exactly at the top of its address space (`end_address` wraps to 0)
    for (i, asz) in [1u8, 2, 4, 8].iter().enumerate() {
        for eh in [true, false] {
            let m64 = mask(*asz);
            let layout = Layout { asz: *asz, sect: Some(0x40 & m64), text: Some(0x10), data: Some(0x20) };
            let cie = GCie { fmt64: false, version: if i % 2 == 0 { 1 } else { 3 }, aug: vec![], lsda_enc: 0, pers_enc: 0, fde_enc: 0, v4_asz: *asz, caf: 1, daf: -4, rar: 16, instr: vec![0, 0, 0], aug_pad: 0 };
            let f0 = GFde { cie: 0, fmt64: false, initial: 0x10, len: 0x10, instr: vec![0, 0], aug_pad: 0 };
            let f1 = GFde { cie: 0, fmt64: false, initial: m64 - 0x0f, len: 0x10, instr: vec![0], aug_pad: 0 };
            let spec = SectionSpec { eh, big: i == 1, asz: *asz, layout, cies: vec![cie], fdes: vec![f0, f1], order: vec![GEntry::Cie(0), GEntry::Fde(0), GEntry::Fde(1)] };
            let Some(enc) = encode_section(&spec, 7) else { continue };
            let k = if eh { "eh" } else { "df" };
            let e = if spec.big { "be" } else { "le" };
            let none = Layout { asz: *asz, sect: None, text: None, data: None };
            let bt = bases_token(&none, &layout);
            let sec = hex(&enc.bytes);
            emit(format!("cfi-entries {m} {k} {e} {asz} {bt} {} {sec}", enc.expect));
            let ft = ofdes_token(false, &enc.fdes);
            for a in [m64 - 0x10, m64 - 0x0f, m64 - 1, m64, 0, 0x1f, 0x20] {
                emit(format!("cfi-lookup {m} {k} {e} {asz} {bt} {a} {ft} {sec} x"));
            }
        }
    }
    // ---- hdr tables on their own: every entry size, n = 1..40 rows (binary search at every
    //      boundary), sorted; plus unsorted / short / huge-count tables without oracle
    let nh = ctx.n(250, 6000);
    for i in 0..nh {
        let big = rng.chance(1, 3);
        let e = if big { "be" } else { "le" };
        let size = *rng.pick(&[2u8, 4, 8]);
        let asz = *rng.pick(&[8u8, 8, 4, 2]);
        let mk = mask(asz);
        let n = if i < 45 { i as u64 % 45 + 1 } else { 1 + rng.below(40) };
        let span: u64 = match size {
            2 => 0x7000,
            4 => 0x7000_0000,
            _ => u64::MAX >> 2,
        } & mk;
        let hdr_addr = if size == 2 { 0x100 } else { (rng.next() & mk & !0xff) >> 1 };
        let hl = Layout { asz, sect: Some(hdr_addr), text: Some(hdr_addr.wrapping_add(0x40) & mk), data: Some(hdr_addr) };
        let mut keys: Vec<u64> = (0..n).map(|_| (hdr_addr.wrapping_add(rng.below(span.max(1)))) & mk).collect();
        keys.sort();
        if rng.chance(3, 4) {
            keys.dedup();
        }
        let rows: Vec<(u64, u64)> = keys.iter().enumerate().map(|(j, k)| (*k, (hdr_addr.wrapping_add(0x10 + 8 * j as u64)) & mk)).collect();
        let fmts: &[u8] = match size {
            2 => &[0x02, 0x0a],
            4 => &[0x03, 0x0b],
            _ => &[0x04, 0x0c],
        };
        let tbl_enc = *rng.pick(fmts) | *rng.pick(&[0x00u8, 0x10, 0x30, 0x20]);
        let Some(hb) = encode_hdr(big, &hl, *rng.pick(&[0x1bu8, 0x03, 0x00, 0x33]), *rng.pick(&[0x03u8, 0x04, 0x01]), tbl_enc, hdr_addr.wrapping_add(0x10) & mk, rows.len() as u64, &rows) else { continue };
        let none = Layout { asz, sect: None, text: None, data: None };
        let bt = bases_token(&hl, &none);
        let rt = rows.iter().map(|(k, p)| format!("{k}:{p}")).collect::<Vec<_>>().join(",");
        let mut ps: Vec<u64> = vec![0, u64::MAX, mk];
        for (k, _) in &rows {
            ps.extend([k.wrapping_sub(1), *k, k.wrapping_add(1)]);
        }
        ps.sort();
        ps.dedup();
        let take = ctx.n(12, 200);
        for (j, a) in ps.iter().enumerate() {
            if j >= take && !rng.chance(1, 6) {
                continue;
            }
            emit(format!("hdr-parse {m} {e} {asz} {bt} {a} {rt} {}", hex(&hb)));
        }
        // malformed variants: correspondence only
        if i % 3 == 0 {
            let mut b2 = hb.clone();
            match rng.below(5) {
                0 => {
                    let k = rng.below(b2.len() as u64) as usize;
                    b2.truncate(k);
                }
                1 => {
                    let k = rng.below(4) as usize;
                    b2[k] = rng.next() as u8;
                }
                2 => {
                    // announce a huge count
                    if b2.len() > 12 {
                        for x in &mut b2[8..12] {
                            *x = 0xff;
                        }
                    }
                }
                3 => {
                    let k = rng.below(b2.len() as u64) as usize;
                    b2[k] ^= 0x80;
                }
                _ => b2.reverse(),
            }
            let a = ps[rng.below(ps.len() as u64) as usize];
            emit(format!("hdr-parse {m} {e} {asz} {bt} {a} - {}", hex(&b2)));
        }
    }
    // hdr with udata8 count near 2^63 / 2^64 (checked multiplication), uleb table encodings (unsupported)
    for cnt in [u64::MAX, 1u64 << 63, (1u64 << 63) + 1, 1u64 << 60, (1u64 << 60) + 1, 3] {
        for tbl in [0x04u8, 0x0c, 0x03, 0x02, 0x01, 0x09, 0x00, 0x3b, 0xff] {
            let mut w = W::new(false);
            w.u8(1);
            w.u8(0x03);
            w.u8(0x04);
            w.u8(tbl);
            w.u32(0x2000);
            w.u64(cnt);
            w.bytes(&rng.bytes(48));
            emit(format!("hdr-parse {m} le 8 4096,8192,4096;-,-,- {} - {}", rng.boundary_u64(), hex(&w.b)));
        }
    }
    // ---- compiler-built binaries of this machine, FDE list from readelf as the oracle
    real_binary_cases("/usr/bin/true", ctx.n(12, 200), &mut rng, emit);
    if ctx.tier == Tier::Thorough {
        for p in ["/usr/bin/cat", "/usr/bin/ls", "/usr/bin/objcopy", "/usr/bin/readelf"] {
            real_binary_cases(p, 120, &mut rng, emit);
        }
    }
    if ctx.tier == Tier::Thorough {
        // pure random bytes through every op
        for _ in 0..20_000 {
            let bs = rng.bytes_below(64);
            let e = if rng.chance(1, 2) { "le" } else { "be" };
            let k = if rng.chance(1, 2) { "eh" } else { "df" };
            emit(format!("cfi-entries {m} {k} {e} 8 -,-,-;4096,8192,12288 - {}", hex(&bs)));
            emit(format!("hdr-parse {m} {e} 8 4096,8192,4096;-,-,- {} - {}", rng.boundary_u64(), hex(&bs)));
        }
    }
}
