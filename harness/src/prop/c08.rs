//! C08 — range and location lists. Implementation side of the `lists-*` / `dieranges` ops, the
//! direct oracle (naive re-implementation of the standard's resolution over the abstract list,
//! non-empty / below-tombstone check on everything the crate yields) and the generator.
use crate::prop::Ctx;
use crate::util::{hex, rerr, unhex, Rng};
use gimli::read::{
    DebugAddr, DebugLoc, DebugLocLists, DebugRanges, DebugRngLists, LocationLists, RangeLists, RawLocListEntry,
    RawRngListEntry,
};
use gimli::{
    DebugAddrBase, DebugAddrIndex, DebugLocListsBase, DebugLocListsIndex, DebugRngListsBase, DebugRngListsIndex,
    Encoding, EndianSlice, Format, LocationListsOffset, RangeListsOffset, RunTimeEndian,
};

type R<'a> = EndianSlice<'a, RunTimeEndian>;

#[derive(Clone, Copy, PartialEq, Eq, Debug)]
enum Kind {
    Rng,
    Loc,
}

/// abstract list entry (canonical text: see `Gimli/Drv/C08.lean`)
#[derive(Clone, PartialEq, Eq, Debug)]
enum Ent {
    Pair(u64, u64, Vec<u8>),
    Base(u64),
    Basex(u64),
    XX(u64, u64, Vec<u8>),
    XL(u64, u64, Vec<u8>),
    OP(u64, u64, Vec<u8>),
    DL(Vec<u8>),
    SE(u64, u64, Vec<u8>),
    SL(u64, u64, Vec<u8>),
}

#[derive(Clone, Copy)]
struct Cfg {
    big: bool,
    enc: Encoding,
}

impl Cfg {
    fn endian(&self) -> RunTimeEndian {
        if self.big { RunTimeEndian::Big } else { RunTimeEndian::Little }
    }
    fn text(&self) -> String {
        format!(
            "{},{},{},{}",
            if self.big { "be" } else { "le" },
            self.enc.address_size,
            if self.enc.format == Format::Dwarf64 { 64 } else { 32 },
            self.enc.version
        )
    }
}

fn cfg(s: &str) -> Option<Cfg> {
    let p: Vec<&str> = s.split(',').collect();
    if p.len() != 4 {
        return None;
    }
    let big = match p[0] {
        "le" => false,
        "be" => true,
        _ => return None,
    };
    let address_size: u8 = p[1].parse().ok()?;
    // the Model covers address sizes 1..=8 (`ones_sized` shifts by `64 - 8*size`)
    if address_size == 0 || address_size > 8 {
        return None;
    }
    let format = match p[2] {
        "32" => Format::Dwarf32,
        "64" => Format::Dwarf64,
        _ => return None,
    };
    let version: u16 = p[3].parse().ok()?;
    Some(Cfg { big, enc: Encoding { address_size, format, version } })
}

fn kind(s: &str) -> Option<Kind> {
    match s {
        "rng" => Some(Kind::Rng),
        "loc" => Some(Kind::Loc),
        _ => None,
    }
}

fn flag(s: &str) -> Option<bool> {
    match s {
        "0" => Some(false),
        "1" => Some(true),
        _ => None,
    }
}

// ---------- canonical text ----------

fn ent_text(e: &Ent) -> String {
    match e {
        Ent::Pair(b, e, d) => format!("P:{b},{e},{}", hex(d)),
        Ent::Base(a) => format!("B:{a}"),
        Ent::Basex(i) => format!("Bx:{i}"),
        Ent::XX(b, e, d) => format!("XX:{b},{e},{}", hex(d)),
        Ent::XL(b, l, d) => format!("XL:{b},{l},{}", hex(d)),
        Ent::OP(b, e, d) => format!("OP:{b},{e},{}", hex(d)),
        Ent::DL(d) => format!("DL:{}", hex(d)),
        Ent::SE(b, e, d) => format!("SE:{b},{e},{}", hex(d)),
        Ent::SL(b, l, d) => format!("SL:{b},{l},{}", hex(d)),
    }
}

fn ents_text(es: &[Ent]) -> String {
    if es.is_empty() {
        return "-".into();
    }
    es.iter().map(ent_text).collect::<Vec<_>>().join(";")
}

fn parse_ent(s: &str) -> Option<Ent> {
    let (tag, body) = s.split_once(':')?;
    let f: Vec<&str> = body.split(',').collect();
    let n = |i: usize| -> Option<u64> { f.get(i)?.parse().ok() };
    let d = |i: usize| -> Option<Vec<u8>> { unhex(f.get(i)?) };
    Some(match (tag, f.len()) {
        ("P", 3) => Ent::Pair(n(0)?, n(1)?, d(2)?),
        ("B", 1) => Ent::Base(n(0)?),
        ("Bx", 1) => Ent::Basex(n(0)?),
        ("XX", 3) => Ent::XX(n(0)?, n(1)?, d(2)?),
        ("XL", 3) => Ent::XL(n(0)?, n(1)?, d(2)?),
        ("OP", 3) => Ent::OP(n(0)?, n(1)?, d(2)?),
        ("DL", 1) => Ent::DL(d(0)?),
        ("SE", 3) => Ent::SE(n(0)?, n(1)?, d(2)?),
        ("SL", 3) => Ent::SL(n(0)?, n(1)?, d(2)?),
        _ => return None,
    })
}

fn parse_ents(s: &str) -> Option<Vec<Ent>> {
    if s == "-" {
        return Some(vec![]);
    }
    s.split(';').map(parse_ent).collect()
}

fn events_text(evs: &[String]) -> String {
    if evs.is_empty() { "-".into() } else { evs.join(";") }
}

// ---------- the harness's own encoder (independent of the Lean `encodeList`) ----------

/// (use the DWARF<=4 section, entries are DW_*LE coded)
fn section_format(k: Kind, version: u16, dwo: bool) -> (bool, bool) {
    if version <= 4 { (true, k == Kind::Loc && dwo) } else { (false, true) }
}

fn put_uint(out: &mut Vec<u8>, big: bool, size: usize, v: u64) {
    let le = v.to_le_bytes();
    if big {
        for i in (0..size).rev() {
            out.push(le[i]);
        }
    } else {
        out.extend_from_slice(&le[..size]);
    }
}

fn put_uleb(out: &mut Vec<u8>, mut v: u64) {
    loop {
        let b = (v & 0x7f) as u8;
        v >>= 7;
        if v != 0 {
            out.push(b | 0x80);
        } else {
            out.push(b);
            return;
        }
    }
}

fn fits(v: u64, size: u8) -> bool {
    size >= 8 || v >> (8 * size as u32) == 0
}

fn put_data(out: &mut Vec<u8>, k: Kind, c: &Cfg, coded: bool, d: &[u8]) -> Option<()> {
    match k {
        Kind::Rng => {
            if !d.is_empty() {
                return None;
            }
        }
        Kind::Loc => {
            if coded && c.enc.version >= 5 {
                put_uleb(out, d.len() as u64);
            } else {
                if d.len() > 0xffff {
                    return None;
                }
                put_uint(out, c.big, 2, d.len() as u64);
            }
            out.extend_from_slice(d);
        }
    }
    Some(())
}

/// `None` = not a well-formed entry for this family / configuration / format
fn encode_entry(out: &mut Vec<u8>, k: Kind, c: &Cfg, coded: bool, e: &Ent) -> Option<()> {
    let s = c.enc.address_size;
    let a = |out: &mut Vec<u8>, v: u64| -> Option<()> {
        if !fits(v, s) {
            return None;
        }
        put_uint(out, c.big, s as usize, v);
        Some(())
    };
    let ones = if s >= 8 { u64::MAX } else { (1u64 << (8 * s as u32)) - 1 };
    if !coded {
        match e {
            Ent::Pair(b, en, d) => {
                if (*b == 0 && *en == 0) || *b == ones {
                    return None;
                }
                a(out, *b)?;
                a(out, *en)?;
                put_data(out, k, c, false, d)
            }
            Ent::Base(addr) => {
                a(out, ones)?;
                a(out, *addr)
            }
            _ => None,
        }
    } else {
        let rng = k == Kind::Rng;
        match e {
            Ent::Pair(..) => None,
            Ent::Basex(i) => {
                out.push(1);
                put_uleb(out, *i);
                Some(())
            }
            Ent::XX(b, en, d) => {
                out.push(2);
                put_uleb(out, *b);
                put_uleb(out, *en);
                put_data(out, k, c, true, d)
            }
            Ent::XL(b, l, d) => {
                out.push(3);
                put_uleb(out, *b);
                if k == Kind::Loc && c.enc.version < 5 {
                    if *l > 0xffff_ffff {
                        return None;
                    }
                    put_uint(out, c.big, 4, *l);
                } else {
                    put_uleb(out, *l);
                }
                put_data(out, k, c, true, d)
            }
            Ent::OP(b, en, d) => {
                out.push(4);
                put_uleb(out, *b);
                put_uleb(out, *en);
                put_data(out, k, c, true, d)
            }
            Ent::DL(d) => {
                if rng {
                    return None;
                }
                out.push(5);
                put_data(out, k, c, true, d)
            }
            Ent::Base(addr) => {
                out.push(if rng { 5 } else { 6 });
                a(out, *addr)
            }
            Ent::SE(b, en, d) => {
                out.push(if rng { 6 } else { 7 });
                a(out, *b)?;
                a(out, *en)?;
                put_data(out, k, c, true, d)
            }
            Ent::SL(b, l, d) => {
                out.push(if rng { 7 } else { 8 });
                a(out, *b)?;
                put_uleb(out, *l);
                put_data(out, k, c, true, d)
            }
        }
    }
}

fn encode_list(k: Kind, c: &Cfg, coded: bool, es: &[Ent]) -> Option<Vec<u8>> {
    if ![1u8, 2, 4, 8].contains(&c.enc.address_size) {
        return None;
    }
    let mut out = Vec::new();
    for e in es {
        encode_entry(&mut out, k, c, coded, e)?;
    }
    if coded {
        out.push(0);
    } else {
        put_uint(&mut out, c.big, c.enc.address_size as usize, 0);
        put_uint(&mut out, c.big, c.enc.address_size as usize, 0);
    }
    Some(out)
}

// ---------- the real crate ----------

fn raw_rng_ent(e: RawRngListEntry<usize>) -> Ent {
    match e {
        RawRngListEntry::AddressOrOffsetPair { begin, end } => Ent::Pair(begin, end, vec![]),
        RawRngListEntry::BaseAddress { addr } => Ent::Base(addr),
        RawRngListEntry::BaseAddressx { addr } => Ent::Basex(addr.0 as u64),
        RawRngListEntry::StartxEndx { begin, end } => Ent::XX(begin.0 as u64, end.0 as u64, vec![]),
        RawRngListEntry::StartxLength { begin, length } => Ent::XL(begin.0 as u64, length, vec![]),
        RawRngListEntry::OffsetPair { begin, end } => Ent::OP(begin, end, vec![]),
        RawRngListEntry::StartEnd { begin, end } => Ent::SE(begin, end, vec![]),
        RawRngListEntry::StartLength { begin, length } => Ent::SL(begin, length, vec![]),
    }
}

fn raw_loc_ent(e: RawLocListEntry<R>) -> Ent {
    let d = |x: gimli::Expression<R>| x.0.slice().to_vec();
    match e {
        RawLocListEntry::AddressOrOffsetPair { begin, end, data } => Ent::Pair(begin, end, d(data)),
        RawLocListEntry::BaseAddress { addr } => Ent::Base(addr),
        RawLocListEntry::BaseAddressx { addr } => Ent::Basex(addr.0 as u64),
        RawLocListEntry::StartxEndx { begin, end, data } => Ent::XX(begin.0 as u64, end.0 as u64, d(data)),
        RawLocListEntry::StartxLength { begin, length, data } => Ent::XL(begin.0 as u64, length, d(data)),
        RawLocListEntry::OffsetPair { begin, end, data } => Ent::OP(begin, end, d(data)),
        RawLocListEntry::DefaultLocation { data } => Ent::DL(d(data)),
        RawLocListEntry::StartEnd { begin, end, data } => Ent::SE(begin, end, d(data)),
        RawLocListEntry::StartLength { begin, length, data } => Ent::SL(begin, length, d(data)),
    }
}

/// one result of `next()`: an item or an error
#[derive(Clone, PartialEq, Eq, Debug)]
enum Ev<T> {
    Item(T),
    Error(String),
}

/// call `next` until `Ok(None)`; the step cap (input length + 2 calls) is part of the check:
/// every entry consumes at least one byte
fn drain<T>(cap: usize, mut next: impl FnMut() -> gimli::Result<Option<T>>) -> Result<Vec<Ev<T>>, String> {
    let mut out = Vec::new();
    for _ in 0..cap {
        match next() {
            Ok(Some(x)) => out.push(Ev::Item(x)),
            Ok(None) => {
                // the end is final: the iterator must not resume behind the terminator
                for _ in 0..2 {
                    match next() {
                        Ok(None) => {}
                        Ok(Some(_)) => out.push(Ev::Error("ItemAfterEnd".into())),
                        Err(_) => out.push(Ev::Error("ErrAfterEnd".into())),
                    }
                }
                return Ok(out);
            }
            Err(e) => out.push(Ev::Error(rerr(&e))),
        }
    }
    Err("no-end-within-len-plus-2-calls".to_string())
}

struct Secs<'a> {
    legacy: &'a [u8],
    v5: &'a [u8],
}

type Rangeish = (u64, u64, Vec<u8>);

fn real_raw(k: Kind, c: &Cfg, dwo: bool, s: &Secs, off: usize) -> Result<Result<Vec<Ev<Ent>>, String>, gimli::Error> {
    let e = c.endian();
    let cap = s.legacy.len().max(s.v5.len()) + 2;
    Ok(match k {
        Kind::Rng => {
            let rl = RangeLists::new(DebugRanges::new(s.legacy, e), DebugRngLists::new(s.v5, e));
            let mut it = rl.raw_ranges(RangeListsOffset(off), c.enc)?;
            drain(cap, || it.next()).map(|v| v.into_iter().map(|x| match x {
                Ev::Item(r) => Ev::Item(raw_rng_ent(r)),
                Ev::Error(e) => Ev::Error(e),
            }).collect())
        }
        Kind::Loc => {
            let ll = LocationLists::new(DebugLoc::new(s.legacy, e), DebugLocLists::new(s.v5, e));
            let mut it = if dwo { ll.raw_locations_dwo(LocationListsOffset(off), c.enc)? } else { ll.raw_locations(LocationListsOffset(off), c.enc)? };
            drain(cap, || it.next()).map(|v| v.into_iter().map(|x| match x {
                Ev::Item(r) => Ev::Item(raw_loc_ent(r)),
                Ev::Error(e) => Ev::Error(e),
            }).collect())
        }
    })
}

fn real_cooked(k: Kind, c: &Cfg, dwo: bool, s: &Secs, off: usize, base: u64, addr: &[u8], ab: usize) -> Result<Result<Vec<Ev<Rangeish>>, String>, gimli::Error> {
    let e = c.endian();
    let cap = s.legacy.len().max(s.v5.len()) + 2;
    let debug_addr = DebugAddr::from(EndianSlice::new(addr, e));
    Ok(match k {
        Kind::Rng => {
            let rl = RangeLists::new(DebugRanges::new(s.legacy, e), DebugRngLists::new(s.v5, e));
            let mut it = rl.ranges(RangeListsOffset(off), c.enc, base, &debug_addr, DebugAddrBase(ab))?;
            drain(cap, || it.next()).map(|v| v.into_iter().map(|x| match x {
                Ev::Item(r) => Ev::Item((r.begin, r.end, vec![])),
                Ev::Error(e) => Ev::Error(e),
            }).collect())
        }
        Kind::Loc => {
            let ll = LocationLists::new(DebugLoc::new(s.legacy, e), DebugLocLists::new(s.v5, e));
            let o = LocationListsOffset(off);
            let mut it = if dwo { ll.locations_dwo(o, c.enc, base, &debug_addr, DebugAddrBase(ab))? } else { ll.locations(o, c.enc, base, &debug_addr, DebugAddrBase(ab))? };
            drain(cap, || it.next()).map(|v| v.into_iter().map(|x| match x {
                Ev::Item(r) => Ev::Item((r.range.begin, r.range.end, r.data.0.slice().to_vec())),
                Ev::Error(e) => Ev::Error(e),
            }).collect())
        }
    })
}

fn raw_text(evs: &[Ev<Ent>]) -> String {
    events_text(&evs.iter().map(|e| match e {
        Ev::Item(x) => ent_text(x),
        Ev::Error(e) => format!("!{e}"),
    }).collect::<Vec<_>>())
}

fn cooked_text(evs: &[Ev<Rangeish>]) -> String {
    events_text(&evs.iter().map(|e| match e {
        Ev::Item((b, e, d)) => format!("R:{b},{e},{}", hex(d)),
        Ev::Error(e) => format!("!{e}"),
    }).collect::<Vec<_>>())
}

// ---------- direct oracle ----------

/// third sentence of C08: every yielded range is non-empty and begins below the tombstones
/// (-2 and -1 as addresses of the unit's address size)
fn check_yield(c: &Cfg, evs: &[Ev<Rangeish>]) -> Option<String> {
    let m: u128 = 1u128 << (8 * c.enc.address_size as u32);
    for e in evs {
        if let Ev::Item((b, en, _)) = e {
            if !(*b < *en) {
                return Some(format!("yielded-empty {b}..{en}"));
            }
            if (*b as u128) >= m - 2 {
                return Some(format!("yielded-tombstone {b}..{en}"));
            }
        }
    }
    None
}

#[derive(Clone, PartialEq, Eq, Debug)]
enum Den {
    R(u64, u64, Vec<u8>),
    Undef,
}

/// The standard's resolution, naively: 128-bit arithmetic modulo 2^(8·size), address table =
/// `size`-byte integers at `ab + i·size`.
fn spec_resolve(c: &Cfg, addr: &[u8], ab: u64, base0: u64, es: &[Ent]) -> Vec<Den> {
    let s = c.enc.address_size as u128;
    let m: u128 = 1u128 << (8 * s as u32);
    let tomb = m - 2;
    let tbl = |i: u64| -> Option<u128> {
        let off = ab as u128 + i as u128 * s;
        if off + s > addr.len() as u128 {
            return None;
        }
        let sl = &addr[off as usize..(off + s) as usize];
        let mut v: u128 = 0;
        if c.big {
            for b in sl {
                v = v << 8 | *b as u128;
            }
        } else {
            for b in sl.iter().rev() {
                v = v << 8 | *b as u128;
            }
        }
        Some(v)
    };
    let mut base = base0 as u128;
    let mut out = Vec::new();
    for e in es {
        // (begin, end, data, relative to base)
        let r: Option<(u128, u128, &Vec<u8>, bool)> = match e {
            Ent::Base(a) => {
                base = *a as u128;
                continue;
            }
            Ent::Basex(i) => {
                match tbl(*i) {
                    Some(a) => base = a,
                    None => out.push(Den::Undef),
                }
                continue;
            }
            Ent::Pair(b, en, d) | Ent::OP(b, en, d) => Some(((base + *b as u128) % m, (base + *en as u128) % m, d, true)),
            Ent::XX(b, en, d) => match (tbl(*b), tbl(*en)) {
                (Some(b), Some(en)) => Some((b, en, d, false)),
                _ => None,
            },
            Ent::XL(b, l, d) => tbl(*b).map(|b| (b, (b + *l as u128) % m, d, false)),
            Ent::DL(d) => Some((0, u64::MAX as u128, d, false)),
            Ent::SE(b, en, d) => Some((*b as u128, *en as u128, d, false)),
            Ent::SL(b, l, d) => Some((*b as u128, (*b as u128 + *l as u128) % m, d, false)),
        };
        match r {
            None => out.push(Den::Undef),
            Some((b, en, d, rel)) => {
                let keep = (!rel || base < tomb) && b < tomb && b < en;
                if keep {
                    out.push(Den::R(b as u64, en as u64, d.clone()));
                }
            }
        }
    }
    out
}

fn with_oracle(s: String, o: Option<String>) -> String {
    match o {
        Some(w) => format!("{s} #oracle:{w}"),
        None => s,
    }
}

fn render<T>(r: Result<Result<Vec<Ev<T>>, String>, gimli::Error>, f: impl Fn(&[Ev<T>]) -> String) -> (String, Option<Vec<Ev<T>>>) {
    match r {
        Err(e) => (format!("err {}", rerr(&e)), None),
        Ok(Err(why)) => (format!("hang {why}"), None),
        Ok(Ok(v)) => (format!("ok {}", f(&v)), Some(v)),
    }
}

/// the word (`format.word_size()` bytes) at `base + index·word_size`, added to `base`
fn naive_get_offset(c: &Cfg, sec: &[u8], base: u64, idx: u64) -> Option<u64> {
    let w: u128 = if c.enc.format == Format::Dwarf64 { 8 } else { 4 };
    let at = base as u128 + idx as u128 * w;
    if at + w > sec.len() as u128 {
        return None;
    }
    let sl = &sec[at as usize..(at + w) as usize];
    let mut v: u128 = 0;
    if c.big {
        for b in sl {
            v = v << 8 | *b as u128;
        }
    } else {
        for b in sl.iter().rev() {
            v = v << 8 | *b as u128;
        }
    }
    let r = base as u128 + v;
    if r > u64::MAX as u128 { None } else { Some(r as u64) }
}

fn naive_get_address(c: &Cfg, sec: &[u8], base: u64, idx: u64) -> Option<u64> {
    let s = c.enc.address_size;
    if ![1u8, 2, 4, 8].contains(&s) {
        return None;
    }
    let w = s as u128;
    let at = base as u128 + idx as u128 * w;
    if at + w > sec.len() as u128 {
        return None;
    }
    let sl = &sec[at as usize..(at + w) as usize];
    let mut v: u64 = 0;
    if c.big {
        for b in sl {
            v = v << 8 | *b as u64;
        }
    } else {
        for b in sl.iter().rev() {
            v = v << 8 | *b as u64;
        }
    }
    Some(v)
}


// ---------- units: `lists-die` ----------

#[derive(Clone, Copy, PartialEq, Eq, Debug)]
enum AName {
    Low,
    High,
    Ranges,
    Loc,
    ABase,
    GABase,
    RBase,
    GRBase,
    LBase,
    Other,
}

#[derive(Clone, Copy, PartialEq, Eq, Debug)]
enum AVal {
    Addr(u64),
    Addrx(u64),
    Udata(u64),
    Sec(u64),
    Listx(u64),
    Other,
}

fn parse_attrs(s: &str) -> Option<Vec<(AName, AVal)>> {
    if s == "-" {
        return Some(vec![]);
    }
    s.split(',')
        .map(|t| {
            let (n, v) = t.split_once('=')?;
            let n = match n {
                "low" => AName::Low,
                "high" => AName::High,
                "ranges" => AName::Ranges,
                "loc" => AName::Loc,
                "abase" => AName::ABase,
                "gabase" => AName::GABase,
                "rbase" => AName::RBase,
                "grbase" => AName::GRBase,
                "lbase" => AName::LBase,
                "other" => AName::Other,
                _ => return None,
            };
            let num = |v: &str| -> Option<u64> { v[1..].parse().ok() };
            let v = match v.as_bytes().first()? {
                b'o' if v.len() == 1 => AVal::Other,
                b'a' => AVal::Addr(num(v)?),
                b'x' => AVal::Addrx(num(v)?),
                b'u' => AVal::Udata(num(v)?),
                b'r' => AVal::Sec(num(v)?),
                b'i' => AVal::Listx(num(v)?),
                _ => return None,
            };
            Some((n, v))
        })
        .collect()
}

fn attrs_text(a: &[(AName, AVal)]) -> String {
    if a.is_empty() {
        return "-".into();
    }
    a.iter()
        .map(|(n, v)| {
            let n = match n {
                AName::Low => "low",
                AName::High => "high",
                AName::Ranges => "ranges",
                AName::Loc => "loc",
                AName::ABase => "abase",
                AName::GABase => "gabase",
                AName::RBase => "rbase",
                AName::GRBase => "grbase",
                AName::LBase => "lbase",
                AName::Other => "other",
            };
            let v = match v {
                AVal::Addr(x) => format!("a{x}"),
                AVal::Addrx(x) => format!("x{x}"),
                AVal::Udata(x) => format!("u{x}"),
                AVal::Sec(x) => format!("r{x}"),
                AVal::Listx(x) => format!("i{x}"),
                AVal::Other => "o".into(),
            };
            format!("{n}={v}")
        })
        .collect::<Vec<_>>()
        .join(",")
}

const DW_FORM_ADDR: u64 = 0x01;
const DW_FORM_DATA2: u64 = 0x05;
const DW_FORM_DATA4: u64 = 0x06;
const DW_FORM_DATA8: u64 = 0x07;
const DW_FORM_DATA1: u64 = 0x0b;
const DW_FORM_SDATA: u64 = 0x0d;
const DW_FORM_UDATA: u64 = 0x0f;
const DW_FORM_SEC_OFFSET: u64 = 0x17;
const DW_FORM_FLAG_PRESENT: u64 = 0x19;
const DW_FORM_ADDRX: u64 = 0x1b;
const DW_FORM_LOCLISTX: u64 = 0x22;
const DW_FORM_RNGLISTX: u64 = 0x23;
const DW_FORM_ADDRX1: u64 = 0x29;
const DW_FORM_ADDRX2: u64 = 0x2a;
const DW_FORM_ADDRX4: u64 = 0x2c;
const DW_FORM_GNU_ADDR_INDEX: u64 = 0x1f01;

fn at_code(n: AName) -> u64 {
    match n {
        AName::Low => 0x11,
        AName::High => 0x12,
        AName::Ranges => 0x55,
        AName::Loc => 0x02,
        AName::ABase => 0x73,
        AName::GABase => 0x2133,
        AName::RBase => 0x74,
        AName::GRBase => 0x2132,
        AName::LBase => 0x8c,
        AName::Other => 0x3a, // DW_AT_decl_file
    }
}

/// choose a form whose normalised value (`Attribute::value()`) is the abstract value; the choice
/// among equivalent forms is a deterministic function of the value; `None` = cannot be encoded
fn put_attr(c: &Cfg, n: AName, v: AVal, spec: &mut Vec<u8>, val: &mut Vec<u8>) -> Option<()> {
    let s = c.enc.address_size;
    let word: usize = if c.enc.format == Format::Dwarf64 { 8 } else { 4 };
    let form;
    match v {
        AVal::Addr(a) => {
            if !fits(a, s) {
                return None;
            }
            form = DW_FORM_ADDR;
            put_uint(val, c.big, s as usize, a);
        }
        AVal::Addrx(i) => match i % 5 {
            0 if i < 0x100 => {
                form = DW_FORM_ADDRX1;
                val.push(i as u8);
            }
            1 if i < 0x1_0000 => {
                form = DW_FORM_ADDRX2;
                put_uint(val, c.big, 2, i);
            }
            2 if i < 0x1_0000_0000 => {
                form = DW_FORM_ADDRX4;
                put_uint(val, c.big, 4, i);
            }
            3 => {
                form = DW_FORM_GNU_ADDR_INDEX;
                put_uleb(val, i);
            }
            _ => {
                form = DW_FORM_ADDRX;
                put_uleb(val, i);
            }
        },
        AVal::Udata(x) => {
            // data4/data8 would be read as a section offset for DW_AT_ranges / DW_AT_location
            let plain = n == AName::Ranges || n == AName::Loc;
            match x % 6 {
                0 if x < 0x100 && !plain => {
                    form = DW_FORM_DATA1;
                    val.push(x as u8);
                }
                1 if x < 0x1_0000 && !plain => {
                    form = DW_FORM_DATA2;
                    put_uint(val, c.big, 2, x);
                }
                2 if x < 0x1_0000_0000 && !plain => {
                    form = DW_FORM_DATA4;
                    put_uint(val, c.big, 4, x);
                }
                3 if !plain => {
                    form = DW_FORM_DATA8;
                    put_uint(val, c.big, 8, x);
                }
                4 if x <= i64::MAX as u64 && n == AName::High => {
                    // non-negative DW_FORM_sdata counts as an unsigned constant
                    form = DW_FORM_SDATA;
                    put_uleb(val, x); // positive sleb = uleb plus a sign-clearing byte
                    let last = *val.last().unwrap();
                    if last & 0x40 != 0 {
                        *val.last_mut().unwrap() |= 0x80;
                        val.push(0);
                    }
                }
                _ => {
                    form = DW_FORM_UDATA;
                    put_uleb(val, x);
                }
            }
        }
        AVal::Sec(o) => {
            if word == 4 && o > 0xffff_ffff {
                return None;
            }
            // DWARF 2/3 wrote section offsets as data4 / data8
            if (n == AName::Ranges || n == AName::Loc) && c.enc.version <= 3 {
                form = if word == 4 { DW_FORM_DATA4 } else { DW_FORM_DATA8 };
            } else {
                form = DW_FORM_SEC_OFFSET;
            }
            put_uint(val, c.big, word, o);
        }
        AVal::Listx(i) => {
            form = if n == AName::Loc { DW_FORM_LOCLISTX } else { DW_FORM_RNGLISTX };
            put_uleb(val, i);
        }
        AVal::Other => {
            form = DW_FORM_FLAG_PRESENT;
        }
    }
    put_uleb(spec, at_code(n));
    put_uleb(spec, form);
    Some(())
}

/// (.debug_abbrev, .debug_info): a compile unit DIE with the `root` attributes and one child
/// (DW_TAG_subprogram) with the `die` attributes
fn build_unit(c: &Cfg, dwo: bool, root: &[(AName, AVal)], die: &[(AName, AVal)]) -> Option<(Vec<u8>, Vec<u8>)> {
    let mut abbrev = Vec::new();
    let mut dies = Vec::new();
    // abbrev 1: DW_TAG_compile_unit, has children
    put_uleb(&mut abbrev, 1);
    put_uleb(&mut abbrev, 0x11);
    abbrev.push(1);
    put_uleb(&mut dies, 1);
    for (n, v) in root {
        put_attr(c, *n, *v, &mut abbrev, &mut dies)?;
    }
    abbrev.extend_from_slice(&[0, 0]);
    // abbrev 2: DW_TAG_subprogram, no children
    put_uleb(&mut abbrev, 2);
    put_uleb(&mut abbrev, 0x2e);
    abbrev.push(0);
    put_uleb(&mut dies, 2);
    for (n, v) in die {
        put_attr(c, *n, *v, &mut abbrev, &mut dies)?;
    }
    abbrev.extend_from_slice(&[0, 0]);
    abbrev.push(0);
    dies.push(0); // end of the root's children
    let word: usize = if c.enc.format == Format::Dwarf64 { 8 } else { 4 };
    let mut hdr = Vec::new();
    put_uint(&mut hdr, c.big, 2, c.enc.version as u64);
    if c.enc.version >= 5 {
        hdr.push(if dwo { 0x05 } else { 0x01 });
        hdr.push(c.enc.address_size);
        put_uint(&mut hdr, c.big, word, 0);
        if dwo {
            put_uint(&mut hdr, c.big, 8, 0x1122_3344_5566_7788);
        }
    } else {
        put_uint(&mut hdr, c.big, word, 0);
        hdr.push(c.enc.address_size);
    }
    let mut info = Vec::new();
    let len = (hdr.len() + dies.len()) as u64;
    if word == 8 {
        put_uint(&mut info, c.big, 4, 0xffff_ffff);
        put_uint(&mut info, c.big, 8, len);
    } else {
        put_uint(&mut info, c.big, 4, len);
    }
    info.extend_from_slice(&hdr);
    info.extend_from_slice(&dies);
    Some((abbrev, info))
}

struct DieSecs<'a> {
    addr: &'a [u8],
    ranges: &'a [u8],
    rnglists: &'a [u8],
    loc: &'a [u8],
    loclists: &'a [u8],
}

/// the standard's reading of a DIE's address attributes, naively (u128, address table by
/// position). `None`: not well-formed enough for the standard to define a result.
/// `Some(Err(offset))`: the ranges are the list at `offset`; `Some(Ok(r))`: the single range.
fn naive_die(c: &Cfg, dwo: bool, ub: (u64, u64, u64), secs: &DieSecs, attrs: &[(AName, AVal)]) -> Option<Result<Option<(u64, u64)>, u64>> {
    let (_low_pc, abase, rbase) = ub;
    let address = |v: &AVal| -> Option<u64> {
        match v {
            AVal::Addr(a) => Some(*a),
            AVal::Addrx(i) => naive_get_address(c, secs.addr, abase, *i),
            _ => None,
        }
    };
    // DW_AT_ranges wins
    for (n, v) in attrs {
        if *n == AName::Ranges {
            return match v {
                AVal::Sec(o) => Some(Err(if dwo && c.enc.version < 5 { (*o as u128 + rbase as u128) as u64 } else { *o })),
                AVal::Listx(i) => naive_get_offset(c, secs.rnglists, rbase, *i).map(Err),
                _ => None,
            };
        }
    }
    let lows: Vec<&AVal> = attrs.iter().filter(|(n, _)| *n == AName::Low).map(|(_, v)| v).collect();
    let highs: Vec<&AVal> = attrs.iter().filter(|(n, _)| *n == AName::High).map(|(_, v)| v).collect();
    if lows.len() > 1 || highs.len() > 1 {
        return None;
    }
    let low = match lows.first() {
        None => {
            // without a low_pc there is no contiguous range (a high_pc alone must still be readable)
            if let Some(h) = highs.first() {
                if !matches!(h, AVal::Udata(_)) {
                    address(h)?;
                }
            }
            return Some(Ok(None));
        }
        Some(v) => address(v)?,
    };
    match highs.first() {
        None => Some(Ok(None)),
        Some(AVal::Udata(sz)) => {
            let e = low as u128 + *sz as u128;
            if e > u64::MAX as u128 { None } else { Some(Ok(Some((low, e as u64)))) }
        }
        Some(v) => Some(Ok(Some((low, address(v)?)))),
    }
}

fn lists_die(c: &Cfg, dwo: bool, root: &[(AName, AVal)], die: &[(AName, AVal)], secs: &DieSecs) -> Option<String> {
    use gimli::read::Dwarf;
    use gimli::DwarfFileType;
    use gimli::SectionId;
    let (abbrev, info) = build_unit(c, dwo, root, die)?;
    let e = c.endian();
    let mut dwarf: Dwarf<R> = Dwarf::load(|id| -> Result<R, ()> {
        Ok(EndianSlice::new(
            match id {
                SectionId::DebugAbbrev => &abbrev[..],
                SectionId::DebugInfo => &info[..],
                SectionId::DebugAddr => secs.addr,
                SectionId::DebugRanges => secs.ranges,
                SectionId::DebugRngLists => secs.rnglists,
                SectionId::DebugLoc => secs.loc,
                SectionId::DebugLocLists => secs.loclists,
                _ => &[],
            },
            e,
        ))
    })
    .ok()?;
    if dwo {
        dwarf.file_type = DwarfFileType::Dwo;
    }
    let header = match dwarf.units().next() {
        Ok(Some(h)) => h,
        Ok(None) => return Some("err NoUnit".into()),
        Err(e) => return Some(format!("err {}", rerr(&e))),
    };
    let unit = match dwarf.unit(header) {
        Ok(u) => u,
        Err(e) => return Some(format!("err {}", rerr(&e))),
    };
    let cap = secs.ranges.len().max(secs.rnglists.len()).max(secs.loc.len()).max(secs.loclists.len()) + 3;
    let mut oracle: Option<String> = None;
    let ub = (unit.low_pc, unit.addr_base.0 as u64, unit.rnglists_base.0 as u64);
    // the unit's bases as the standard / the GNU extension define them (each attribute at most once)
    {
        let count = |f: &dyn Fn(AName) -> bool| root.iter().filter(|(n, _)| f(*n)).count();
        let is_ab = |n: AName| n == AName::ABase || n == AName::GABase;
        let is_rb = |n: AName| n == AName::RBase || n == AName::GRBase;
        if count(&is_ab) <= 1 && count(&is_rb) <= 1 && count(&|n| n == AName::LBase) <= 1 && count(&|n| n == AName::Low) <= 1 {
            let sec = |f: &dyn Fn(AName) -> bool| root.iter().find_map(|(n, v)| if f(*n) { if let AVal::Sec(o) = v { Some(*o) } else { None } } else { None });
            let hdr: u64 = if c.enc.version >= 5 && dwo { if c.enc.format == Format::Dwarf64 { 20 } else { 12 } } else { 0 };
            let ab = sec(&is_ab).unwrap_or(0);
            let rb = sec(&is_rb).unwrap_or(hdr);
            let lb = sec(&|n| n == AName::LBase).unwrap_or(hdr);
            let low = match root.iter().find(|(n, _)| *n == AName::Low).map(|(_, v)| *v) {
                None => Some(0),
                Some(AVal::Addr(a)) => Some(a),
                Some(AVal::Addrx(i)) => naive_get_address(c, secs.addr, ab, i),
                Some(_) => Some(0),
            };
            if let Some(low) = low {
                let want = (low, ab, rb, lb);
                let got = (unit.low_pc, unit.addr_base.0 as u64, unit.rnglists_base.0 as u64, unit.loclists_base.0 as u64);
                if want != got {
                    oracle = Some(format!("unit-bases-differ expected={want:?} got={got:?}"));
                }
            }
        }
    }
    let mut run = |which: &str, attrs: &[(AName, AVal)], r: gimli::Result<gimli::read::RangeIter<R>>| -> String {
        let evs: Result<Result<Vec<Ev<Rangeish>>, String>, gimli::Error> = r.map(|mut it| {
            drain(cap, || it.next()).map(|v| {
                v.into_iter()
                    .map(|x| match x {
                        Ev::Item(r) => Ev::Item((r.begin, r.end, vec![])),
                        Ev::Error(e) => Ev::Error(e),
                    })
                    .collect()
            })
        });
        let want = naive_die(c, dwo, ub, secs, attrs);
        let (t, evs) = render(evs, cooked_text);
        if oracle.is_none() {
            match (&want, &evs) {
                (Some(Ok(single)), Some(got)) => {
                    // the single range counts only if it is non-empty and below the tombstones (-2, -1)
                    let m: u128 = 1u128 << (8 * c.enc.address_size as u32);
                    let w: Vec<Ev<Rangeish>> = single.iter().filter(|(b, e)| b < e && (*b as u128) < m - 2).map(|(b, e)| Ev::Item((*b, *e, vec![]))).collect();
                    if *got != w {
                        oracle = Some(format!("{which}-range-differs expected={}", cooked_text(&w)));
                    }
                }
                (Some(Err(off)), Some(got)) => {
                    // the list at the standard's offset, resolved with the unit's base address
                    let s = Secs { legacy: secs.ranges, v5: secs.rnglists };
                    let (wt, _) = render(real_cooked(Kind::Rng, c, false, &s, *off as usize, ub.0, secs.addr, ub.1 as usize), cooked_text);
                    if wt != format!("ok {}", cooked_text(got)) {
                        oracle = Some(format!("{which}-list-differs expected={}", wt.replace(' ', "_")));
                    }
                }
                (Some(Ok(_)), None) => oracle = Some(format!("{which}-rejected-valid {}", t.replace(' ', "_"))),
                _ => {}
            }
        }
        if oracle.is_none() {
            if let Some(got) = &evs {
                // third sentence of C08 on the per-entry / per-unit helpers (list path and single range)
                if let Some(w) = check_yield(c, got) {
                    oracle = Some(format!("{which}-{w}"));
                }
            }
        }
        t
    };
    let ut = run("unit", root, dwarf.unit_ranges(&unit));
    let mut cursor = unit.entries();
    let _ = cursor.next_dfs();
    let child = match cursor.next_dfs() {
        Ok(Some(_)) => cursor.current()?,
        _ => return Some("err NoChild".into()),
    };
    let dt = run("die", die, dwarf.die_ranges(&unit, child));
    // DW_AT_location as a location list
    let lt = match child.attr_value(gimli::DW_AT_location) {
        None => "none".to_string(),
        Some(v) => match dwarf.attr_locations(&unit, v) {
            Ok(None) => "none".into(),
            Err(e) => format!("err {}", rerr(&e)),
            Ok(Some(mut it)) => {
                let evs = drain(cap, || it.next()).map(|v| {
                    v.into_iter()
                        .map(|x| match x {
                            Ev::Item(r) => Ev::Item((r.range.begin, r.range.end, r.data.0.slice().to_vec())),
                            Ev::Error(e) => Ev::Error(e),
                        })
                        .collect::<Vec<Ev<Rangeish>>>()
                });
                let (t, evs) = render(Ok(evs), cooked_text);
                if oracle.is_none() {
                    if let Some(got) = &evs {
                        oracle = check_yield(c, got).map(|w| format!("loc-{w}"));
                        // the list the standard designates
                        let die_loc = die.iter().find(|(n, _)| *n == AName::Loc).map(|(_, v)| *v);
                        let off = match die_loc {
                            Some(AVal::Sec(o)) => Some(o),
                            Some(AVal::Listx(i)) => naive_get_offset(c, secs.loclists, unit.loclists_base.0 as u64, i),
                            _ => None,
                        };
                        if let (None, Some(off)) = (&oracle, off) {
                            let s = Secs { legacy: secs.loc, v5: secs.loclists };
                            let (wt, _) = render(real_cooked(Kind::Loc, c, dwo, &s, off as usize, ub.0, secs.addr, ub.1 as usize), cooked_text);
                            if wt != t {
                                oracle = Some(format!("loc-list-differs expected={}", wt.replace(' ', "_")));
                            }
                        }
                    }
                }
                t
            }
        },
    };
    let t = format!(
        "ok {},{},{},{} | unit:{ut} | die:{dt} | loc:{lt}",
        unit.low_pc, unit.addr_base.0, unit.rnglists_base.0, unit.loclists_base.0
    );
    Some(with_oracle(t, oracle))
}


// ---------- cross-check against llvm-dwarfdump (`lists-dd`) ----------

/// a minimal little-endian ELF64 relocatable object holding the given sections (no symbols,
/// no relocations)
fn elf_object(sections: &[(&str, &[u8])]) -> Vec<u8> {
    let mut shstr: Vec<u8> = vec![0];
    let mut names = Vec::new();
    for (n, _) in sections {
        names.push(shstr.len() as u32);
        shstr.extend_from_slice(n.as_bytes());
        shstr.push(0);
    }
    let shstr_name = shstr.len() as u32;
    shstr.extend_from_slice(b".shstrtab\0");
    let mut out = vec![0u8; 64];
    let mut offs = Vec::new();
    for (_, d) in sections {
        offs.push(out.len() as u64);
        out.extend_from_slice(d);
    }
    let shstr_off = out.len() as u64;
    out.extend_from_slice(&shstr);
    while out.len() % 8 != 0 {
        out.push(0);
    }
    let shoff = out.len() as u64;
    let sh = |name: u32, ty: u32, off: u64, size: u64| {
        let mut h = Vec::new();
        h.extend_from_slice(&name.to_le_bytes());
        h.extend_from_slice(&ty.to_le_bytes());
        h.extend_from_slice(&0u64.to_le_bytes()); // flags
        h.extend_from_slice(&0u64.to_le_bytes()); // addr
        h.extend_from_slice(&off.to_le_bytes());
        h.extend_from_slice(&size.to_le_bytes());
        h.extend_from_slice(&0u32.to_le_bytes()); // link
        h.extend_from_slice(&0u32.to_le_bytes()); // info
        h.extend_from_slice(&1u64.to_le_bytes()); // addralign
        h.extend_from_slice(&0u64.to_le_bytes()); // entsize
        h
    };
    let mut table = sh(0, 0, 0, 0);
    for (i, (_, d)) in sections.iter().enumerate() {
        table.extend(sh(names[i], 1, offs[i], d.len() as u64));
    }
    table.extend(sh(shstr_name, 3, shstr_off, shstr.len() as u64));
    out.extend_from_slice(&table);
    let shnum = sections.len() as u16 + 2;
    let mut eh = Vec::new();
    eh.extend_from_slice(&[0x7f, b'E', b'L', b'F', 2, 1, 1, 0, 0, 0, 0, 0, 0, 0, 0, 0]);
    eh.extend_from_slice(&1u16.to_le_bytes()); // ET_REL
    eh.extend_from_slice(&62u16.to_le_bytes()); // EM_X86_64
    eh.extend_from_slice(&1u32.to_le_bytes());
    eh.extend_from_slice(&0u64.to_le_bytes()); // entry
    eh.extend_from_slice(&0u64.to_le_bytes()); // phoff
    eh.extend_from_slice(&shoff.to_le_bytes());
    eh.extend_from_slice(&0u32.to_le_bytes()); // flags
    eh.extend_from_slice(&64u16.to_le_bytes()); // ehsize
    eh.extend_from_slice(&0u16.to_le_bytes()); // phentsize
    eh.extend_from_slice(&0u16.to_le_bytes()); // phnum
    eh.extend_from_slice(&64u16.to_le_bytes()); // shentsize
    eh.extend_from_slice(&shnum.to_le_bytes());
    eh.extend_from_slice(&(shnum - 1).to_le_bytes()); // shstrndx
    out[..64].copy_from_slice(&eh);
    out
}

const DWARFDUMP: &str = "/usr/bin/llvm-dwarfdump";

/// the `[begin, end)` pairs llvm-dwarfdump prints for attribute `at` of the DW_TAG_subprogram DIE
fn dwarfdump_ranges(obj: &[u8], at: &str) -> Result<Vec<(u64, u64)>, String> {
    let dir = std::env::current_exe().ok().and_then(|p| p.parent().map(|p| p.to_path_buf())).unwrap_or_else(std::env::temp_dir);
    let path = dir.join(format!("c08-dd-{}.o", std::process::id()));
    std::fs::write(&path, obj).map_err(|e| format!("write:{e}"))?;
    let out = std::process::Command::new(DWARFDUMP).arg("--debug-info").arg(&path).output();
    let _ = std::fs::remove_file(&path);
    let out = out.map_err(|e| format!("spawn:{e}"))?;
    let text = String::from_utf8_lossy(&out.stdout).to_string();
    let Some(i) = text.find("DW_TAG_subprogram") else { return Err(format!("no-subprogram:{}", String::from_utf8_lossy(&out.stderr).replace(['\n', ' '], "_"))) };
    let Some(j) = text[i..].find(at) else { return Err("no-attribute".into()) };
    let mut res = Vec::new();
    let mut depth = 0i32;
    let body = &text[i + j + at.len()..];
    let mut k = 0usize;
    let b = body.as_bytes();
    while k < b.len() {
        match b[k] {
            b'(' => depth += 1,
            b')' => {
                // `[x, y)` closes with ')' too: only a ')' that is not part of a range ends the value
                depth -= 1;
                if depth == 0 {
                    break;
                }
            }
            b'[' if depth == 1 => {
                let end = body[k..].find(')').ok_or("unterminated")? + k;
                let inner = &body[k + 1..end];
                let (x, y) = inner.split_once(',').ok_or("range-syntax")?;
                let p = |t: &str| u64::from_str_radix(t.trim().trim_start_matches("0x"), 16).map_err(|_| format!("number:{t}"));
                res.push((p(x)?, p(y)?));
                k = end;
            }
            b'e' if depth == 1 && body[k..].starts_with("error") => return Err("llvm-error".into()),
            _ => {}
        }
        k += 1;
    }
    Ok(res)
}

/// `.debug_addr` / `.debug_rnglists` / `.debug_loclists` table header in front of `body`
fn table_header(c: &Cfg, body_len: usize, offset_entry_count: Option<u32>) -> Vec<u8> {
    let mut h = Vec::new();
    let extra = if offset_entry_count.is_some() { 8 } else { 4 };
    put_uint(&mut h, false, 4, (body_len + extra) as u64);
    put_uint(&mut h, false, 2, 5);
    h.push(c.enc.address_size);
    h.push(0);
    if let Some(n) = offset_entry_count {
        put_uint(&mut h, false, 4, n as u64);
    }
    h
}

pub fn handle(op: &str, a: &[&str]) -> Option<String> {
    match (op, a) {
        ("lists-raw", [k, c, dwo, off, legacy, v5]) => {
            let (k, c, dwo) = (kind(k)?, cfg(c)?, flag(dwo)?);
            let off: usize = off.parse().ok()?;
            let (legacy, v5) = (unhex(legacy)?, unhex(v5)?);
            let s = Secs { legacy: &legacy, v5: &v5 };
            let (t, _) = render(real_raw(k, &c, dwo, &s, off), raw_text);
            Some(t)
        }
        ("lists-cooked", [k, c, dwo, off, legacy, v5, base, addr, ab]) => {
            let (k, c, dwo) = (kind(k)?, cfg(c)?, flag(dwo)?);
            let off: usize = off.parse().ok()?;
            let (legacy, v5) = (unhex(legacy)?, unhex(v5)?);
            let base: u64 = base.parse().ok()?;
            let addr = unhex(addr)?;
            let ab: usize = ab.parse().ok()?;
            let s = Secs { legacy: &legacy, v5: &v5 };
            let (t, evs) = render(real_cooked(k, &c, dwo, &s, off, base, &addr, ab), cooked_text);
            let o = evs.and_then(|v| check_yield(&c, &v));
            Some(with_oracle(t, o))
        }
        ("lists-spec", [k, c, dwo, pre, suf, ents, base, addr, ab]) => {
            let (k, c, dwo) = (kind(k)?, cfg(c)?, flag(dwo)?);
            let (pre, suf) = (unhex(pre)?, unhex(suf)?);
            let ents = parse_ents(ents)?;
            let base: u64 = base.parse().ok()?;
            let addr = unhex(addr)?;
            let ab: usize = ab.parse().ok()?;
            let (use_legacy, coded) = section_format(k, c.enc.version, dwo);
            let Some(enc) = encode_list(k, &c, coded, &ents) else { return Some("ok invalid".into()) };
            let mut sec = pre.clone();
            sec.extend_from_slice(&enc);
            sec.extend_from_slice(&suf);
            let s = if use_legacy { Secs { legacy: &sec, v5: &suf } } else { Secs { legacy: &suf, v5: &sec } };
            let (rt, revs) = render(real_raw(k, &c, dwo, &s, pre.len()), raw_text);
            let (ct, cevs) = render(real_cooked(k, &c, dwo, &s, pre.len(), base, &addr, ab), cooked_text);
            let mut o = None;
            // raw iteration exposes every encoded entry unchanged and stops at the terminator
            match &revs {
                Some(v) if *v == ents.iter().cloned().map(Ev::Item).collect::<Vec<_>>() => {}
                _ => o = Some(format!("raw-differs expected={} got={rt}", ents_text(&ents))),
            }
            // cooked iteration = the standard's resolution of the abstract list
            if o.is_none() {
                let want = spec_resolve(&c, &addr, ab as u64, base, &ents);
                match &cevs {
                    Some(v) => {
                        let got: Vec<Den> = v.iter().map(|e| match e {
                            Ev::Item((b, e, d)) => Den::R(*b, *e, d.clone()),
                            Ev::Error(_) => Den::Undef,
                        }).collect();
                        if got != want {
                            o = Some(format!("resolve-differs expected={want:?} got={ct}"));
                        } else {
                            o = check_yield(&c, v);
                        }
                    }
                    None => o = Some(format!("resolve-failed got={ct}")),
                }
            }
            Some(with_oracle(format!("ok {} | {rt} | {ct}", hex(&enc)), o))
        }
        ("lists-getoffset", [c, sec, base, idx]) => {
            let c = cfg(c)?;
            let sec = unhex(sec)?;
            let base: u64 = base.parse().ok()?;
            let idx: u64 = idx.parse().ok()?;
            let e = c.endian();
            let rl = RangeLists::new(DebugRanges::new(&[], e), DebugRngLists::new(&sec, e));
            let ll = LocationLists::new(DebugLoc::new(&[], e), DebugLocLists::new(&sec, e));
            let r1 = rl.get_offset(c.enc, DebugRngListsBase(base as usize), DebugRngListsIndex(idx as usize)).map(|x| x.0 as u64);
            let r2 = ll.get_offset(c.enc, DebugLocListsBase(base as usize), DebugLocListsIndex(idx as usize)).map(|x| x.0 as u64);
            let t = |r: &gimli::Result<u64>| match r {
                Ok(v) => format!("ok {v}"),
                Err(e) => format!("err {}", rerr(e)),
            };
            let mut o = None;
            if t(&r1) != t(&r2) {
                o = Some(format!("rnglists-loclists-differ {}/{}", t(&r1), t(&r2)));
            } else {
                let want = naive_get_offset(&c, &sec, base, idx);
                if want != r1.as_ref().ok().copied() {
                    o = Some(format!("offset-differs expected={want:?}"));
                }
            }
            Some(with_oracle(t(&r1), o))
        }
        ("lists-getaddr", [c, sec, base, idx]) => {
            let c = cfg(c)?;
            let sec = unhex(sec)?;
            let base: u64 = base.parse().ok()?;
            let idx: u64 = idx.parse().ok()?;
            let da = DebugAddr::from(EndianSlice::new(&sec[..], c.endian()));
            let r = da.get_address(c.enc.address_size, DebugAddrBase(base as usize), DebugAddrIndex(idx as usize));
            let t = match &r {
                Ok(v) => format!("ok {v}"),
                Err(e) => format!("err {}", rerr(e)),
            };
            let want = naive_get_address(&c, &sec, base, idx);
            let o = if want != r.ok() { Some(format!("address-differs expected={want:?}")) } else { None };
            Some(with_oracle(t, o))
        }
        ("lists-copyrel", [c, dwo_root, skel_root, addr]) => {
            // a split unit (file type Dwo, no .debug_addr) takes the relocated attributes of its
            // skeleton unit (main file)
            use gimli::read::Dwarf;
            use gimli::{DwarfFileType, SectionId};
            let c = cfg(c)?;
            let (dwo_root, skel_root) = (parse_attrs(dwo_root)?, parse_attrs(skel_root)?);
            let addr = unhex(addr)?;
            let e = c.endian();
            let (sa, si) = build_unit(&c, false, &skel_root, &[])?;
            let (da, di) = build_unit(&c, true, &dwo_root, &[])?;
            let load = |abbrev: &'_ [u8], info: &'_ [u8], addr: &'_ [u8]| -> Option<gimli::DwarfSections<Vec<u8>>> {
                gimli::DwarfSections::load(|id| -> Result<Vec<u8>, ()> {
                    Ok(match id {
                        SectionId::DebugAbbrev => abbrev.to_vec(),
                        SectionId::DebugInfo => info.to_vec(),
                        SectionId::DebugAddr => addr.to_vec(),
                        _ => vec![],
                    })
                })
                .ok()
            };
            let skel_owned = load(&sa, &si, &addr)?;
            let dwo_owned = load(&da, &di, &[])?;
            let skel_dwarf = skel_owned.borrow(|s| EndianSlice::new(&s[..], e));
            let mut dwo_dwarf = dwo_owned.borrow(|s| EndianSlice::new(&s[..], e));
            dwo_dwarf.file_type = DwarfFileType::Dwo;
            fn unit_of<'a>(d: &Dwarf<R<'a>>) -> Result<gimli::read::Unit<R<'a>>, String> {
                let h = match d.units().next() {
                    Ok(Some(h)) => h,
                    Ok(None) => return Err("err NoUnit".into()),
                    Err(e) => return Err(format!("err {}", rerr(&e))),
                };
                d.unit(h).map_err(|e| format!("err {}", rerr(&e)))
            }
            let skel = match unit_of(&skel_dwarf) {
                Ok(u) => u,
                Err(t) => return Some(t),
            };
            let mut split = match unit_of(&dwo_dwarf) {
                Ok(u) => u,
                Err(t) => return Some(t),
            };
            let before = (split.rnglists_base.0, split.loclists_base.0);
            split.copy_relocated_attributes(&skel);
            let got = (split.low_pc, split.addr_base.0, split.rnglists_base.0, split.loclists_base.0);
            // oracle: low_pc and addr_base always come from the skeleton, the ranges base only before DWARF 5
            let want = (skel.low_pc, skel.addr_base.0, if c.enc.version < 5 { skel.rnglists_base.0 } else { before.0 }, before.1);
            let o = if got != want { Some(format!("copy-relocated-differs expected={want:?}")) } else { None };
            Some(with_oracle(format!("ok {},{},{},{}", got.0, got.1, got.2, got.3), o))
        }
        ("lists-dd", [c, dwo, root, die, addr, ranges, rnglists, loc, loclists]) => {
            // same reply as `lists-die`; additionally the ranges llvm-dwarfdump resolves for the
            // child DIE's DW_AT_ranges / DW_AT_location must be the ones gimli yields
            let (c, dwo) = (cfg(c)?, flag(dwo)?);
            let (rootv, diev) = (parse_attrs(root)?, parse_attrs(die)?);
            let (addr, ranges, rnglists, loc, loclists) = (unhex(addr)?, unhex(ranges)?, unhex(rnglists)?, unhex(loc)?, unhex(loclists)?);
            let secs = DieSecs { addr: &addr, ranges: &ranges, rnglists: &rnglists, loc: &loc, loclists: &loclists };
            let reply = lists_die(&c, dwo, &rootv, &diev, &secs)?;
            if reply.contains(" #oracle:") || c.big || dwo || !std::path::Path::new(DWARFDUMP).exists() {
                return Some(reply);
            }
            let (abbrev, info) = build_unit(&c, dwo, &rootv, &diev)?;
            let obj = elf_object(&[
                (".debug_abbrev", &abbrev),
                (".debug_info", &info),
                (".debug_addr", &addr),
                (".debug_ranges", &ranges),
                (".debug_rnglists", &rnglists),
                (".debug_loc", &loc),
                (".debug_loclists", &loclists),
            ]);
            let parse_items = |field: &str| -> Option<Vec<(u64, u64)>> {
                let t = reply.split(" | ").find_map(|p| p.strip_prefix(field))?;
                let t = t.strip_prefix("ok ")?;
                if t == "-" {
                    return Some(vec![]);
                }
                t.split(';')
                    .map(|it| {
                        let it = it.strip_prefix("R:")?;
                        let f: Vec<&str> = it.split(',').collect();
                        Some((f.first()?.parse().ok()?, f.get(1)?.parse().ok()?))
                    })
                    .collect()
            };
            let mut o = None;
            for (field, at) in [("die:", "DW_AT_ranges"), ("loc:", "DW_AT_location")] {
                if !diev.iter().any(|(n, _)| *n == if at == "DW_AT_ranges" { AName::Ranges } else { AName::Loc }) {
                    continue;
                }
                let Some(mine) = parse_items(field) else { continue };
                match dwarfdump_ranges(&obj, at) {
                    Ok(theirs) => {
                        if theirs != mine {
                            o = Some(format!("dwarfdump-differs {at} llvm={theirs:?} gimli={mine:?}"));
                            break;
                        }
                    }
                    Err(why) => {
                        o = Some(format!("dwarfdump-failed {at} {why}"));
                        break;
                    }
                }
            }
            Some(with_oracle(reply, o))
        }
        ("lists-die", [c, dwo, root, die, addr, ranges, rnglists, loc, loclists]) => {
            let (c, dwo) = (cfg(c)?, flag(dwo)?);
            let (root, die) = (parse_attrs(root)?, parse_attrs(die)?);
            let (addr, ranges, rnglists, loc, loclists) = (unhex(addr)?, unhex(ranges)?, unhex(rnglists)?, unhex(loc)?, unhex(loclists)?);
            let secs = DieSecs { addr: &addr, ranges: &ranges, rnglists: &rnglists, loc: &loc, loclists: &loclists };
            lists_die(&c, dwo, &root, &die, &secs)
        }
        _ => None,
    }
}

// ---------- generator ----------

struct G<'a> {
    rng: &'a mut Rng,
}

impl<'a> G<'a> {
    fn cfg(&mut self) -> Cfg {
        let address_size = *self.rng.pick(&[1u8, 2, 4, 8, 4, 8]);
        let format = if self.rng.chance(1, 3) { Format::Dwarf64 } else { Format::Dwarf32 };
        let version = *self.rng.pick(&[2u16, 3, 4, 5, 5, 4]);
        Cfg { big: self.rng.chance(1, 3), enc: Encoding { address_size, format, version } }
    }
    fn ones(s: u8) -> u64 {
        if s >= 8 { u64::MAX } else { (1u64 << (8 * s as u32)) - 1 }
    }
    /// boundary-biased address of `s` bytes
    fn address(&mut self, s: u8) -> u64 {
        let m = Self::ones(s);
        let v = match self.rng.below(12) {
            0 => 0,
            1 => 1,
            2 => m,
            3 => m - 1,
            4 => m - 2,
            5 => m / 2,
            6 => m / 2 + 1,
            7 => self.rng.below(0x40),
            8 => m - self.rng.below(0x20),
            9 => self.rng.boundary_u64(),
            10 => 0x1000 * self.rng.below(16),
            _ => self.rng.next(),
        };
        v & m
    }
    /// offset / length: small, or chosen to wrap around an `s`-byte address, or a 64-bit boundary
    fn offset(&mut self, s: u8) -> u64 {
        let m = Self::ones(s);
        match self.rng.below(10) {
            0 => 0,
            1 => 1,
            2 => self.rng.below(0x100),
            3 => m,
            4 => m - self.rng.below(0x10),
            5 => m.wrapping_add(1).wrapping_add(self.rng.below(0x10)),
            6 => self.rng.boundary_u64(),
            7 => u64::MAX - self.rng.below(4),
            _ => self.rng.below(0x2000),
        }
    }
    fn index(&mut self, n: u64) -> u64 {
        match self.rng.below(12) {
            0 => n,
            1 => n + 1,
            2 => self.rng.boundary_u64(),
            _ => self.rng.below(n.max(1)),
        }
    }
    fn data(&mut self, k: Kind) -> Vec<u8> {
        if k == Kind::Rng {
            return vec![];
        }
        match self.rng.below(8) {
            0 => vec![],
            1 => self.rng.bytes(0x80),
            2 => self.rng.bytes(0x7f),
            _ => self.rng.bytes_below(6),
        }
    }
    fn entry(&mut self, k: Kind, c: &Cfg, coded: bool, ntbl: u64) -> Ent {
        let s = c.enc.address_size;
        if !coded {
            if self.rng.chance(1, 5) {
                return Ent::Base(self.address(s));
            }
            loop {
                let (b, e) = if self.rng.chance(1, 2) { (self.address(s), self.address(s)) } else {
                    let b = self.address(s);
                    (b, b.wrapping_add(self.rng.below(0x20)) & Self::ones(s))
                };
                if (b == 0 && e == 0) || b == Self::ones(s) {
                    continue;
                }
                return Ent::Pair(b, e, self.data(k));
            }
        }
        let gnu = k == Kind::Loc && c.enc.version < 5;
        match self.rng.below(if k == Kind::Loc { 9 } else { 8 }) {
            0 => Ent::Base(self.address(s)),
            1 => Ent::Basex(self.index(ntbl)),
            2 => Ent::XX(self.index(ntbl), self.index(ntbl), self.data(k)),
            3 => {
                let l = self.offset(s);
                Ent::XL(self.index(ntbl), if gnu { l & 0xffff_ffff } else { l }, self.data(k))
            }
            4 | 5 => Ent::OP(self.offset(s), self.offset(s), self.data(k)),
            6 => {
                let b = self.address(s);
                let e = if self.rng.chance(1, 2) { self.address(s) } else { b.wrapping_add(self.rng.below(0x20)) & Self::ones(s) };
                Ent::SE(b, e, self.data(k))
            }
            7 => Ent::SL(self.address(s), self.offset(s), self.data(k)),
            _ => Ent::DL(self.data(k)),
        }
    }
    /// `.debug_addr`-like bytes: `junk` bytes, then `n` addresses; returns (bytes, addr_base, n)
    fn table(&mut self, c: &Cfg) -> (Vec<u8>, usize, u64) {
        let s = c.enc.address_size;
        let junk = *self.rng.pick(&[0usize, 0, 8, 16, 3]);
        let n = self.rng.below(7);
        let mut out = self.rng.bytes(junk);
        for _ in 0..n {
            let a = self.address(s);
            put_uint(&mut out, c.big, s as usize, a);
        }
        // a partial trailing slot now and then
        if self.rng.chance(1, 6) {
            out.extend(self.rng.bytes((s as usize).saturating_sub(1)));
        }
        let ab = match self.rng.below(10) {
            0 => out.len(),
            1 => out.len() + 1,
            2 => junk + 1,
            _ => junk,
        };
        (out, ab, n)
    }
}

fn mutate(rng: &mut Rng, bs: &[u8]) -> Vec<u8> {
    let mut b = bs.to_vec();
    if b.is_empty() {
        return rng.bytes_below(8);
    }
    match rng.below(6) {
        0 => {
            let k = rng.below(b.len() as u64) as usize;
            b.truncate(k);
        }
        1 => {
            let k = rng.below(b.len() as u64) as usize;
            b[k] = *rng.pick(&[0u8, 1, 5, 8, 9, 0x7f, 0x80, 0xff, 0xfe]);
        }
        2 => {
            let k = rng.below(b.len() as u64) as usize;
            b[k] = b[k].wrapping_add(1);
        }
        3 => {
            let k = rng.below(b.len() as u64) as usize;
            b.remove(k);
        }
        4 => {
            let k = rng.below(b.len() as u64 + 1) as usize;
            b.insert(k, rng.next() as u8);
        }
        _ => {
            let k = rng.below(b.len() as u64) as usize;
            let m = rng.bytes_below(5);
            b.splice(k..k, m);
        }
    }
    b
}


/// a list section for a unit: (bytes, offsets of the lists inside it, base = end of the header,
/// number of offset-table slots). DWARF 5: header, offset table, lists; before: just lists.
fn list_section(g: &mut G, k: Kind, c: &Cfg, dwo: bool, ntbl: u64) -> (Vec<u8>, Vec<u64>, u64, u64) {
    let (_, coded) = section_format(k, c.enc.version, dwo);
    let word: usize = if c.enc.format == Format::Dwarf64 { 8 } else { 4 };
    let nlists = 1 + g.rng.below(3) as usize;
    let mut lists: Vec<Vec<u8>> = Vec::new();
    for _ in 0..nlists {
        let cnt = g.rng.below(4);
        let ents: Vec<Ent> = (0..cnt).map(|_| g.entry(k, c, coded, ntbl)).collect();
        lists.push(encode_list(k, c, coded, &ents).unwrap_or_default());
    }
    let mut sec = Vec::new();
    let mut base = 0u64;
    let mut slots = 0u64;
    if c.enc.version >= 5 {
        let hdr = if word == 8 { 20 } else { 12 };
        sec = g.rng.bytes(hdr);
        base = hdr as u64;
        slots = nlists as u64;
        // offset table: offsets relative to `base`
        let mut rel = (nlists * word) as u64;
        for l in &lists {
            put_uint(&mut sec, c.big, word, rel);
            rel += l.len() as u64;
        }
    } else if g.rng.chance(1, 3) {
        sec = g.rng.bytes_below(9);
        base = sec.len() as u64;
    }
    let mut offs = Vec::new();
    for l in &lists {
        offs.push(sec.len() as u64);
        sec.extend_from_slice(l);
    }
    (sec, offs, base, slots)
}

fn gen_die(g: &mut G, emit: &mut dyn FnMut(String)) {
    let c = g.cfg();
    let s = c.enc.address_size;
    let dwo = g.rng.chance(1, 3);
    let (addr, ab, ntbl) = g.table(&c);
    let (rsec, roffs, rbase, rslots) = list_section(g, Kind::Rng, &c, dwo, ntbl);
    let (lsec, loffs, lbase, lslots) = list_section(g, Kind::Loc, &c, dwo, ntbl);
    let v5 = c.enc.version >= 5;
    let word_max: u64 = if c.enc.format == Format::Dwarf64 { u64::MAX } else { 0xffff_ffff };
    let addr_val = |g: &mut G| -> AVal {
        match g.rng.below(10) {
            0..=4 => AVal::Addr(g.address(s)),
            5..=7 => AVal::Addrx(g.index(ntbl)),
            8 => AVal::Udata(g.rng.below(0x100)),
            _ => *g.rng.pick(&[AVal::Other, AVal::Sec(0), AVal::Listx(0)]),
        }
    };
    let ranges_val = |g: &mut G| -> AVal {
        match g.rng.below(10) {
            0..=4 => {
                let o = *g.rng.pick(&roffs);
                // a raw DW_AT_ranges offset in a GNU split DWARF v4 unit is relative to the ranges base
                AVal::Sec(if dwo && !v5 { o.wrapping_sub(rbase) & word_max } else { o })
            }
            5..=7 => AVal::Listx(g.index(rslots)),
            8 => AVal::Sec(g.rng.boundary_u64() & word_max),
            _ => *g.rng.pick(&[AVal::Other, AVal::Udata(3), AVal::Addr(0)]),
        }
    };
    // root DIE
    let mut root: Vec<(AName, AVal)> = Vec::new();
    if g.rng.chance(4, 5) {
        root.push((AName::Low, addr_val(g)));
    }
    if ab != 0 || g.rng.chance(1, 3) {
        root.push((if v5 || g.rng.chance(1, 2) { AName::ABase } else { AName::GABase }, if g.rng.chance(9, 10) { AVal::Sec(ab as u64) } else { AVal::Udata(ab as u64) }));
    }
    // DWARF 5 .dwo units rely on the default base (first header); others say it explicitly
    let explicit_r = if v5 { !dwo || g.rng.chance(1, 4) } else { rbase != 0 || g.rng.chance(1, 4) };
    if explicit_r {
        let b = if g.rng.chance(1, 10) { g.rng.boundary_u64() & word_max } else { rbase };
        root.push((if v5 { AName::RBase } else { AName::GRBase }, AVal::Sec(b)));
    }
    if v5 && (!dwo || g.rng.chance(1, 4)) {
        root.push((AName::LBase, AVal::Sec(lbase)));
    }
    match g.rng.below(4) {
        0 => root.push((AName::Ranges, ranges_val(g))),
        1 => root.push((AName::High, if g.rng.chance(1, 2) { AVal::Udata(g.offset(s)) } else { addr_val(g) })),
        _ => {}
    }
    if g.rng.chance(1, 8) {
        let k = g.rng.below(root.len() as u64 + 1) as usize;
        root.insert(k, (AName::Other, AVal::Udata(7)));
    }
    if g.rng.chance(1, 6) && root.len() > 1 {
        let i = g.rng.below(root.len() as u64) as usize;
        let j = g.rng.below(root.len() as u64) as usize;
        root.swap(i, j);
    }
    // child DIE
    let mut die: Vec<(AName, AVal)> = Vec::new();
    match g.rng.below(10) {
        0..=4 => {
            // low_pc / high_pc
            let low = addr_val(g);
            let high = match g.rng.below(8) {
                0..=2 => AVal::Udata(g.offset(s)),
                3 => AVal::Udata(0),
                4 => match low {
                    AVal::Addr(a) => AVal::Addr(a.wrapping_add(g.rng.below(3)).wrapping_sub(1) & G::ones(s)),
                    x => x,
                },
                5 => AVal::Udata(u64::MAX - g.rng.below(0x20)),
                _ => addr_val(g),
            };
            die.push((AName::Low, low));
            if g.rng.chance(7, 8) {
                die.push((AName::High, high));
            }
            if g.rng.chance(1, 6) {
                let last = die.len() - 1;
                die.swap(0, last);
            }
            if g.rng.chance(1, 8) {
                die.push((AName::Ranges, ranges_val(g)));
            }
        }
        5..=7 => {
            die.push((AName::Ranges, ranges_val(g)));
            if g.rng.chance(1, 3) {
                let k = g.rng.below(2) as usize;
                die.insert(k, (AName::Low, addr_val(g)));
            }
        }
        8 => {
            die.push((AName::High, addr_val(g)));
        }
        _ => {}
    }
    if g.rng.chance(1, 2) {
        let v = match g.rng.below(8) {
            0..=3 => AVal::Sec(*g.rng.pick(&loffs)),
            4..=5 => AVal::Listx(g.index(lslots)),
            6 => AVal::Sec(g.rng.boundary_u64() & word_max),
            _ => AVal::Other,
        };
        let k = g.rng.below(die.len() as u64 + 1) as usize;
        die.insert(k, (AName::Loc, v));
    }
    if g.rng.chance(1, 10) && !die.is_empty() {
        let d = die[g.rng.below(die.len() as u64) as usize];
        die.push(d);
    }
    if g.rng.chance(1, 4) {
        // split unit + skeleton unit: the root attributes generated above play the skeleton
        let mut dwo_root: Vec<(AName, AVal)> = Vec::new();
        if g.rng.chance(1, 3) {
            dwo_root.push((AName::Low, AVal::Addr(g.address(s))));
        }
        if g.rng.chance(1, 3) {
            dwo_root.push((if v5 { AName::RBase } else { AName::GRBase }, AVal::Sec(g.rng.below(64))));
        }
        if g.rng.chance(1, 3) {
            dwo_root.push((AName::LBase, AVal::Sec(g.rng.below(64))));
        }
        emit(format!("lists-copyrel {} {} {} {}", c.text(), attrs_text(&dwo_root), attrs_text(&root), hex(&addr)));
    }
    let (ranges, rnglists) = if v5 { (g.rng.bytes_below(5), rsec) } else { (rsec, g.rng.bytes_below(5)) };
    let (loc, loclists) = if v5 { (g.rng.bytes_below(5), lsec) } else { (lsec, g.rng.bytes_below(5)) };
    emit(format!(
        "lists-die {} {} {} {} {} {} {} {} {}",
        c.text(),
        dwo as u8,
        attrs_text(&root),
        attrs_text(&die),
        hex(&addr),
        hex(&ranges),
        hex(&rnglists),
        hex(&loc),
        hex(&loclists)
    ));
}


/// the quantifier of C08 as a product: every entry kind of the family/format × boundary field
/// values (0, 1, max-1, max, values whose sum with the base wraps) × address size × version ×
/// split/non-split, each as a one-entry list after a base-address entry
fn gen_sweep(ctx: &Ctx, emit: &mut dyn FnMut(String)) {
    let mut rng = ctx.rng(88);
    let mut n = 0u64;
    for k in [Kind::Rng, Kind::Loc] {
        for s in [1u8, 2, 4, 8] {
            for version in 2u16..=5 {
                for dwo in [false, true] {
                    if k == Kind::Rng && dwo && version != 4 {
                        // the file type does not reach RangeLists; keep one split case
                        continue;
                    }
                    let (_, coded) = section_format(k, version, dwo);
                    let m = G::ones(s);
                    let pool = [0u64, 1, m - 1, m, m / 2 + 1];
                    // address table: the pool itself
                    let kinds: &[u8] = if coded { if k == Kind::Loc { &[0, 1, 2, 3, 4, 5, 6] } else { &[0, 1, 2, 3, 4, 5] } } else { &[7] };
                    for &kind in kinds {
                        for (i, &x) in pool.iter().enumerate() {
                            for (j, &y) in pool.iter().enumerate() {
                                n += 1;
                                let c = Cfg {
                                    big: n % 3 == 0,
                                    enc: Encoding { address_size: s, format: if n % 4 == 0 { Format::Dwarf64 } else { Format::Dwarf32 }, version },
                                };
                                let mut addr = Vec::new();
                                for p in pool {
                                    put_uint(&mut addr, c.big, s as usize, p);
                                }
                                let d = if k == Kind::Loc { vec![0x50 + (n % 16) as u8] } else { vec![] };
                                let gnu = k == Kind::Loc && version < 5;
                                let ent = match kind {
                                    0 => Ent::OP(x, y, d),
                                    1 => Ent::SE(x, y, d),
                                    2 => Ent::SL(x, y, d),
                                    3 => Ent::XX(i as u64, j as u64, d),
                                    4 => Ent::XL(i as u64, if gnu { y & 0xffff_ffff } else { y }, d),
                                    5 => Ent::Basex(i as u64),
                                    6 => Ent::DL(d),
                                    _ => {
                                        if (x == 0 && y == 0) || x == m {
                                            continue;
                                        }
                                        Ent::Pair(x, y, d)
                                    }
                                };
                                let base_ent = pool[(i + 2 * j + n as usize) % 5];
                                let tail = if kind == 5 { if coded { Ent::OP(1, 3, if k == Kind::Loc { vec![0x9c] } else { vec![] }) } else { Ent::Base(0) } } else { Ent::Base(1) };
                                let ents = if n % 2 == 0 { vec![Ent::Base(base_ent), ent, tail] } else { vec![ent, tail] };
                                let base = pool[(n % 5) as usize];
                                let pre = if n % 7 == 0 { rng.bytes(3) } else { vec![] };
                                emit(format!(
                                    "lists-spec {} {} {} {} - {} {base} {} 0",
                                    if k == Kind::Rng { "rng" } else { "loc" },
                                    c.text(),
                                    dwo as u8,
                                    hex(&pre),
                                    ents_text(&ents),
                                    hex(&addr)
                                ));
                            }
                        }
                    }
                }
            }
        }
    }
}


/// "ordinary" units for the llvm-dwarfdump cross-check: little-endian, not split, every entry
/// denotes a non-empty range of small addresses (the two tools filter differently otherwise),
/// valid table headers
fn gen_dd(g: &mut G, emit: &mut dyn FnMut(String)) {
    let s = *g.rng.pick(&[4u8, 8]);
    let version = *g.rng.pick(&[2u16, 3, 4, 5, 5]);
    let format = if g.rng.chance(1, 4) { Format::Dwarf64 } else { Format::Dwarf32 };
    let c = Cfg { big: false, enc: Encoding { address_size: s, format, version } };
    let v5 = version >= 5;
    let word: usize = if format == Format::Dwarf64 { 8 } else { 4 };
    // sorted address table
    let ntbl = 2 + g.rng.below(4);
    let mut tbl: Vec<u64> = Vec::new();
    let mut a = 0x1000 + g.rng.below(0x1000);
    for _ in 0..ntbl {
        tbl.push(a);
        a += 1 + g.rng.below(0x800);
    }
    let mut addr_body = Vec::new();
    for t in &tbl {
        put_uint(&mut addr_body, false, s as usize, *t);
    }
    let mut addr = table_header(&c, addr_body.len(), None);
    let ab = addr.len() as u64;
    addr.extend_from_slice(&addr_body);
    let low_pc = 0x10_0000 + 0x1000 * g.rng.below(16);
    let mk_list = |g: &mut G, k: Kind| -> Vec<Ent> {
        let n = 1 + g.rng.below(4);
        let mut out = Vec::new();
        let d = |g: &mut G| if k == Kind::Loc { vec![0x50 + g.rng.below(16) as u8] } else { vec![] };
        for _ in 0..n {
            let lo = 1 + g.rng.below(0x4000);
            let len = 1 + g.rng.below(0x100);
            if !v5 {
                if g.rng.chance(1, 4) {
                    out.push(Ent::Base(0x20_0000 + 0x100 * g.rng.below(64)));
                }
                out.push(Ent::Pair(lo, lo + len, d(g)));
                continue;
            }
            match g.rng.below(7) {
                0 => out.push(Ent::Base(0x20_0000 + 0x100 * g.rng.below(64))),
                1 => out.push(Ent::Basex(g.rng.below(ntbl))),
                2 => {
                    let i = g.rng.below(ntbl - 1);
                    let j = i + 1 + g.rng.below(ntbl - 1 - i);
                    out.push(Ent::XX(i, j, d(g)));
                }
                3 => out.push(Ent::XL(g.rng.below(ntbl), len, d(g))),
                4 => out.push(Ent::OP(lo, lo + len, d(g))),
                5 => out.push(Ent::SE(0x30_0000 + lo, 0x30_0000 + lo + len, d(g))),
                _ => out.push(Ent::SL(0x30_0000 + lo, len, d(g))),
            }
        }
        out
    };
    // (section bytes, attribute value of the child DIE)
    let build = |g: &mut G, k: Kind| -> Option<(Vec<u8>, AVal, u64)> {
        let nl = 1 + g.rng.below(3) as usize;
        let lists: Vec<Vec<Ent>> = (0..nl).map(|_| mk_list(g, k)).collect();
        let pick = g.rng.below(nl as u64) as usize;
        // every range-denoting entry of the picked list must be kept by the Spec
        let denoting = lists[pick].iter().filter(|e| !matches!(e, Ent::Base(_) | Ent::Basex(_))).count();
        let res = spec_resolve(&c, &addr, ab, low_pc, &lists[pick]);
        if res.len() != denoting || res.iter().any(|d| *d == Den::Undef) {
            return None;
        }
        let enc: Vec<Vec<u8>> = lists.iter().map(|l| encode_list(k, &c, v5, l)).collect::<Option<_>>()?;
        if !v5 {
            let mut sec = Vec::new();
            let mut off = 0;
            for (i, l) in enc.iter().enumerate() {
                if i == pick {
                    off = sec.len() as u64;
                }
                sec.extend_from_slice(l);
            }
            return Some((sec, AVal::Sec(off), 0));
        }
        let mut body = Vec::new();
        let mut rel = (nl * word) as u64;
        for l in &enc {
            put_uint(&mut body, false, word, rel);
            rel += l.len() as u64;
        }
        let mut offs = Vec::new();
        for l in &enc {
            offs.push(body.len() as u64);
            body.extend_from_slice(l);
        }
        // DWARF64 tables have a 12-byte initial length
        let mut sec = Vec::new();
        if word == 8 {
            put_uint(&mut sec, false, 4, 0xffff_ffff);
            put_uint(&mut sec, false, 8, (body.len() + 8) as u64);
        } else {
            put_uint(&mut sec, false, 4, (body.len() + 8) as u64);
        }
        put_uint(&mut sec, false, 2, 5);
        sec.push(s);
        sec.push(0);
        put_uint(&mut sec, false, 4, nl as u64);
        let base = sec.len() as u64;
        sec.extend_from_slice(&body);
        let v = if g.rng.chance(1, 2) { AVal::Listx(pick as u64) } else { AVal::Sec(base + offs[pick]) };
        Some((sec, v, base))
    };
    let Some((rsec, rv, rbase)) = build(g, Kind::Rng) else { return };
    let Some((lsec, lv, lbase)) = build(g, Kind::Loc) else { return };
    let mut root = vec![(AName::Low, AVal::Addr(low_pc))];
    if v5 {
        root.push((AName::ABase, AVal::Sec(ab)));
        root.push((AName::RBase, AVal::Sec(rbase)));
        root.push((AName::LBase, AVal::Sec(lbase)));
    }
    let mut die = Vec::new();
    if g.rng.chance(3, 4) {
        die.push((AName::Ranges, rv));
    }
    if g.rng.chance(3, 4) {
        die.push((AName::Loc, lv));
    }
    let e = vec![];
    let (ranges, rnglists) = if v5 { (&e, &rsec) } else { (&rsec, &e) };
    let (loc, loclists) = if v5 { (&e, &lsec) } else { (&lsec, &e) };
    emit(format!(
        "lists-dd {} 0 {} {} {} {} {} {} {}",
        c.text(),
        attrs_text(&root),
        attrs_text(&die),
        hex(if v5 { &addr } else { &e }),
        hex(ranges),
        hex(rnglists),
        hex(loc),
        hex(loclists)
    ));
}

pub fn gen(ctx: &Ctx, emit: &mut dyn FnMut(String)) {
    gen_sweep(ctx, emit);
    {
        // corpus-style lists cross-checked with llvm-dwarfdump (one process per case)
        let mut rng = ctx.rng(80);
        for _ in 0..ctx.n(8, 150) {
            let mut g = G { rng: &mut rng };
            gen_dd(&mut g, emit);
        }
    }
    let mut rng = ctx.rng(8);
    let n = ctx.n(9000, 100_000);
    for i in 0..n {
        let mut g = G { rng: &mut rng };
        let c = g.cfg();
        let k = if g.rng.chance(1, 2) { Kind::Rng } else { Kind::Loc };
        let dwo = g.rng.chance(1, 3);
        let (use_legacy, coded) = section_format(k, c.enc.version, dwo);
        let (addr, ab, ntbl) = g.table(&c);
        let cnt = g.rng.below(7);
        let ents: Vec<Ent> = (0..cnt).map(|_| g.entry(k, &c, coded, ntbl)).collect();
        let base = match g.rng.below(4) {
            0 => 0,
            1 => g.address(c.enc.address_size),
            2 => g.rng.boundary_u64(),
            _ => 0x1000 * g.rng.below(64),
        };
        let pre = if g.rng.chance(1, 3) { g.rng.bytes_below(24) } else { vec![] };
        let suf = if g.rng.chance(1, 2) { g.rng.bytes_below(12) } else { vec![] };
        // structured-valid: the abstract list, encoded on both sides
        emit(format!(
            "lists-spec {} {} {} {} {} {} {base} {} {ab}",
            if k == Kind::Rng { "rng" } else { "loc" },
            c.text(),
            dwo as u8,
            hex(&pre),
            hex(&suf),
            ents_text(&ents),
            hex(&addr)
        ));
        // malformed / arbitrary: mutations of the encoded list and raw random bytes
        if i % 3 == 0 {
            let enc = encode_list(k, &c, coded, &ents).unwrap_or_default();
            let bytes = match g.rng.below(4) {
                0 => g.rng.bytes_below(40),
                1 => {
                    // random bytes biased to valid entry codes
                    let l = g.rng.below(40) as usize;
                    (0..l).map(|_| if g.rng.chance(1, 3) { g.rng.below(10) as u8 } else { g.rng.next() as u8 }).collect()
                }
                _ => {
                    let mut b = mutate(g.rng, &enc);
                    if g.rng.chance(1, 3) {
                        b = mutate(g.rng, &b);
                    }
                    b
                }
            };
            let mut sec = pre.clone();
            sec.extend_from_slice(&bytes);
            let off = match g.rng.below(8) {
                0 => sec.len(),
                1 => sec.len() + 1,
                _ => pre.len(),
            };
            let other = g.rng.bytes_below(6);
            // some cases put the list into the section the version does NOT select
            let swap = g.rng.chance(1, 10);
            let (legacy, v5) = if use_legacy != swap { (sec.clone(), other) } else { (other, sec.clone()) };
            // address sizes outside 1,2,4,8 (uleb-only entries still resolve)
            let mut c2 = c;
            if g.rng.chance(1, 12) {
                c2.enc.address_size = *g.rng.pick(&[3u8, 5, 6, 7]);
            }
            if g.rng.chance(1, 10) {
                c2.enc.version = *g.rng.pick(&[0u16, 1, 6, 0xffff]);
            }
            let ks = if k == Kind::Rng { "rng" } else { "loc" };
            emit(format!("lists-raw {ks} {} {} {off} {} {}", c2.text(), dwo as u8, hex(&legacy), hex(&v5)));
            emit(format!("lists-cooked {ks} {} {} {off} {} {} {base} {} {ab}", c2.text(), dwo as u8, hex(&legacy), hex(&v5), hex(&addr)));
        }
        if i % 2 == 0 {
            gen_die(&mut g, emit);
        }
        // table lookups
        if i % 4 == 0 {
            let w: u64 = if c.enc.format == Format::Dwarf64 { 8 } else { 4 };
            let slots = g.rng.below(5);
            let hdr = *g.rng.pick(&[0usize, 12, 20, 5]);
            let mut sec = g.rng.bytes(hdr);
            for _ in 0..slots {
                let v = match g.rng.below(5) {
                    0 => g.rng.boundary_u64(),
                    1 => u64::MAX - g.rng.below(0x20),
                    _ => g.rng.below(0x100),
                };
                put_uint(&mut sec, c.big, w as usize, if w == 4 { v & 0xffff_ffff } else { v });
            }
            let tb = match g.rng.below(8) {
                0 => sec.len() as u64,
                1 => sec.len() as u64 + 1,
                2 => g.rng.boundary_u64(),
                _ => hdr as u64,
            };
            let idx = match g.rng.below(8) {
                0 => slots,
                1 => g.rng.boundary_u64(),
                2 => u64::MAX / w + g.rng.below(3),
                _ => g.rng.below(slots.max(1)),
            };
            emit(format!("lists-getoffset {} {} {tb} {idx}", c.text(), hex(&sec)));
            let idx2 = match g.rng.below(8) {
                0 => ntbl,
                1 => g.rng.boundary_u64(),
                2 => (u64::MAX / c.enc.address_size as u64).wrapping_add(g.rng.below(3)),
                _ => g.rng.below(ntbl.max(1)),
            };
            let ab2 = if g.rng.chance(1, 8) { g.rng.boundary_u64() } else { ab as u64 };
            let mut c3 = c;
            if g.rng.chance(1, 10) {
                c3.enc.address_size = *g.rng.pick(&[3u8, 5, 6, 7]);
            }
            emit(format!("lists-getaddr {} {} {ab2} {idx2}", c3.text(), hex(&addr)));
        }
    }
}
