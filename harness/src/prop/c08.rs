//! C08 — range and location lists. Implementation side of the `lists-*` / `dieranges` ops, the
//! direct oracle (naive re-implementation of the standard's resolution over the abstract list,
//! non-empty / below-tombstone check on everything the crate yields) and the generator.
use crate::prop::Ctx;
use crate::util::{hex, rerr, unhex, Rng};
use gimli::read::{
    DebugAddr, DebugLoc, DebugLocLists, DebugRanges, DebugRngLists, LocationLists, RangeLists, RawLocListEntry,
    RawRngListEntry,
};
use gimli::{
    DebugAddrBase, DebugAddrIndex, DebugLocListsBase, DebugLocListsIndex, DebugRngListsBase, DebugRngListsIndex,
    Encoding, EndianSlice, Format, LocationListsOffset, RangeListsOffset, RunTimeEndian,
};

type R<'a> = EndianSlice<'a, RunTimeEndian>;

#[derive(Clone, Copy, PartialEq, Eq, Debug)]
enum Kind {
    Rng,
    Loc,
}

/// abstract list entry (canonical text: see `Gimli/Drv/C08.lean`)
#[derive(Clone, PartialEq, Eq, Debug)]
enum Ent {
    Pair(u64, u64, Vec<u8>),
    Base(u64),
    Basex(u64),
    XX(u64, u64, Vec<u8>),
    XL(u64, u64, Vec<u8>),
    OP(u64, u64, Vec<u8>),
    DL(Vec<u8>),
    SE(u64, u64, Vec<u8>),
    SL(u64, u64, Vec<u8>),
}

#[derive(Clone, Copy)]
struct Cfg {
    big: bool,
    enc: Encoding,
}

impl Cfg {
    fn endian(&self) -> RunTimeEndian {
        if self.big { RunTimeEndian::Big } else { RunTimeEndian::Little }
    }
    fn text(&self) -> String {
        format!(
            "{},{},{},{}",
            if self.big { "be" } else { "le" },
            self.enc.address_size,
            if self.enc.format == Format::Dwarf64 { 64 } else { 32 },
            self.enc.version
        )
    }
}

fn cfg(s: &str) -> Option<Cfg> {
    let p: Vec<&str> = s.split(',').collect();
    if p.len() != 4 {
        return None;
    }
    let big = match p[0] {
        "le" => false,
        "be" => true,
        _ => return None,
    };
    let address_size: u8 = p[1].parse().ok()?;
    // the Model covers address sizes 1..=8 (`ones_sized` shifts by `64 - 8*size`)
    if address_size == 0 || address_size > 8 {
        return None;
    }
    let format = match p[2] {
        "32" => Format::Dwarf32,
        "64" => Format::Dwarf64,
        _ => return None,
    };
    let version: u16 = p[3].parse().ok()?;
    Some(Cfg { big, enc: Encoding { address_size, format, version } })
}

fn kind(s: &str) -> Option<Kind> {
    match s {
        "rng" => Some(Kind::Rng),
        "loc" => Some(Kind::Loc),
        _ => None,
    }
}

fn flag(s: &str) -> Option<bool> {
    match s {
        "0" => Some(false),
        "1" => Some(true),
        _ => None,
    }
}

// ---------- canonical text ----------

fn ent_text(e: &Ent) -> String {
    match e {
        Ent::Pair(b, e, d) => format!("P:{b},{e},{}", hex(d)),
        Ent::Base(a) => format!("B:{a}"),
        Ent::Basex(i) => format!("Bx:{i}"),
        Ent::XX(b, e, d) => format!("XX:{b},{e},{}", hex(d)),
        Ent::XL(b, l, d) => format!("XL:{b},{l},{}", hex(d)),
        Ent::OP(b, e, d) => format!("OP:{b},{e},{}", hex(d)),
        Ent::DL(d) => format!("DL:{}", hex(d)),
        Ent::SE(b, e, d) => format!("SE:{b},{e},{}", hex(d)),
        Ent::SL(b, l, d) => format!("SL:{b},{l},{}", hex(d)),
    }
}

fn ents_text(es: &[Ent]) -> String {
    if es.is_empty() {
        return "-".into();
    }
    es.iter().map(ent_text).collect::<Vec<_>>().join(";")
}

fn parse_ent(s: &str) -> Option<Ent> {
    let (tag, body) = s.split_once(':')?;
    let f: Vec<&str> = body.split(',').collect();
    let n = |i: usize| -> Option<u64> { f.get(i)?.parse().ok() };
    let d = |i: usize| -> Option<Vec<u8>> { unhex(f.get(i)?) };
    Some(match (tag, f.len()) {
        ("P", 3) => Ent::Pair(n(0)?, n(1)?, d(2)?),
        ("B", 1) => Ent::Base(n(0)?),
        ("Bx", 1) => Ent::Basex(n(0)?),
        ("XX", 3) => Ent::XX(n(0)?, n(1)?, d(2)?),
        ("XL", 3) => Ent::XL(n(0)?, n(1)?, d(2)?),
        ("OP", 3) => Ent::OP(n(0)?, n(1)?, d(2)?),
        ("DL", 1) => Ent::DL(d(0)?),
        ("SE", 3) => Ent::SE(n(0)?, n(1)?, d(2)?),
        ("SL", 3) => Ent::SL(n(0)?, n(1)?, d(2)?),
        _ => return None,
    })
}

fn parse_ents(s: &str) -> Option<Vec<Ent>> {
    if s == "-" {
        return Some(vec![]);
    }
    s.split(';').map(parse_ent).collect()
}

fn events_text(evs: &[String]) -> String {
    if evs.is_empty() { "-".into() } else { evs.join(";") }
}

// ---------- the harness's own encoder (independent of the Lean `encodeList`) ----------

/// (use the DWARF<=4 section, entries are DW_*LE coded)
fn section_format(k: Kind, version: u16, dwo: bool) -> (bool, bool) {
    if version <= 4 { (true, k == Kind::Loc && dwo) } else { (false, true) }
}

fn put_uint(out: &mut Vec<u8>, big: bool, size: usize, v: u64) {
    let le = v.to_le_bytes();
    if big {
        for i in (0..size).rev() {
            out.push(le[i]);
        }
    } else {
        out.extend_from_slice(&le[..size]);
    }
}

fn put_uleb(out: &mut Vec<u8>, mut v: u64) {
    loop {
        let b = (v & 0x7f) as u8;
        v >>= 7;
        if v != 0 {
            out.push(b | 0x80);
        } else {
            out.push(b);
            return;
        }
    }
}

fn fits(v: u64, size: u8) -> bool {
    size >= 8 || v >> (8 * size as u32) == 0
}

fn put_data(out: &mut Vec<u8>, k: Kind, c: &Cfg, coded: bool, d: &[u8]) -> Option<()> {
    match k {
        Kind::Rng => {
            if !d.is_empty() {
                return None;
            }
        }
        Kind::Loc => {
            if coded && c.enc.version >= 5 {
                put_uleb(out, d.len() as u64);
            } else {
                if d.len() > 0xffff {
                    return None;
                }
                put_uint(out, c.big, 2, d.len() as u64);
            }
            out.extend_from_slice(d);
        }
    }
    Some(())
}

/// `None` = not a well-formed entry for this family / configuration / format
fn encode_entry(out: &mut Vec<u8>, k: Kind, c: &Cfg, coded: bool, e: &Ent) -> Option<()> {
    let s = c.enc.address_size;
    let a = |out: &mut Vec<u8>, v: u64| -> Option<()> {
        if !fits(v, s) {
            return None;
        }
        put_uint(out, c.big, s as usize, v);
        Some(())
    };
    let ones = if s >= 8 { u64::MAX } else { (1u64 << (8 * s as u32)) - 1 };
    if !coded {
        match e {
            Ent::Pair(b, en, d) => {
                if (*b == 0 && *en == 0) || *b == ones {
                    return None;
                }
                a(out, *b)?;
                a(out, *en)?;
                put_data(out, k, c, false, d)
            }
            Ent::Base(addr) => {
                a(out, ones)?;
                a(out, *addr)
            }
            _ => None,
        }
    } else {
        let rng = k == Kind::Rng;
        match e {
            Ent::Pair(..) => None,
            Ent::Basex(i) => {
                out.push(1);
                put_uleb(out, *i);
                Some(())
            }
            Ent::XX(b, en, d) => {
                out.push(2);
                put_uleb(out, *b);
                put_uleb(out, *en);
                put_data(out, k, c, true, d)
            }
            Ent::XL(b, l, d) => {
                out.push(3);
                put_uleb(out, *b);
                if k == Kind::Loc && c.enc.version < 5 {
                    if *l > 0xffff_ffff {
                        return None;
                    }
                    put_uint(out, c.big, 4, *l);
                } else {
                    put_uleb(out, *l);
                }
                put_data(out, k, c, true, d)
            }
            Ent::OP(b, en, d) => {
                out.push(4);
                put_uleb(out, *b);
                put_uleb(out, *en);
                put_data(out, k, c, true, d)
            }
            Ent::DL(d) => {
                if rng {
                    return None;
                }
                out.push(5);
                put_data(out, k, c, true, d)
            }
            Ent::Base(addr) => {
                out.push(if rng { 5 } else { 6 });
                a(out, *addr)
            }
            Ent::SE(b, en, d) => {
                out.push(if rng { 6 } else { 7 });
                a(out, *b)?;
                a(out, *en)?;
                put_data(out, k, c, true, d)
            }
            Ent::SL(b, l, d) => {
                out.push(if rng { 7 } else { 8 });
                a(out, *b)?;
                put_uleb(out, *l);
                put_data(out, k, c, true, d)
            }
        }
    }
}

fn encode_list(k: Kind, c: &Cfg, coded: bool, es: &[Ent]) -> Option<Vec<u8>> {
    if ![1u8, 2, 4, 8].contains(&c.enc.address_size) {
        return None;
    }
    let mut out = Vec::new();
    for e in es {
        encode_entry(&mut out, k, c, coded, e)?;
    }
    if coded {
        out.push(0);
    } else {
        put_uint(&mut out, c.big, c.enc.address_size as usize, 0);
        put_uint(&mut out, c.big, c.enc.address_size as usize, 0);
    }
    Some(out)
}

// ---------- the real crate ----------

fn raw_rng_ent(e: RawRngListEntry<usize>) -> Ent {
    match e {
        RawRngListEntry::AddressOrOffsetPair { begin, end } => Ent::Pair(begin, end, vec![]),
        RawRngListEntry::BaseAddress { addr } => Ent::Base(addr),
        RawRngListEntry::BaseAddressx { addr } => Ent::Basex(addr.0 as u64),
        RawRngListEntry::StartxEndx { begin, end } => Ent::XX(begin.0 as u64, end.0 as u64, vec![]),
        RawRngListEntry::StartxLength { begin, length } => Ent::XL(begin.0 as u64, length, vec![]),
        RawRngListEntry::OffsetPair { begin, end } => Ent::OP(begin, end, vec![]),
        RawRngListEntry::StartEnd { begin, end } => Ent::SE(begin, end, vec![]),
        RawRngListEntry::StartLength { begin, length } => Ent::SL(begin, length, vec![]),
    }
}

fn raw_loc_ent(e: RawLocListEntry<R>) -> Ent {
    let d = |x: gimli::Expression<R>| x.0.slice().to_vec();
    match e {
        RawLocListEntry::AddressOrOffsetPair { begin, end, data } => Ent::Pair(begin, end, d(data)),
        RawLocListEntry::BaseAddress { addr } => Ent::Base(addr),
        RawLocListEntry::BaseAddressx { addr } => Ent::Basex(addr.0 as u64),
        RawLocListEntry::StartxEndx { begin, end, data } => Ent::XX(begin.0 as u64, end.0 as u64, d(data)),
        RawLocListEntry::StartxLength { begin, length, data } => Ent::XL(begin.0 as u64, length, d(data)),
        RawLocListEntry::OffsetPair { begin, end, data } => Ent::OP(begin, end, d(data)),
        RawLocListEntry::DefaultLocation { data } => Ent::DL(d(data)),
        RawLocListEntry::StartEnd { begin, end, data } => Ent::SE(begin, end, d(data)),
        RawLocListEntry::StartLength { begin, length, data } => Ent::SL(begin, length, d(data)),
    }
}

/// one result of `next()`: an item or an error
#[derive(Clone, PartialEq, Eq, Debug)]
enum Ev<T> {
    Item(T),
    Error(String),
}

/// call `next` until `Ok(None)`; the step cap (input length + 2 calls) is part of the check:
/// every entry consumes at least one byte
fn drain<T>(cap: usize, mut next: impl FnMut() -> gimli::Result<Option<T>>) -> Result<Vec<Ev<T>>, String> {
    let mut out = Vec::new();
    for _ in 0..cap {
        match next() {
            Ok(Some(x)) => out.push(Ev::Item(x)),
            Ok(None) => return Ok(out),
            Err(e) => out.push(Ev::Error(rerr(&e))),
        }
    }
    Err(format!("no-end-after-{cap}-calls"))
}

struct Secs<'a> {
    legacy: &'a [u8],
    v5: &'a [u8],
}

type Rangeish = (u64, u64, Vec<u8>);

fn real_raw(k: Kind, c: &Cfg, dwo: bool, s: &Secs, off: usize) -> Result<Result<Vec<Ev<Ent>>, String>, gimli::Error> {
    let e = c.endian();
    let cap = s.legacy.len().max(s.v5.len()) + 2;
    Ok(match k {
        Kind::Rng => {
            let rl = RangeLists::new(DebugRanges::new(s.legacy, e), DebugRngLists::new(s.v5, e));
            let mut it = rl.raw_ranges(RangeListsOffset(off), c.enc)?;
            drain(cap, || it.next()).map(|v| v.into_iter().map(|x| match x {
                Ev::Item(r) => Ev::Item(raw_rng_ent(r)),
                Ev::Error(e) => Ev::Error(e),
            }).collect())
        }
        Kind::Loc => {
            let ll = LocationLists::new(DebugLoc::new(s.legacy, e), DebugLocLists::new(s.v5, e));
            let mut it = if dwo { ll.raw_locations_dwo(LocationListsOffset(off), c.enc)? } else { ll.raw_locations(LocationListsOffset(off), c.enc)? };
            drain(cap, || it.next()).map(|v| v.into_iter().map(|x| match x {
                Ev::Item(r) => Ev::Item(raw_loc_ent(r)),
                Ev::Error(e) => Ev::Error(e),
            }).collect())
        }
    })
}

fn real_cooked(k: Kind, c: &Cfg, dwo: bool, s: &Secs, off: usize, base: u64, addr: &[u8], ab: usize) -> Result<Result<Vec<Ev<Rangeish>>, String>, gimli::Error> {
    let e = c.endian();
    let cap = s.legacy.len().max(s.v5.len()) + 2;
    let debug_addr = DebugAddr::from(EndianSlice::new(addr, e));
    Ok(match k {
        Kind::Rng => {
            let rl = RangeLists::new(DebugRanges::new(s.legacy, e), DebugRngLists::new(s.v5, e));
            let mut it = rl.ranges(RangeListsOffset(off), c.enc, base, &debug_addr, DebugAddrBase(ab))?;
            drain(cap, || it.next()).map(|v| v.into_iter().map(|x| match x {
                Ev::Item(r) => Ev::Item((r.begin, r.end, vec![])),
                Ev::Error(e) => Ev::Error(e),
            }).collect())
        }
        Kind::Loc => {
            let ll = LocationLists::new(DebugLoc::new(s.legacy, e), DebugLocLists::new(s.v5, e));
            let o = LocationListsOffset(off);
            let mut it = if dwo { ll.locations_dwo(o, c.enc, base, &debug_addr, DebugAddrBase(ab))? } else { ll.locations(o, c.enc, base, &debug_addr, DebugAddrBase(ab))? };
            drain(cap, || it.next()).map(|v| v.into_iter().map(|x| match x {
                Ev::Item(r) => Ev::Item((r.range.begin, r.range.end, r.data.0.slice().to_vec())),
                Ev::Error(e) => Ev::Error(e),
            }).collect())
        }
    })
}

fn raw_text(evs: &[Ev<Ent>]) -> String {
    events_text(&evs.iter().map(|e| match e {
        Ev::Item(x) => ent_text(x),
        Ev::Error(e) => format!("!{e}"),
    }).collect::<Vec<_>>())
}

fn cooked_text(evs: &[Ev<Rangeish>]) -> String {
    events_text(&evs.iter().map(|e| match e {
        Ev::Item((b, e, d)) => format!("R:{b},{e},{}", hex(d)),
        Ev::Error(e) => format!("!{e}"),
    }).collect::<Vec<_>>())
}

// ---------- direct oracle ----------

/// third sentence of C08: every yielded range is non-empty and begins below the tombstones
/// (-2 and -1 as addresses of the unit's address size)
fn check_yield(c: &Cfg, evs: &[Ev<Rangeish>]) -> Option<String> {
    let m: u128 = 1u128 << (8 * c.enc.address_size as u32);
    for e in evs {
        if let Ev::Item((b, en, _)) = e {
            if !(*b < *en) {
                return Some(format!("yielded-empty {b}..{en}"));
            }
            if (*b as u128) >= m - 2 {
                return Some(format!("yielded-tombstone {b}..{en}"));
            }
        }
    }
    None
}

#[derive(Clone, PartialEq, Eq, Debug)]
enum Den {
    R(u64, u64, Vec<u8>),
    Undef,
}

/// The standard's resolution, naively: 128-bit arithmetic modulo 2^(8·size), address table =
/// `size`-byte integers at `ab + i·size`.
fn spec_resolve(c: &Cfg, addr: &[u8], ab: u64, base0: u64, es: &[Ent]) -> Vec<Den> {
    let s = c.enc.address_size as u128;
    let m: u128 = 1u128 << (8 * s as u32);
    let tomb = m - 2;
    let tbl = |i: u64| -> Option<u128> {
        let off = ab as u128 + i as u128 * s;
        if off + s > addr.len() as u128 {
            return None;
        }
        let sl = &addr[off as usize..(off + s) as usize];
        let mut v: u128 = 0;
        if c.big {
            for b in sl {
                v = v << 8 | *b as u128;
            }
        } else {
            for b in sl.iter().rev() {
                v = v << 8 | *b as u128;
            }
        }
        Some(v)
    };
    let mut base = base0 as u128;
    let mut out = Vec::new();
    for e in es {
        // (begin, end, data, relative to base)
        let r: Option<(u128, u128, &Vec<u8>, bool)> = match e {
            Ent::Base(a) => {
                base = *a as u128;
                continue;
            }
            Ent::Basex(i) => {
                match tbl(*i) {
                    Some(a) => base = a,
                    None => out.push(Den::Undef),
                }
                continue;
            }
            Ent::Pair(b, en, d) | Ent::OP(b, en, d) => Some(((base + *b as u128) % m, (base + *en as u128) % m, d, true)),
            Ent::XX(b, en, d) => match (tbl(*b), tbl(*en)) {
                (Some(b), Some(en)) => Some((b, en, d, false)),
                _ => None,
            },
            Ent::XL(b, l, d) => tbl(*b).map(|b| (b, (b + *l as u128) % m, d, false)),
            Ent::DL(d) => Some((0, u64::MAX as u128, d, false)),
            Ent::SE(b, en, d) => Some((*b as u128, *en as u128, d, false)),
            Ent::SL(b, l, d) => Some((*b as u128, (*b as u128 + *l as u128) % m, d, false)),
        };
        match r {
            None => out.push(Den::Undef),
            Some((b, en, d, rel)) => {
                let keep = (!rel || base < tomb) && b < tomb && b < en;
                if keep {
                    out.push(Den::R(b as u64, en as u64, d.clone()));
                }
            }
        }
    }
    out
}

fn with_oracle(s: String, o: Option<String>) -> String {
    match o {
        Some(w) => format!("{s} #oracle:{w}"),
        None => s,
    }
}

fn render<T>(r: Result<Result<Vec<Ev<T>>, String>, gimli::Error>, f: impl Fn(&[Ev<T>]) -> String) -> (String, Option<Vec<Ev<T>>>) {
    match r {
        Err(e) => (format!("err {}", rerr(&e)), None),
        Ok(Err(why)) => (format!("hang {why}"), None),
        Ok(Ok(v)) => (format!("ok {}", f(&v)), Some(v)),
    }
}

/// the word (`format.word_size()` bytes) at `base + index·word_size`, added to `base`
fn naive_get_offset(c: &Cfg, sec: &[u8], base: u64, idx: u64) -> Option<u64> {
    let w: u128 = if c.enc.format == Format::Dwarf64 { 8 } else { 4 };
    let at = base as u128 + idx as u128 * w;
    if at + w > sec.len() as u128 {
        return None;
    }
    let sl = &sec[at as usize..(at + w) as usize];
    let mut v: u128 = 0;
    if c.big {
        for b in sl {
            v = v << 8 | *b as u128;
        }
    } else {
        for b in sl.iter().rev() {
            v = v << 8 | *b as u128;
        }
    }
    let r = base as u128 + v;
    if r > u64::MAX as u128 { None } else { Some(r as u64) }
}

fn naive_get_address(c: &Cfg, sec: &[u8], base: u64, idx: u64) -> Option<u64> {
    let s = c.enc.address_size;
    if ![1u8, 2, 4, 8].contains(&s) {
        return None;
    }
    let w = s as u128;
    let at = base as u128 + idx as u128 * w;
    if at + w > sec.len() as u128 {
        return None;
    }
    let sl = &sec[at as usize..(at + w) as usize];
    let mut v: u64 = 0;
    if c.big {
        for b in sl {
            v = v << 8 | *b as u64;
        }
    } else {
        for b in sl.iter().rev() {
            v = v << 8 | *b as u64;
        }
    }
    Some(v)
}

pub fn handle(op: &str, a: &[&str]) -> Option<String> {
    match (op, a) {
        ("lists-raw", [k, c, dwo, off, legacy, v5]) => {
            let (k, c, dwo) = (kind(k)?, cfg(c)?, flag(dwo)?);
            let off: usize = off.parse().ok()?;
            let (legacy, v5) = (unhex(legacy)?, unhex(v5)?);
            let s = Secs { legacy: &legacy, v5: &v5 };
            let (t, _) = render(real_raw(k, &c, dwo, &s, off), raw_text);
            Some(t)
        }
        ("lists-cooked", [k, c, dwo, off, legacy, v5, base, addr, ab]) => {
            let (k, c, dwo) = (kind(k)?, cfg(c)?, flag(dwo)?);
            let off: usize = off.parse().ok()?;
            let (legacy, v5) = (unhex(legacy)?, unhex(v5)?);
            let base: u64 = base.parse().ok()?;
            let addr = unhex(addr)?;
            let ab: usize = ab.parse().ok()?;
            let s = Secs { legacy: &legacy, v5: &v5 };
            let (t, evs) = render(real_cooked(k, &c, dwo, &s, off, base, &addr, ab), cooked_text);
            let o = evs.and_then(|v| check_yield(&c, &v));
            Some(with_oracle(t, o))
        }
        ("lists-spec", [k, c, dwo, pre, suf, ents, base, addr, ab]) => {
            let (k, c, dwo) = (kind(k)?, cfg(c)?, flag(dwo)?);
            let (pre, suf) = (unhex(pre)?, unhex(suf)?);
            let ents = parse_ents(ents)?;
            let base: u64 = base.parse().ok()?;
            let addr = unhex(addr)?;
            let ab: usize = ab.parse().ok()?;
            let (use_legacy, coded) = section_format(k, c.enc.version, dwo);
            let Some(enc) = encode_list(k, &c, coded, &ents) else { return Some("ok invalid".into()) };
            let mut sec = pre.clone();
            sec.extend_from_slice(&enc);
            sec.extend_from_slice(&suf);
            let s = if use_legacy { Secs { legacy: &sec, v5: &suf } } else { Secs { legacy: &suf, v5: &sec } };
            let (rt, revs) = render(real_raw(k, &c, dwo, &s, pre.len()), raw_text);
            let (ct, cevs) = render(real_cooked(k, &c, dwo, &s, pre.len(), base, &addr, ab), cooked_text);
            let mut o = None;
            // raw iteration exposes every encoded entry unchanged and stops at the terminator
            match &revs {
                Some(v) if *v == ents.iter().cloned().map(Ev::Item).collect::<Vec<_>>() => {}
                _ => o = Some(format!("raw-differs expected={} got={rt}", ents_text(&ents))),
            }
            // cooked iteration = the standard's resolution of the abstract list
            if o.is_none() {
                let want = spec_resolve(&c, &addr, ab as u64, base, &ents);
                match &cevs {
                    Some(v) => {
                        let got: Vec<Den> = v.iter().map(|e| match e {
                            Ev::Item((b, e, d)) => Den::R(*b, *e, d.clone()),
                            Ev::Error(_) => Den::Undef,
                        }).collect();
                        if got != want {
                            o = Some(format!("resolve-differs expected={want:?} got={ct}").replace(' ', ""));
                        } else {
                            o = check_yield(&c, v);
                        }
                    }
                    None => o = Some(format!("resolve-failed got={ct}")),
                }
            }
            Some(with_oracle(format!("ok {} | {rt} | {ct}", hex(&enc)), o))
        }
        ("lists-getoffset", [c, sec, base, idx]) => {
            let c = cfg(c)?;
            let sec = unhex(sec)?;
            let base: u64 = base.parse().ok()?;
            let idx: u64 = idx.parse().ok()?;
            let e = c.endian();
            let rl = RangeLists::new(DebugRanges::new(&[], e), DebugRngLists::new(&sec, e));
            let ll = LocationLists::new(DebugLoc::new(&[], e), DebugLocLists::new(&sec, e));
            let r1 = rl.get_offset(c.enc, DebugRngListsBase(base as usize), DebugRngListsIndex(idx as usize)).map(|x| x.0 as u64);
            let r2 = ll.get_offset(c.enc, DebugLocListsBase(base as usize), DebugLocListsIndex(idx as usize)).map(|x| x.0 as u64);
            let t = |r: &gimli::Result<u64>| match r {
                Ok(v) => format!("ok {v}"),
                Err(e) => format!("err {}", rerr(e)),
            };
            let mut o = None;
            if t(&r1) != t(&r2) {
                o = Some(format!("rnglists-loclists-differ {}/{}", t(&r1), t(&r2)).replace(' ', "_"));
            } else {
                let want = naive_get_offset(&c, &sec, base, idx);
                if want != r1.as_ref().ok().copied() {
                    o = Some(format!("offset-differs expected={want:?}").replace(' ', ""));
                }
            }
            Some(with_oracle(t(&r1), o))
        }
        ("lists-getaddr", [c, sec, base, idx]) => {
            let c = cfg(c)?;
            let sec = unhex(sec)?;
            let base: u64 = base.parse().ok()?;
            let idx: u64 = idx.parse().ok()?;
            let da = DebugAddr::from(EndianSlice::new(&sec[..], c.endian()));
            let r = da.get_address(c.enc.address_size, DebugAddrBase(base as usize), DebugAddrIndex(idx as usize));
            let t = match &r {
                Ok(v) => format!("ok {v}"),
                Err(e) => format!("err {}", rerr(e)),
            };
            let want = naive_get_address(&c, &sec, base, idx);
            let o = if want != r.ok() { Some(format!("address-differs expected={want:?}").replace(' ', "")) } else { None };
            Some(with_oracle(t, o))
        }
        _ => None,
    }
}

// ---------- generator ----------

struct G<'a> {
    rng: &'a mut Rng,
}

impl<'a> G<'a> {
    fn cfg(&mut self) -> Cfg {
        let address_size = *self.rng.pick(&[1u8, 2, 4, 8, 4, 8]);
        let format = if self.rng.chance(1, 3) { Format::Dwarf64 } else { Format::Dwarf32 };
        let version = *self.rng.pick(&[2u16, 3, 4, 5, 5, 4]);
        Cfg { big: self.rng.chance(1, 3), enc: Encoding { address_size, format, version } }
    }
    fn ones(s: u8) -> u64 {
        if s >= 8 { u64::MAX } else { (1u64 << (8 * s as u32)) - 1 }
    }
    /// boundary-biased address of `s` bytes
    fn address(&mut self, s: u8) -> u64 {
        let m = Self::ones(s);
        let v = match self.rng.below(12) {
            0 => 0,
            1 => 1,
            2 => m,
            3 => m - 1,
            4 => m - 2,
            5 => m / 2,
            6 => m / 2 + 1,
            7 => self.rng.below(0x40),
            8 => m - self.rng.below(0x20),
            9 => self.rng.boundary_u64(),
            10 => 0x1000 * self.rng.below(16),
            _ => self.rng.next(),
        };
        v & m
    }
    /// offset / length: small, or chosen to wrap around an `s`-byte address, or a 64-bit boundary
    fn offset(&mut self, s: u8) -> u64 {
        let m = Self::ones(s);
        match self.rng.below(10) {
            0 => 0,
            1 => 1,
            2 => self.rng.below(0x100),
            3 => m,
            4 => m - self.rng.below(0x10),
            5 => m.wrapping_add(1).wrapping_add(self.rng.below(0x10)),
            6 => self.rng.boundary_u64(),
            7 => u64::MAX - self.rng.below(4),
            _ => self.rng.below(0x2000),
        }
    }
    fn index(&mut self, n: u64) -> u64 {
        match self.rng.below(12) {
            0 => n,
            1 => n + 1,
            2 => self.rng.boundary_u64(),
            _ => self.rng.below(n.max(1)),
        }
    }
    fn data(&mut self, k: Kind) -> Vec<u8> {
        if k == Kind::Rng {
            return vec![];
        }
        match self.rng.below(8) {
            0 => vec![],
            1 => self.rng.bytes(0x80),
            2 => self.rng.bytes(0x7f),
            _ => self.rng.bytes_below(6),
        }
    }
    fn entry(&mut self, k: Kind, c: &Cfg, coded: bool, ntbl: u64) -> Ent {
        let s = c.enc.address_size;
        if !coded {
            if self.rng.chance(1, 5) {
                return Ent::Base(self.address(s));
            }
            loop {
                let (b, e) = if self.rng.chance(1, 2) { (self.address(s), self.address(s)) } else {
                    let b = self.address(s);
                    (b, b.wrapping_add(self.rng.below(0x20)) & Self::ones(s))
                };
                if (b == 0 && e == 0) || b == Self::ones(s) {
                    continue;
                }
                return Ent::Pair(b, e, self.data(k));
            }
        }
        let gnu = k == Kind::Loc && c.enc.version < 5;
        match self.rng.below(if k == Kind::Loc { 9 } else { 8 }) {
            0 => Ent::Base(self.address(s)),
            1 => Ent::Basex(self.index(ntbl)),
            2 => Ent::XX(self.index(ntbl), self.index(ntbl), self.data(k)),
            3 => {
                let l = self.offset(s);
                Ent::XL(self.index(ntbl), if gnu { l & 0xffff_ffff } else { l }, self.data(k))
            }
            4 | 5 => Ent::OP(self.offset(s), self.offset(s), self.data(k)),
            6 => {
                let b = self.address(s);
                let e = if self.rng.chance(1, 2) { self.address(s) } else { b.wrapping_add(self.rng.below(0x20)) & Self::ones(s) };
                Ent::SE(b, e, self.data(k))
            }
            7 => Ent::SL(self.address(s), self.offset(s), self.data(k)),
            _ => Ent::DL(self.data(k)),
        }
    }
    /// `.debug_addr`-like bytes: `junk` bytes, then `n` addresses; returns (bytes, addr_base, n)
    fn table(&mut self, c: &Cfg) -> (Vec<u8>, usize, u64) {
        let s = c.enc.address_size;
        let junk = *self.rng.pick(&[0usize, 0, 8, 16, 3]);
        let n = self.rng.below(7);
        let mut out = self.rng.bytes(junk);
        for _ in 0..n {
            let a = self.address(s);
            put_uint(&mut out, c.big, s as usize, a);
        }
        // a partial trailing slot now and then
        if self.rng.chance(1, 6) {
            out.extend(self.rng.bytes((s as usize).saturating_sub(1)));
        }
        let ab = match self.rng.below(10) {
            0 => out.len(),
            1 => out.len() + 1,
            2 => junk + 1,
            _ => junk,
        };
        (out, ab, n)
    }
}

fn mutate(rng: &mut Rng, bs: &[u8]) -> Vec<u8> {
    let mut b = bs.to_vec();
    if b.is_empty() {
        return rng.bytes_below(8);
    }
    match rng.below(6) {
        0 => {
            let k = rng.below(b.len() as u64) as usize;
            b.truncate(k);
        }
        1 => {
            let k = rng.below(b.len() as u64) as usize;
            b[k] = *rng.pick(&[0u8, 1, 5, 8, 9, 0x7f, 0x80, 0xff, 0xfe]);
        }
        2 => {
            let k = rng.below(b.len() as u64) as usize;
            b[k] = b[k].wrapping_add(1);
        }
        3 => {
            let k = rng.below(b.len() as u64) as usize;
            b.remove(k);
        }
        4 => {
            let k = rng.below(b.len() as u64 + 1) as usize;
            b.insert(k, rng.next() as u8);
        }
        _ => {
            let k = rng.below(b.len() as u64) as usize;
            let m = rng.bytes_below(5);
            b.splice(k..k, m);
        }
    }
    b
}

pub fn gen(ctx: &Ctx, emit: &mut dyn FnMut(String)) {
    let mut rng = ctx.rng(8);
    let n = ctx.n(9000, 400_000);
    for i in 0..n {
        let mut g = G { rng: &mut rng };
        let c = g.cfg();
        let k = if g.rng.chance(1, 2) { Kind::Rng } else { Kind::Loc };
        let dwo = g.rng.chance(1, 3);
        let (use_legacy, coded) = section_format(k, c.enc.version, dwo);
        let (addr, ab, ntbl) = g.table(&c);
        let cnt = g.rng.below(7);
        let ents: Vec<Ent> = (0..cnt).map(|_| g.entry(k, &c, coded, ntbl)).collect();
        let base = match g.rng.below(4) {
            0 => 0,
            1 => g.address(c.enc.address_size),
            2 => g.rng.boundary_u64(),
            _ => 0x1000 * g.rng.below(64),
        };
        let pre = if g.rng.chance(1, 3) { g.rng.bytes_below(24) } else { vec![] };
        let suf = if g.rng.chance(1, 2) { g.rng.bytes_below(12) } else { vec![] };
        // structured-valid: the abstract list, encoded on both sides
        emit(format!(
            "lists-spec {} {} {} {} {} {} {base} {} {ab}",
            if k == Kind::Rng { "rng" } else { "loc" },
            c.text(),
            dwo as u8,
            hex(&pre),
            hex(&suf),
            ents_text(&ents),
            hex(&addr)
        ));
        // malformed / arbitrary: mutations of the encoded list and raw random bytes
        if i % 3 == 0 {
            let enc = encode_list(k, &c, coded, &ents).unwrap_or_default();
            let bytes = match g.rng.below(4) {
                0 => g.rng.bytes_below(40),
                1 => {
                    // random bytes biased to valid entry codes
                    let l = g.rng.below(40) as usize;
                    (0..l).map(|_| if g.rng.chance(1, 3) { g.rng.below(10) as u8 } else { g.rng.next() as u8 }).collect()
                }
                _ => {
                    let mut b = mutate(g.rng, &enc);
                    if g.rng.chance(1, 3) {
                        b = mutate(g.rng, &b);
                    }
                    b
                }
            };
            let mut sec = pre.clone();
            sec.extend_from_slice(&bytes);
            let off = match g.rng.below(8) {
                0 => sec.len(),
                1 => sec.len() + 1,
                _ => pre.len(),
            };
            let other = g.rng.bytes_below(6);
            // some cases put the list into the section the version does NOT select
            let swap = g.rng.chance(1, 10);
            let (legacy, v5) = if use_legacy != swap { (sec.clone(), other) } else { (other, sec.clone()) };
            // address sizes outside 1,2,4,8 (uleb-only entries still resolve)
            let mut c2 = c;
            if g.rng.chance(1, 12) {
                c2.enc.address_size = *g.rng.pick(&[3u8, 5, 6, 7]);
            }
            if g.rng.chance(1, 10) {
                c2.enc.version = *g.rng.pick(&[0u16, 1, 6, 0xffff]);
            }
            let ks = if k == Kind::Rng { "rng" } else { "loc" };
            emit(format!("lists-raw {ks} {} {} {off} {} {}", c2.text(), dwo as u8, hex(&legacy), hex(&v5)));
            emit(format!("lists-cooked {ks} {} {} {off} {} {} {base} {} {ab}", c2.text(), dwo as u8, hex(&legacy), hex(&v5), hex(&addr)));
        }
        // table lookups
        if i % 4 == 0 {
            let w: u64 = if c.enc.format == Format::Dwarf64 { 8 } else { 4 };
            let slots = g.rng.below(5);
            let hdr = *g.rng.pick(&[0usize, 12, 20, 5]);
            let mut sec = g.rng.bytes(hdr);
            for _ in 0..slots {
                let v = match g.rng.below(5) {
                    0 => g.rng.boundary_u64(),
                    1 => u64::MAX - g.rng.below(0x20),
                    _ => g.rng.below(0x100),
                };
                put_uint(&mut sec, c.big, w as usize, if w == 4 { v & 0xffff_ffff } else { v });
            }
            let tb = match g.rng.below(8) {
                0 => sec.len() as u64,
                1 => sec.len() as u64 + 1,
                2 => g.rng.boundary_u64(),
                _ => hdr as u64,
            };
            let idx = match g.rng.below(8) {
                0 => slots,
                1 => g.rng.boundary_u64(),
                2 => u64::MAX / w + g.rng.below(3),
                _ => g.rng.below(slots.max(1)),
            };
            emit(format!("lists-getoffset {} {} {tb} {idx}", c.text(), hex(&sec)));
            let idx2 = match g.rng.below(8) {
                0 => ntbl,
                1 => g.rng.boundary_u64(),
                2 => (u64::MAX / c.enc.address_size as u64).wrapping_add(g.rng.below(3)),
                _ => g.rng.below(ntbl.max(1)),
            };
            let ab2 = if g.rng.chance(1, 8) { g.rng.boundary_u64() } else { ab as u64 };
            let mut c3 = c;
            if g.rng.chance(1, 10) {
                c3.enc.address_size = *g.rng.pick(&[3u8, 5, 6, 7]);
            }
            emit(format!("lists-getaddr {} {} {ab2} {idx2}", c3.text(), hex(&addr)));
        }
    }
}
