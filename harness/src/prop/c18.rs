//! C18 — relocation is transparent on both the reading and the writing side.
//!
//! `rw-calls <le|be> <sym addrs> <section bases> <call>…`
//!     a sequence of `Writer` calls on (R) a recording writer (`impl RelocateWriter`), (D) a writer
//!     that resolves symbols / section bases on the spot, (A) the harness' own linker applied to
//!     what (R) produced.  Oracle `apply-differs`: (A) ≠ (D) although no positioned plain write
//!     landed on a relocated field.
//! `rr-hist <mode> <le|be> <section> <relocs> <prim>…`
//!     a straight-line parser on (R) `RelocateReader<TraceReader<EndianRcSlice>, MapReloc>` over
//!     the section and (P) `EndianRcSlice` over the section with the relocations applied; `c:` is
//!     the hypothesis of `reloc_read_transparent` evaluated from the tracing reader's log.
//!     Oracle `reloc-read-differs`: c = 1 but the traces differ.
//! `rl-dwarf <le|be> <version> <32|64> <address size> <seed> <eh enc> <sym addrs A> <sym addrs B>`
//!     units / line programs / range + location lists / frame tables built by `gimli::write` with
//!     symbolic addresses and written through recording writers, and the same with constant
//!     addresses through plain `EndianVec`s.  Oracles:
//!       `reloc-write-differs`  recorded + applied ≠ plainly written (any section, env A and B)
//!       `reloc-read-differs`   semantic dump through RelocateReader ≠ dump of pre-applied bytes
//!       `reloc-not-read`       a recorded relocation is never read through a relocatable primitive
//!                              with its size (tracing reader)
//!       `read-not-recorded`    a relocatable primitive read a field that carries no relocation
//!                              (outside the pre-v5 list sections, whose entries are address pairs)
use super::c10::{parse_op, run_hist, run_hist_probe, Op};
use crate::prop::{Ctx, Tier};
use crate::util::{hex, rerr, unhex, werr, Rng};
use gimli::write::{self, Address, EndianVec, RelocateWriter, Relocation, RelocationTarget, Writer};
use gimli::{
    constants, DwEhPe, EndianRcSlice, EndianSlice, Format, Reader, ReaderOffsetId, Relocate, RelocateReader, RunTimeEndian, SectionId,
};
use std::borrow::Cow;
use std::cell::{Cell, RefCell};
use std::collections::{BTreeSet, HashMap};
use std::fmt::Write as _;
use std::rc::Rc;

pub const SECS: [SectionId; 11] = [
    SectionId::DebugAbbrev,
    SectionId::DebugInfo,
    SectionId::DebugLine,
    SectionId::DebugLineStr,
    SectionId::DebugRanges,
    SectionId::DebugRngLists,
    SectionId::DebugLoc,
    SectionId::DebugLocLists,
    SectionId::DebugStr,
    SectionId::DebugFrame,
    SectionId::EhFrame,
];
fn sec_index(id: SectionId) -> usize {
    SECS.iter().position(|s| *s == id).unwrap_or(usize::MAX)
}

// ---------------------------------------------------------------------------------------------
// writers
// ---------------------------------------------------------------------------------------------
/// the recording writer: gimli's blanket `impl<T: RelocateWriter> Writer for T`
#[derive(Clone, Debug)]
pub struct Rec {
    pub w: EndianVec<RunTimeEndian>,
    pub relocs: Vec<Relocation>,
}
impl Rec {
    pub fn new(e: RunTimeEndian) -> Self {
        Rec { w: EndianVec::new(e), relocs: Vec::new() }
    }
}
impl RelocateWriter for Rec {
    type Writer = EndianVec<RunTimeEndian>;
    fn writer(&self) -> &Self::Writer {
        &self.w
    }
    fn writer_mut(&mut self) -> &mut Self::Writer {
        &mut self.w
    }
    fn relocate(&mut self, relocation: Relocation) {
        self.relocs.push(relocation);
    }
}

#[derive(Clone, Debug, Default)]
pub struct Env {
    pub syms: Vec<u64>,
    pub secs: Vec<u64>,
}
impl Env {
    fn sym(&self, i: usize) -> u64 {
        self.syms.get(i).copied().unwrap_or(0)
    }
    fn sec(&self, id: SectionId) -> u64 {
        self.secs.get(sec_index(id)).copied().unwrap_or(0)
    }
    fn resolve(&self, a: Address) -> u64 {
        match a {
            Address::Constant(v) => v,
            Address::Symbol { symbol, addend } => self.sym(symbol).wrapping_add(addend as u64),
        }
    }
}

/// "direct" writing: an `EndianVec` that knows the symbol and section addresses
#[derive(Clone, Debug)]
pub struct Resolving {
    pub w: EndianVec<RunTimeEndian>,
    pub env: Rc<Env>,
}
impl Writer for Resolving {
    type Endian = RunTimeEndian;
    fn endian(&self) -> RunTimeEndian {
        self.w.endian()
    }
    fn len(&self) -> usize {
        self.w.len()
    }
    fn write(&mut self, bytes: &[u8]) -> write::Result<()> {
        self.w.write(bytes)
    }
    fn write_at(&mut self, offset: usize, bytes: &[u8]) -> write::Result<()> {
        self.w.write_at(offset, bytes)
    }
    fn write_address(&mut self, address: Address, size: u8) -> write::Result<()> {
        let v = self.env.resolve(address);
        self.write_udata(v, size)
    }
    fn write_offset(&mut self, val: usize, section: SectionId, size: u8) -> write::Result<()> {
        let v = self.env.sec(section).wrapping_add(val as u64);
        self.write_udata(v, size)
    }
    fn write_offset_at(&mut self, offset: usize, val: usize, section: SectionId, size: u8) -> write::Result<()> {
        let v = self.env.sec(section).wrapping_add(val as u64);
        self.write_udata_at(offset, v, size)
    }
    fn write_eh_pointer(&mut self, address: Address, eh_pe: DwEhPe, size: u8) -> write::Result<()> {
        let v = self.env.resolve(address);
        self.w.write_eh_pointer(Address::Constant(v), eh_pe, size)
    }
}

/// the harness' linker: apply recorded relocations in recording order
pub fn apply_w(bytes: &[u8], relocs: &[Relocation], env: &Env, e: RunTimeEndian) -> write::Result<Vec<u8>> {
    let mut buf = EndianVec::new(e);
    buf.write(bytes)?;
    for r in relocs {
        let s = match r.target {
            RelocationTarget::Symbol(n) => env.sym(n),
            RelocationTarget::Section(id) => env.sec(id),
        };
        let v = s.wrapping_add(r.addend as u64);
        let mut tmp = EndianVec::new(e);
        match r.eh_pe {
            None => tmp.write_udata(v, r.size)?,
            Some(pe) => {
                let v = match pe.application() {
                    constants::DW_EH_PE_absptr => v,
                    constants::DW_EH_PE_pcrel => v.wrapping_sub(r.offset as u64),
                    _ => return Err(write::Error::UnsupportedPointerEncoding(pe)),
                };
                match pe.format() {
                    constants::DW_EH_PE_sdata2 | constants::DW_EH_PE_sdata4 | constants::DW_EH_PE_sdata8 => tmp.write_sdata(v as i64, r.size)?,
                    _ => tmp.write_udata(v, r.size)?,
                }
            }
        }
        buf.write_at(r.offset, tmp.slice())?;
    }
    Ok(buf.into_vec())
}

#[derive(Clone, Debug)]
enum Call {
    Write(Vec<u8>),
    WriteAt(usize, Vec<u8>),
    Udata(u64, u8),
    Sdata(i64, u8),
    UdataAt(usize, u64, u8),
    Uleb(u64),
    Sleb(i64),
    Addr(Address, u8),
    Offset(usize, usize, u8),
    OffsetAt(usize, usize, usize, u8),
    EhPointer(Address, u8, u8),
}

fn parse_call(t: &str) -> Option<Call> {
    let p: Vec<&str> = t.split(':').collect();
    let n = |i: usize| -> Option<u64> { p.get(i)?.parse().ok() };
    let us = |i: usize| -> Option<usize> { usize::try_from(n(i)?).ok() };
    let sz = |i: usize| -> Option<u8> { u8::try_from(n(i)?).ok() };
    let si = |i: usize| -> Option<i64> { p.get(i)?.parse().ok() };
    Some(match (p[0], p.len()) {
        ("w", 2) => Call::Write(unhex(p[1])?),
        ("wat", 3) => Call::WriteAt(us(1)?, unhex(p[2])?),
        ("ud", 3) => Call::Udata(n(1)?, sz(2)?),
        ("sd", 3) => Call::Sdata(si(1)?, sz(2)?),
        ("udat", 4) => Call::UdataAt(us(1)?, n(2)?, sz(3)?),
        ("ul", 2) => Call::Uleb(n(1)?),
        ("sl", 2) => Call::Sleb(si(1)?),
        ("ac", 3) => Call::Addr(Address::Constant(n(1)?), sz(2)?),
        ("as", 4) => Call::Addr(Address::Symbol { symbol: us(1)?, addend: si(2)? }, sz(3)?),
        ("of", 4) => Call::Offset(us(1)?, us(2)?, sz(3)?),
        ("ofat", 5) => Call::OffsetAt(us(1)?, us(2)?, us(3)?, sz(4)?),
        ("ec", 4) => Call::EhPointer(Address::Constant(n(1)?), sz(2)?, sz(3)?),
        ("es", 5) => Call::EhPointer(Address::Symbol { symbol: us(1)?, addend: si(2)? }, sz(3)?, sz(4)?),
        _ => return None,
    })
}

fn do_call<W: Writer>(w: &mut W, c: &Call) -> write::Result<()> {
    match c {
        Call::Write(b) => w.write(b),
        Call::WriteAt(o, b) => w.write_at(*o, b),
        Call::Udata(v, s) => w.write_udata(*v, *s),
        Call::Sdata(v, s) => w.write_sdata(*v, *s),
        Call::UdataAt(o, v, s) => w.write_udata_at(*o, *v, *s),
        Call::Uleb(v) => w.write_uleb128(*v),
        Call::Sleb(v) => w.write_sleb128(*v),
        Call::Addr(a, s) => w.write_address(*a, *s),
        Call::Offset(v, c, s) => w.write_offset(*v, SECS[*c % SECS.len()], *s),
        Call::OffsetAt(o, v, c, s) => w.write_offset_at(*o, *v, SECS[*c % SECS.len()], *s),
        Call::EhPointer(a, p, s) => w.write_eh_pointer(*a, DwEhPe(*p), *s),
    }
}

fn render_reloc(r: &Relocation) -> String {
    let t = match r.target {
        RelocationTarget::Symbol(n) => format!("S{n}"),
        RelocationTarget::Section(id) => format!("X{}", sec_index(id)),
    };
    format!("{}/{}/{}/{}/{}", r.offset, r.size, t, r.addend, r.eh_pe.map_or("-".to_string(), |p| p.0.to_string()))
}

fn num_list(s: &str) -> Option<Vec<u64>> {
    if s == "-" {
        return Some(vec![]);
    }
    s.split(',').map(|x| x.parse().ok()).collect()
}

fn endian(s: &str) -> Option<RunTimeEndian> {
    match s {
        "le" => Some(RunTimeEndian::Little),
        "be" => Some(RunTimeEndian::Big),
        _ => None,
    }
}

fn handle_rw_calls(a: &[&str]) -> Option<String> {
    let e = endian(a.first()?)?;
    let env = Rc::new(Env { syms: num_list(a.get(1)?)?, secs: num_list(a.get(2)?)? });
    let calls: Vec<Call> = a[3..].iter().map(|t| parse_call(t)).collect::<Option<Vec<_>>>()?;
    // (R) recording
    let mut rec = Rec::new(e);
    let mut rres: write::Result<()> = Ok(());
    let mut nc = true;
    for c in &calls {
        let clear = |off: usize, n: usize, rs: &[Relocation]| rs.iter().all(|r| r.offset + r.size as usize <= off || off + n <= r.offset);
        match c {
            Call::WriteAt(o, b) => nc &= clear(*o, b.len(), &rec.relocs),
            Call::UdataAt(o, _, s) => nc &= clear(*o, *s as usize, &rec.relocs),
            _ => {}
        }
        if let Err(x) = do_call(&mut rec, c) {
            rres = Err(x);
            break;
        }
    }
    // (D) direct
    let mut dw = Resolving { w: EndianVec::new(e), env: env.clone() };
    let mut dres: write::Result<()> = Ok(());
    for c in &calls {
        if let Err(x) = do_call(&mut dw, c) {
            dres = Err(x);
            break;
        }
    }
    let d_txt = match &dres {
        Ok(()) => hex(dw.w.slice()),
        Err(x) => format!("E:{}", werr(x)),
    };
    let (r_txt, a_txt, a_res) = match &rres {
        Ok(()) => {
            let ar = apply_w(rec.w.slice(), &rec.relocs, &env, e);
            let rl = if rec.relocs.is_empty() { "-".to_string() } else { rec.relocs.iter().map(render_reloc).collect::<Vec<_>>().join(";") };
            let at = match &ar {
                Ok(b) => hex(b),
                Err(x) => format!("E:{}", werr(x)),
            };
            (format!("{}:{}", hex(rec.w.slice()), rl), at, Some(ar))
        }
        Err(x) => (format!("E:{}", werr(x)), "-".to_string(), None),
    };
    let mut out = format!("ok R:{r_txt} D:{d_txt} A:{a_txt} nc:{}", if nc { 1 } else { 0 });
    // the theorem, on the real code: recorded, no clobbering  =>  (applied = ok b  <=>  direct = ok b)
    if let (Some(ar), true) = (a_res, nc) {
        let a_ok = ar.ok();
        let d_ok = dres.ok().map(|_| dw.w.slice().to_vec());
        if a_ok != d_ok {
            out.push_str(" #oracle:apply-differs recording then applying differs from writing directly");
        }
    }
    Some(out)
}

// ---------------------------------------------------------------------------------------------
// readers
// ---------------------------------------------------------------------------------------------
/// offset → addend, applied with wrapping addition (as `Relocate` implementations do)
#[derive(Debug, Clone)]
pub struct MapReloc(pub Rc<HashMap<usize, i64>>);
impl Relocate<usize> for MapReloc {
    fn relocate_address(&self, offset: usize, value: u64) -> gimli::Result<u64> {
        Ok(match self.0.get(&offset) {
            Some(a) => value.wrapping_add(*a as u64),
            None => value,
        })
    }
    fn relocate_offset(&self, offset: usize, value: usize) -> gimli::Result<usize> {
        Ok(match self.0.get(&offset) {
            Some(a) => (value as u64).wrapping_add(*a as u64) as usize,
            None => value,
        })
    }
}

#[derive(Clone, Copy, Debug, PartialEq, Eq, PartialOrd, Ord)]
pub struct Ev {
    pub reloc: bool,
    pub off: usize,
    pub len: usize,
    /// the value a relocatable primitive returned (before any relocation)
    pub val: u64,
}

/// a reader that logs which primitive inspected which bytes
#[derive(Debug, Clone)]
pub struct TraceReader<R: Reader<Offset = usize>> {
    inner: R,
    base: u64,
    log: Rc<RefCell<Vec<Ev>>>,
    on: Rc<Cell<bool>>,
}
impl<R: Reader<Offset = usize>> TraceReader<R> {
    pub fn new(section: R, log: Rc<RefCell<Vec<Ev>>>, on: Rc<Cell<bool>>) -> Self {
        let base = section.offset_id().0;
        TraceReader { inner: section, base, log, on }
    }
    fn off(&self) -> usize {
        self.inner.offset_id().0.wrapping_sub(self.base) as usize
    }
    fn ev(&self, reloc: bool, off: usize, len: usize, val: u64) {
        if self.on.get() && len > 0 {
            self.log.borrow_mut().push(Ev { reloc, off, len, val });
        }
    }
}
impl<R: Reader<Offset = usize>> Reader for TraceReader<R> {
    type Endian = R::Endian;
    type Offset = usize;
    fn endian(&self) -> R::Endian {
        self.inner.endian()
    }
    fn len(&self) -> usize {
        self.inner.len()
    }
    fn empty(&mut self) {
        self.inner.empty()
    }
    fn truncate(&mut self, len: usize) -> gimli::Result<()> {
        self.inner.truncate(len)
    }
    fn offset_from(&self, base: &Self) -> usize {
        self.inner.offset_from(&base.inner)
    }
    fn offset_id(&self) -> ReaderOffsetId {
        self.inner.offset_id()
    }
    fn lookup_offset_id(&self, id: ReaderOffsetId) -> Option<usize> {
        self.inner.lookup_offset_id(id)
    }
    fn find(&self, byte: u8) -> gimli::Result<usize> {
        let r = self.inner.find(byte);
        let n = match &r {
            Ok(i) => i + 1,
            Err(_) => self.inner.len(),
        };
        self.ev(false, self.off(), n, 0);
        r
    }
    fn skip(&mut self, len: usize) -> gimli::Result<()> {
        self.inner.skip(len)
    }
    fn split(&mut self, len: usize) -> gimli::Result<Self> {
        let inner = self.inner.split(len)?;
        Ok(TraceReader { inner, base: self.base, log: self.log.clone(), on: self.on.clone() })
    }
    fn to_slice(&self) -> gimli::Result<Cow<'_, [u8]>> {
        self.ev(false, self.off(), self.inner.len(), 0);
        self.inner.to_slice()
    }
    fn to_string(&self) -> gimli::Result<Cow<'_, str>> {
        self.ev(false, self.off(), self.inner.len(), 0);
        self.inner.to_string()
    }
    fn to_string_lossy(&self) -> gimli::Result<Cow<'_, str>> {
        self.ev(false, self.off(), self.inner.len(), 0);
        self.inner.to_string_lossy()
    }
    fn read_slice(&mut self, buf: &mut [u8]) -> gimli::Result<()> {
        let off = self.off();
        let r = self.inner.read_slice(buf);
        if r.is_ok() {
            self.ev(false, off, buf.len(), 0);
        }
        r
    }
    fn read_address(&mut self, address_size: u8) -> gimli::Result<u64> {
        let off = self.off();
        let r = self.inner.read_address(address_size);
        if let Ok(v) = r {
            self.ev(true, off, address_size as usize, v);
        }
        r
    }
    fn read_offset(&mut self, format: Format) -> gimli::Result<usize> {
        let off = self.off();
        let r = self.inner.read_offset(format);
        if let Ok(v) = r {
            self.ev(true, off, format.word_size() as usize, v as u64);
        }
        r
    }
    fn read_sized_offset(&mut self, size: u8) -> gimli::Result<usize> {
        let off = self.off();
        let r = self.inner.read_sized_offset(size);
        if let Ok(v) = r {
            self.ev(true, off, size as usize, v as u64);
        }
        r
    }
}

#[derive(Clone, Copy, Debug, PartialEq)]
pub struct RRel {
    pub off: usize,
    pub size: usize,
    pub addend: i64,
}

fn parse_rrels(s: &str) -> Option<Vec<RRel>> {
    if s == "-" {
        return Some(vec![]);
    }
    s.split(';')
        .map(|t| {
            let p: Vec<&str> = t.split('/').collect();
            if p.len() != 3 {
                return None;
            }
            Some(RRel { off: p[0].parse().ok()?, size: p[1].parse().ok()?, addend: p[2].parse().ok()? })
        })
        .collect()
}

fn field_value(e: RunTimeEndian, b: &[u8]) -> u128 {
    let mut v: u128 = 0;
    if e == RunTimeEndian::Big {
        for x in b {
            v = (v << 8) | *x as u128;
        }
    } else {
        for x in b.iter().rev() {
            v = (v << 8) | *x as u128;
        }
    }
    v
}

/// the section with a read-side relocation set applied (`Gimli.Rr.applyR`)
pub fn apply_r(e: RunTimeEndian, rels: &[RRel], bytes: &[u8]) -> Result<Vec<u8>, &'static str> {
    let mut b = bytes.to_vec();
    for r in rels {
        if r.size > 16 {
            return Err("W.ValueTooLarge");
        }
        if r.off.checked_add(r.size).map_or(true, |end| end > b.len()) {
            return Err("W.OffsetOutOfBounds");
        }
        let old = field_value(e, &b[r.off..r.off + r.size]) as i128;
        let new = old + r.addend as i128;
        if new < 0 || (r.size < 16 && new >= 1i128 << (8 * r.size)) {
            return Err("W.ValueTooLarge");
        }
        let mut new = new as u128;
        for k in 0..r.size {
            let idx = if e == RunTimeEndian::Big { r.off + r.size - 1 - k } else { r.off + k };
            b[idx] = new as u8;
            new >>= 8;
        }
    }
    Ok(b)
}

fn separated(rels: &[RRel]) -> bool {
    for (i, r) in rels.iter().enumerate() {
        if r.size == 0 {
            return false;
        }
        for q in &rels[i + 1..] {
            if !(r.off + r.size <= q.off || q.off + q.size <= r.off) {
                return false;
            }
        }
    }
    true
}

/// the hypothesis of read transparency, from the tracing reader's log
fn compat_log(rels: &[RRel], log: &[Ev]) -> bool {
    log.iter().all(|ev| {
        let disjoint = rels.iter().all(|r| r.off + r.size <= ev.off || ev.off + ev.len <= r.off);
        if ev.reloc {
            rels.iter().any(|r| r.off == ev.off && r.size == ev.len) || disjoint
        } else {
            disjoint
        }
    })
}

fn is_prim(op: &Op) -> bool {
    matches!(
        op,
        Op::Slice(..)
            | Op::Skip(..)
            | Op::Split(..)
            | Op::Trunc(..)
            | Op::Empty(_)
            | Op::Find(..)
            | Op::Clone(_)
            | Op::Drop(_)
            | Op::OffFrom(..)
            | Op::OffId(_)
            | Op::Lookup(..)
            | Op::Len(_)
            | Op::ToSlice(_)
            | Op::ToStr(_)
            | Op::ToLossy(_)
            | Op::Addr(..)
            | Op::Offset(..)
            | Op::SizedOff(..)
    )
}

/// run a straight-line parser through the relocating reader; returns (trace, log)
fn run_reloc(e: RunTimeEndian, bytes: &[u8], rels: &[RRel], ops: &[Op]) -> (Vec<String>, Vec<Ev>) {
    let rc: Rc<[u8]> = Rc::from(bytes);
    let log = Rc::new(RefCell::new(Vec::new()));
    let on = Rc::new(Cell::new(false));
    let mut map = HashMap::new();
    for r in rels {
        map.entry(r.off).or_insert(r.addend);
    }
    let tr = TraceReader::new(EndianRcSlice::new(rc.clone(), e), log.clone(), on.clone());
    let rr = RelocateReader::new(tr, MapReloc(Rc::new(map)));
    let run = run_hist_probe(rr, &rc, ops, None, None, Some(&on));
    let l = log.borrow().clone();
    (run.trace, l)
}

fn handle_rr_hist(a: &[&str]) -> Option<String> {
    let e = endian(a.get(1)?)?;
    let bytes = unhex(a.get(2)?)?;
    let rels = parse_rrels(a.get(3)?)?;
    let ops: Vec<Op> = a[4..].iter().map(|t| parse_op(t)).collect::<Option<Vec<_>>>()?;
    if !ops.iter().all(is_prim) {
        return None;
    }
    let (rtrace, log) = run_reloc(e, &bytes, &rels, &ops);
    let applied = apply_r(e, &rels, &bytes);
    let ptrace = match &applied {
        Ok(b) => {
            let rc: Rc<[u8]> = Rc::from(&b[..]);
            Ok(run_hist(EndianRcSlice::new(rc.clone(), e), &rc, &ops, None, None).trace)
        }
        Err(x) => Err(format!("A:{x}")),
    };
    let c = separated(&rels) && applied.is_ok() && compat_log(&rels, &log);
    let p_txt = match &ptrace {
        Ok(t) => t.join(" "),
        Err(x) => x.clone(),
    };
    let mut out = format!("ok R:{} P:{} c:{}", rtrace.join(" "), p_txt, if c { 1 } else { 0 });
    if c && ptrace.as_ref().ok() != Some(&rtrace) {
        out.push_str(" #oracle:reloc-read-differs the relocating reader and the pre-applied section disagree although every relocated field is read by a relocatable primitive");
    }
    Some(out)
}

// ---------------------------------------------------------------------------------------------
// whole DWARF: build with gimli::write, record / write plainly, read back both ways
// ---------------------------------------------------------------------------------------------
#[derive(Clone, Debug)]
pub struct Recipe {
    pub e: RunTimeEndian,
    pub version: u16,
    pub format: Format,
    pub address_size: u8,
    pub seed: u64,
    pub eh_enc: u8,
    /// `units` (no frame tables), `df`, `eh`, `all`
    pub what: String,
}

/// the DWARF of a recipe; `mk(symbol, addend)` makes the addresses (symbolic or resolved)
pub fn build(rc: &Recipe, mk: &dyn Fn(usize, i64) -> Address) -> (write::Dwarf, write::FrameTable, write::FrameTable) {
    use gimli::write::*;
    let mut rng = Rng::new(rc.seed);
    let encoding = gimli::Encoding { version: rc.version, format: rc.format, address_size: rc.address_size };
    let mut dwarf = Dwarf::new();
    let v5 = rc.version >= 5;
    let nunits = 1 + rng.below(2) as usize;
    let mut first_entries: Vec<(UnitId, UnitEntryId)> = Vec::new();
    for u in 0..nunits {
        let dir = if v5 { LineString::new(&b"/dir"[..], encoding, &mut dwarf.line_strings) } else { LineString::String(b"/dir".to_vec()) };
        let file_ref = v5 && rng.chance(1, 2);
        let file = if file_ref { LineString::StringRef(dwarf.strings.add(&b"f.c"[..])) } else { LineString::String(b"f.c".to_vec()) };
        let mut lp = LineProgram::new(encoding, gimli::LineEncoding::default(), dir, None, file, None);
        let d = lp.default_directory();
        let gname = format!("g{u}.c").into_bytes();
        let f = lp.add_file(if file_ref { LineString::StringRef(dwarf.strings.add(gname)) } else { LineString::String(gname) }, d, None);
        for s in 0..(1 + rng.below(2)) {
            lp.begin_sequence(Some(mk(s as usize % 4, 0x10 * (u as i64 + 1))));
            for i in 0..(2 + rng.below(4)) {
                lp.row().file = f;
                lp.row().line = 1 + (i * 3) % 7;
                lp.row().address_offset = i * 4;
                lp.generate_row();
            }
            lp.end_sequence(0x40);
        }
        let uid = dwarf.units.add(Unit::new(encoding, lp));
        let name = dwarf.strings.add(format!("unit{u}").into_bytes());
        let comp_dir = if v5 { AttributeValue::LineStringRef(dwarf.line_strings.add(&b"/dir"[..])) } else { AttributeValue::StringRef(dwarf.strings.add(&b"/dir"[..])) };
        let unit = dwarf.units.get_mut(uid);
        let root = unit.root();
        unit.get_mut(root).set(gimli::DW_AT_name, AttributeValue::StringRef(name));
        unit.get_mut(root).set(gimli::DW_AT_comp_dir, comp_dir);
        // pre-v5 lists may hold absolute address pairs only in a unit without a base address
        let has_low_pc = rng.chance(1, 2);
        let pairs_ok = v5 || !has_low_pc;
        if has_low_pc {
            unit.get_mut(root).set(gimli::DW_AT_low_pc, AttributeValue::Address(mk(0, 0)));
            unit.get_mut(root).set(gimli::DW_AT_high_pc, AttributeValue::Udata(0x100));
        }
        let mut ranges = Vec::new();
        if pairs_ok {
            ranges.push(Range::StartEnd { begin: mk(1, 0), end: mk(1, 0x10) });
            ranges.push(Range::StartLength { begin: mk(2, 4), length: 0x20 });
        } else {
            ranges.push(Range::OffsetPair { begin: 0x4, end: 0x8 });
        }
        if rng.chance(1, 2) {
            ranges.push(Range::BaseAddress { address: mk(3, 0) });
            ranges.push(Range::OffsetPair { begin: 0x10, end: 0x30 });
        }
        let rl = unit.ranges.add(RangeList(ranges));
        unit.get_mut(root).set(gimli::DW_AT_ranges, AttributeValue::RangeListRef(rl));
        let mut prev = root;
        for i in 0..(2 + rng.below(3)) {
            let parent = if rng.chance(1, 2) { prev } else { root };
            let c = unit.add(parent, *rng.pick(&[gimli::DW_TAG_subprogram, gimli::DW_TAG_variable, gimli::DW_TAG_lexical_block]));
            unit.get_mut(c).set(gimli::DW_AT_name, AttributeValue::String(format!("n{i}").into_bytes()));
            unit.get_mut(c).set(gimli::DW_AT_low_pc, AttributeValue::Address(mk(i as usize % 4, 8 * i as i64)));
            unit.get_mut(c).set(gimli::DW_AT_decl_line, AttributeValue::Udata(rng.below(1000)));
            let mut ex = Expression::new();
            ex.op_addr(mk((i as usize + 1) % 4, -(i as i64)));
            ex.op_plus_uconst(rng.below(300));
            if rng.chance(1, 2) {
                ex.op_deref();
            }
            unit.get_mut(c).set(gimli::DW_AT_frame_base, AttributeValue::Exprloc(ex.clone()));
            let mut locs = Vec::new();
            if pairs_ok {
                locs.push(Location::StartEnd { begin: mk(0, 0), end: mk(0, 4), data: ex.clone() });
                if rng.chance(1, 2) {
                    locs.push(Location::StartLength { begin: mk(1, 8), length: 4, data: ex.clone() });
                }
            } else {
                locs.push(Location::OffsetPair { begin: 2, end: 6, data: ex.clone() });
            }
            if rng.chance(1, 2) {
                locs.push(Location::BaseAddress { address: mk(2, 0) });
                let mut e2 = Expression::new();
                e2.op_breg(gimli::Register(7), 8);
                locs.push(Location::OffsetPair { begin: 1, end: 9, data: e2 });
            }
            if v5 && rng.chance(1, 3) {
                locs.push(Location::DefaultLocation { data: ex.clone() });
            }
            let ll = unit.locations.add(LocationList(locs));
            unit.get_mut(c).set(gimli::DW_AT_location, AttributeValue::LocationListRef(ll));
            if i > 0 {
                unit.get_mut(c).set(gimli::DW_AT_type, AttributeValue::UnitRef(prev));
            }
            if let Some((ou, oe)) = first_entries.first() {
                unit.get_mut(c).set(gimli::DW_AT_abstract_origin, AttributeValue::DebugInfoRef(DebugInfoRef::Entry(*ou, *oe)));
            }
            if i % 3 == 1 {
                // plain data that looks like an offset: a reference into the *supplementary* file's
                // .debug_info (DW_FORM_ref_sup4/8) is not an offset into any section written here, so it
                // must not be recorded as a relocation (the reader reads it as plain data)
                unit.get_mut(c).set(gimli::DW_AT_import, AttributeValue::DebugInfoRefSup(gimli::DebugInfoOffset(0x1234 + 16 * i as usize)));
                unit.get_mut(c).set(gimli::DW_AT_byte_size, AttributeValue::Data4(0x4000 + i as u32));
            }
            if i == 0 {
                first_entries.push((uid, c));
            }
            prev = c;
        }
    }
    // frame tables: `.debug_frame` CIEs have version 1, 3 or 4, `.eh_frame` CIEs version 1
    let lsda = rng.chance(1, 2);
    let pers = rng.chance(1, 2);
    let nfde = 1 + rng.below(3);
    let mut tables = Vec::new();
    for eh in [false, true] {
        let cie_version = if eh { 1 } else { match rc.version { 2 => 1, 3 => 3, _ => 4 } };
        let cenc = gimli::Encoding { version: cie_version, format: if eh { Format::Dwarf32 } else { rc.format }, address_size: rc.address_size };
        let mut frames = FrameTable::default();
        let mut cie = CommonInformationEntry::new(cenc, 1, -8, gimli::Register(16));
        if eh {
            cie.fde_address_encoding = DwEhPe(rc.eh_enc);
            if pers {
                cie.personality = Some((DwEhPe(rc.eh_enc), mk(3, 0x20)));
            }
            if lsda {
                cie.lsda_encoding = Some(DwEhPe(rc.eh_enc));
            }
        }
        cie.add_instruction(CallFrameInstruction::Cfa(gimli::Register(7), 8));
        cie.add_instruction(CallFrameInstruction::Offset(gimli::Register(16), -8));
        let cid = frames.add_cie(cie);
        for i in 0..nfde {
            let mut fde = FrameDescriptionEntry::new(mk(i as usize % 4, 0x100 * i as i64), 0x80);
            if eh && lsda {
                fde.lsda = Some(mk(2, 0x40 + i as i64));
            }
            fde.add_instruction(1, CallFrameInstruction::CfaOffset(16));
            fde.add_instruction(0x50, CallFrameInstruction::Offset(gimli::Register(6), -16));
            frames.add_fde(cid, fde);
        }
        // a second CIE, so that the FDE's CIE pointer is not 0
        let mut cie2 = CommonInformationEntry::new(cenc, 4, -4, gimli::Register(14));
        if eh {
            cie2.fde_address_encoding = DwEhPe(rc.eh_enc);
        }
        cie2.add_instruction(CallFrameInstruction::Cfa(gimli::Register(13), 0));
        let cid2 = frames.add_cie(cie2);
        let mut fde = FrameDescriptionEntry::new(mk(1, 0x1000), 0x20);
        fde.add_instruction(4, CallFrameInstruction::CfaOffset(8));
        frames.add_fde(cid2, fde);
        tables.push(frames);
    }
    let mut eh_table = tables.pop().unwrap();
    let mut df_table = tables.pop().unwrap();
    if rc.what == "units" || rc.what == "eh" {
        df_table = FrameTable::default();
    }
    if rc.what == "units" || rc.what == "df" {
        eh_table = FrameTable::default();
    }
    if rc.what == "df" || rc.what == "eh" {
        dwarf = Dwarf::new();
    }
    (dwarf, df_table, eh_table)
}

pub struct Written {
    /// per section (index into SECS): bytes
    pub bytes: Vec<Vec<u8>>,
    pub relocs: Vec<Vec<Relocation>>,
}

pub fn write_recorded(rc: &Recipe) -> Result<Written, String> {
    let (mut dwarf, frames, eh_frames) = build(rc, &|symbol, addend| Address::Symbol { symbol, addend });
    let mut sections = write::Sections::new(Rec::new(rc.e));
    dwarf.write(&mut sections).map_err(|e| werr(&e))?;
    let mut df = write::DebugFrame::from(Rec::new(rc.e));
    frames.write_debug_frame(&mut df).map_err(|e| werr(&e))?;
    let mut ef = write::EhFrame::from(Rec::new(rc.e));
    eh_frames.write_eh_frame(&mut ef).map_err(|e| werr(&e))?;
    let mut bytes = Vec::new();
    let mut relocs = Vec::new();
    for id in SECS {
        let r: &Rec = match id {
            SectionId::DebugFrame => &df.0,
            SectionId::EhFrame => &ef.0,
            _ => sections.get(id).unwrap(),
        };
        bytes.push(r.w.slice().to_vec());
        relocs.push(r.relocs.clone());
    }
    Ok(Written { bytes, relocs })
}

pub fn write_plain(rc: &Recipe, env: &Env) -> Result<Vec<Vec<u8>>, String> {
    let (mut dwarf, frames, eh_frames) = build(rc, &|symbol, addend| Address::Constant(env.sym(symbol).wrapping_add(addend as u64)));
    let mut sections = write::Sections::new(EndianVec::new(rc.e));
    dwarf.write(&mut sections).map_err(|e| werr(&e))?;
    let mut df = write::DebugFrame::from(EndianVec::new(rc.e));
    frames.write_debug_frame(&mut df).map_err(|e| werr(&e))?;
    let mut ef = write::EhFrame::from(EndianVec::new(rc.e));
    eh_frames.write_eh_frame(&mut ef).map_err(|e| werr(&e))?;
    let mut bytes = Vec::new();
    for id in SECS {
        let r: &EndianVec<RunTimeEndian> = match id {
            SectionId::DebugFrame => &df.0,
            SectionId::EhFrame => &ef.0,
            _ => sections.get(id).unwrap(),
        };
        bytes.push(r.slice().to_vec());
    }
    Ok(bytes)
}

/// the same (symbolic) DWARF written directly through writers that know the symbol and section
/// addresses
pub fn write_resolving(rc: &Recipe, env: &Env) -> Result<Vec<Vec<u8>>, String> {
    let (mut dwarf, frames, eh_frames) = build(rc, &|symbol, addend| Address::Symbol { symbol, addend });
    let envrc = Rc::new(env.clone());
    let mk = || Resolving { w: EndianVec::new(rc.e), env: envrc.clone() };
    let mut sections = write::Sections::new(mk());
    dwarf.write(&mut sections).map_err(|e| werr(&e))?;
    let mut df = write::DebugFrame::from(mk());
    frames.write_debug_frame(&mut df).map_err(|e| werr(&e))?;
    let mut ef = write::EhFrame::from(mk());
    eh_frames.write_eh_frame(&mut ef).map_err(|e| werr(&e))?;
    let mut bytes = Vec::new();
    for id in SECS {
        let r: &Resolving = match id {
            SectionId::DebugFrame => &df.0,
            SectionId::EhFrame => &ef.0,
            _ => sections.get(id).unwrap(),
        };
        bytes.push(r.w.slice().to_vec());
    }
    Ok(bytes)
}

fn slice_hex<R: Reader>(r: &R) -> String {
    match r.to_slice() {
        Ok(s) => hex(&s),
        Err(e) => format!("E:{}", rerr(&e)),
    }
}

fn dump_expr<R: Reader<Offset = usize>>(out: &mut String, expr: gimli::Expression<R>, encoding: gimli::Encoding) {
    let mut ops = expr.operations(encoding);
    let mut n = 0;
    loop {
        n += 1;
        if n > 200 {
            break;
        }
        match ops.next() {
            Ok(Some(op)) => {
                use gimli::Operation::*;
                let _ = match op {
                    Address { address } => write!(out, "[addr {address}]"),
                    PlusConstant { value } => write!(out, "[plus {value}]"),
                    Deref { size, space, .. } => write!(out, "[deref {size} {space}]"),
                    RegisterOffset { register, offset, .. } => write!(out, "[breg {} {offset}]", register.0),
                    Register { register } => write!(out, "[reg {}]", register.0),
                    UnsignedConstant { value } => write!(out, "[constu {value}]"),
                    Piece { size_in_bits, bit_offset } => write!(out, "[piece {size_in_bits} {bit_offset:?}]"),
                    StackValue => write!(out, "[stack_value]"),
                    CallFrameCFA => write!(out, "[cfa]"),
                    _ => write!(out, "[op]"),
                };
            }
            Ok(None) => break,
            Err(e) => {
                let _ = write!(out, "[E:{}]", rerr(&e));
                break;
            }
        }
    }
}

pub struct Counts {
    pub items: u64,
    pub errors: u64,
}

/// semantic dump of everything the builder writes; readers never appear by `Debug`
pub fn dump<R: Reader<Offset = usize>>(dwarf: &gimli::Dwarf<R>, debug_frame: &gimli::DebugFrame<R>, eh_frame: &gimli::EhFrame<R>, cnt: &mut Counts) -> String {
    let mut o = String::new();
    macro_rules! err {
        ($o:expr, $cnt:expr, $what:expr, $e:expr) => {{
            $cnt.errors += 1;
            let _ = write!($o, "<{} E:{}>", $what, rerr(&$e));
        }};
    }
    let mut units = dwarf.units();
    let mut nu = 0;
    loop {
        nu += 1;
        if nu > 16 {
            break;
        }
        let header = match units.next() {
            Ok(Some(h)) => h,
            Ok(None) => break,
            Err(e) => {
                err!(o, cnt, "units", e);
                break;
            }
        };
        cnt.items += 1;
        let _ = write!(o, "\nU v{} f{:?} a{} abbr{} len{}", header.version(), header.format(), header.address_size(), header.debug_abbrev_offset().0, header.unit_length());
        let unit = match dwarf.unit(header) {
            Ok(u) => u,
            Err(e) => {
                err!(o, cnt, "unit", e);
                continue;
            }
        };
        let enc = unit.encoding();
        let mut entries = unit.entries();
        let mut nd = 0;
        loop {
            nd += 1;
            if nd > 400 {
                break;
            }
            let entry = match entries.next_dfs() {
                Ok(Some(en)) => en,
                Ok(None) => break,
                Err(e) => {
                    err!(o, cnt, "die", e);
                    break;
                }
            };
            cnt.items += 1;
            let _ = write!(o, "\n D@{} d{} {}", entry.offset().0, entry.depth(), entry.tag());
            for attr in entry.attrs() {
                let _ = write!(o, " {}=", attr.name());
                use gimli::AttributeValue as V;
                match attr.value() {
                    V::Block(r) => {
                        let _ = write!(o, "block:{}", slice_hex(&r));
                    }
                    V::String(r) => {
                        let _ = write!(o, "str:{}", slice_hex(&r));
                    }
                    V::Exprloc(ex) => {
                        let _ = write!(o, "expr:");
                        dump_expr(&mut o, ex, enc);
                    }
                    V::DebugStrRef(off) => {
                        let _ = write!(o, "strp:{}", off.0);
                        match dwarf.string(off) {
                            Ok(s) => {
                                let _ = write!(o, ":{}", slice_hex(&s));
                            }
                            Err(e) => err!(o, cnt, "strp", e),
                        }
                    }
                    V::DebugLineStrRef(off) => {
                        let _ = write!(o, "line_strp:{}", off.0);
                        match dwarf.line_string(off) {
                            Ok(s) => {
                                let _ = write!(o, ":{}", slice_hex(&s));
                            }
                            Err(e) => err!(o, cnt, "line_strp", e),
                        }
                    }
                    V::RangeListsRef(_) | V::DebugRngListsIndex(_) => {
                        let _ = write!(o, "ranges:");
                        match dwarf.attr_ranges(&unit, attr.value()) {
                            Ok(Some(mut it)) => {
                                let mut k = 0;
                                loop {
                                    k += 1;
                                    if k > 100 {
                                        break;
                                    }
                                    match it.next() {
                                        Ok(Some(r)) => {
                                            let _ = write!(o, "[{:#x},{:#x})", r.begin, r.end);
                                        }
                                        Ok(None) => break,
                                        Err(e) => {
                                            err!(o, cnt, "range", e);
                                            break;
                                        }
                                    }
                                }
                            }
                            Ok(None) => {
                                let _ = write!(o, "none");
                            }
                            Err(e) => err!(o, cnt, "ranges", e),
                        }
                    }
                    V::LocationListsRef(_) | V::DebugLocListsIndex(_) => {
                        let _ = write!(o, "locs:");
                        match dwarf.attr_locations(&unit, attr.value()) {
                            Ok(Some(mut it)) => {
                                let mut k = 0;
                                loop {
                                    k += 1;
                                    if k > 100 {
                                        break;
                                    }
                                    match it.next() {
                                        Ok(Some(l)) => {
                                            let _ = write!(o, "[{:#x},{:#x}:", l.range.begin, l.range.end);
                                            dump_expr(&mut o, l.data, enc);
                                            o.push(']');
                                        }
                                        Ok(None) => break,
                                        Err(e) => {
                                            err!(o, cnt, "loc", e);
                                            break;
                                        }
                                    }
                                }
                            }
                            Ok(None) => {
                                let _ = write!(o, "none");
                            }
                            Err(e) => err!(o, cnt, "locs", e),
                        }
                    }
                    // the remaining variants carry numbers only
                    other => {
                        let _ = write!(o, "{:?}", OtherValue(&other));
                    }
                }
            }
        }
        // line program
        if let Some(program) = unit.line_program.clone() {
            let h = program.header();
            let _ = write!(o, "\n L v{} off{} files:", h.version(), h.offset().0);
            for f in h.file_names() {
                match dwarf.attr_string(&unit, f.path_name()) {
                    Ok(s) => {
                        let _ = write!(o, "{},", slice_hex(&s));
                    }
                    Err(e) => err!(o, cnt, "file", e),
                }
            }
            for d in h.include_directories() {
                match dwarf.attr_string(&unit, d.clone()) {
                    Ok(s) => {
                        let _ = write!(o, "d{},", slice_hex(&s));
                    }
                    Err(e) => err!(o, cnt, "dir", e),
                }
            }
            let mut rows = program.rows();
            let mut k = 0;
            loop {
                k += 1;
                if k > 400 {
                    break;
                }
                match rows.next_row() {
                    Ok(Some((_, row))) => {
                        cnt.items += 1;
                        let _ = write!(o, " r{:#x}/{}/{:?}/{}", row.address(), row.file_index(), row.line().map(|l| l.get()), row.end_sequence());
                    }
                    Ok(None) => break,
                    Err(e) => {
                        err!(o, cnt, "row", e);
                        break;
                    }
                }
            }
        }
    }
    // frame tables
    let bases = gimli::BaseAddresses::default().set_eh_frame(0).set_text(0).set_got(0);
    dump_cfi(&mut o, debug_frame, &bases, cnt, "DF");
    dump_cfi(&mut o, eh_frame, &bases, cnt, "EH");
    o
}

/// `Debug` of attribute values that hold no reader
struct OtherValue<'a, R: Reader<Offset = usize>>(&'a gimli::AttributeValue<R>);
impl<'a, R: Reader<Offset = usize>> std::fmt::Debug for OtherValue<'a, R> {
    fn fmt(&self, f: &mut std::fmt::Formatter<'_>) -> std::fmt::Result {
        use gimli::AttributeValue as V;
        match self.0 {
            V::Addr(a) => write!(f, "addr:{a:#x}"),
            V::Data1(v) => write!(f, "d1:{v}"),
            V::Data2(v) => write!(f, "d2:{v}"),
            V::Data4(v) => write!(f, "d4:{v}"),
            V::Data8(v) => write!(f, "d8:{v}"),
            V::Sdata(v) => write!(f, "s:{v}"),
            V::Udata(v) => write!(f, "u:{v}"),
            V::Flag(v) => write!(f, "flag:{v}"),
            V::SecOffset(v) => write!(f, "secoff:{v}"),
            V::UnitRef(v) => write!(f, "unitref:{}", v.0),
            V::DebugInfoRef(v) => write!(f, "inforef:{}", v.0),
            V::DebugLineRef(v) => write!(f, "lineref:{}", v.0),
            V::DebugAddrBase(v) => write!(f, "addrbase:{}", v.0),
            V::DebugStrOffsetsBase(v) => write!(f, "stroffbase:{}", v.0),
            V::DebugLocListsBase(v) => write!(f, "loclistsbase:{}", v.0),
            V::DebugRngListsBase(v) => write!(f, "rnglistsbase:{}", v.0),
            V::Language(v) => write!(f, "lang:{}", v.0),
            V::Encoding(v) => write!(f, "ate:{}", v.0),
            V::FileIndex(v) => write!(f, "file:{v}"),
            _ => write!(f, "other"),
        }
    }
}

fn dump_cfi<R: Reader<Offset = usize>, S: gimli::UnwindSection<R>>(o: &mut String, section: &S, bases: &gimli::BaseAddresses, cnt: &mut Counts, tag: &str)
where
    S::Offset: gimli::UnwindOffset<usize>,
{
    let mut entries = section.entries(bases);
    let mut n = 0;
    loop {
        n += 1;
        if n > 64 {
            break;
        }
        match entries.next() {
            Ok(None) => break,
            Err(e) => {
                cnt.errors += 1;
                let _ = write!(o, "\n{tag} <E:{}>", rerr(&e));
                break;
            }
            Ok(Some(gimli::CieOrFde::Cie(cie))) => {
                cnt.items += 1;
                let _ = write!(
                    o,
                    "\n{tag} CIE@{} v{} ca{} da{} ra{} pers{:?} lsda{:?} fde{:?} sig{}",
                    cie.offset(),
                    cie.version(),
                    cie.code_alignment_factor(),
                    cie.data_alignment_factor(),
                    cie.return_address_register().0,
                    cie.personality(),
                    cie.lsda_encoding().map(|p| p.0),
                    cie.fde_address_encoding().map(|p| p.0),
                    cie.is_signal_trampoline()
                );
                dump_insns(o, cie.instructions(section, bases), cnt);
            }
            Ok(Some(gimli::CieOrFde::Fde(partial))) => {
                cnt.items += 1;
                match partial.parse(|s, b, off| s.cie_from_offset(b, off)) {
                    Ok(fde) => {
                        let _ = write!(o, "\n{tag} FDE@{} cie{} da{} pc{:#x} len{:#x} lsda{:?}", fde.offset(), fde.cie().offset(), fde.cie().data_alignment_factor(), fde.initial_address(), fde.len(), fde.lsda());
                        dump_insns(o, fde.instructions(section, bases), cnt);
                    }
                    Err(e) => {
                        cnt.errors += 1;
                        let _ = write!(o, "\n{tag} FDE <E:{}>", rerr(&e));
                    }
                }
            }
        }
    }
}

fn dump_insns<R: Reader<Offset = usize>>(o: &mut String, mut it: gimli::CallFrameInstructionIter<'_, R>, cnt: &mut Counts) {
    let mut n = 0;
    loop {
        n += 1;
        if n > 200 {
            break;
        }
        match it.next() {
            Ok(Some(i)) => {
                let _ = write!(o, " {i:?}");
            }
            Ok(None) => break,
            Err(e) => {
                cnt.errors += 1;
                let _ = write!(o, " <E:{}>", rerr(&e));
                break;
            }
        }
    }
}

pub fn load<R: Reader<Offset = usize>>(address_size: u8, mk: &dyn Fn(usize) -> R) -> (gimli::Dwarf<R>, gimli::DebugFrame<R>, gimli::EhFrame<R>) {
    let empty_idx = usize::MAX;
    let dwarf = gimli::Dwarf::load(|id| -> Result<R, ()> { Ok(mk(SECS.iter().position(|s| *s == id).unwrap_or(empty_idx))) }).unwrap();
    let mut df = gimli::DebugFrame::from(mk(sec_index(SectionId::DebugFrame)));
    df.set_address_size(address_size);
    let mut ef = gimli::EhFrame::from(mk(sec_index(SectionId::EhFrame)));
    ef.set_address_size(address_size);
    (dwarf, df, ef)
}

/// relocation values a linker computes for the recorded relocations of one section
fn link_values(relocs: &[Relocation], env: &Env) -> Vec<(usize, usize, i64)> {
    relocs
        .iter()
        .map(|r| {
            let s = match r.target {
                RelocationTarget::Symbol(n) => env.sym(n),
                RelocationTarget::Section(id) => env.sec(id),
            };
            let mut v = s.wrapping_add(r.addend as u64);
            if let Some(pe) = r.eh_pe {
                if pe.application() == constants::DW_EH_PE_pcrel {
                    v = v.wrapping_sub(r.offset as u64);
                }
            }
            // the field holds 0: the value to add is the value itself (sign-extended fields: as is)
            (r.offset, r.size as usize, v as i64)
        })
        .collect()
}

fn handle_rl_dwarf(a: &[&str]) -> Option<String> {
    let what = *a.first()?;
    if !matches!(what, "units" | "df" | "eh" | "all") {
        return None;
    }
    let a = &a[1..];
    let e = endian(a.first()?)?;
    let version: u16 = a.get(1)?.parse().ok()?;
    let format = match *a.get(2)? {
        "32" => Format::Dwarf32,
        "64" => Format::Dwarf64,
        _ => return None,
    };
    let address_size: u8 = a.get(3)?.parse().ok()?;
    let seed: u64 = a.get(4)?.parse().ok()?;
    let eh_enc: u8 = a.get(5)?.parse().ok()?;
    let rc = Recipe { e, version, format, address_size, seed, eh_enc, what: what.to_string() };
    // an environment is `<symbol addresses>` or `<symbol addresses>/<section base addresses>`
    let envs: Vec<Env> = a[6..]
        .iter()
        .filter_map(|s| {
            let mut p = s.split('/');
            let syms = num_list(p.next()?)?;
            let secs = match p.next() {
                Some(x) => num_list(x)?,
                None => vec![],
            };
            Some(Env { syms, secs })
        })
        .collect();
    let mut cnt = Counts { items: 0, errors: 0 };
    // every oracle failure of the case; the one reported is the first of a class that is not a
    // recorded finding, else the first
    let mut oracle: Vec<String> = Vec::new();
    let note = |o: &mut Vec<String>, s: String| o.push(s);
    let rec = match write_recorded(&rc) {
        Ok(w) => w,
        Err(x) => {
            // the recording writer refused (e.g. a LEB128 pointer encoding for a symbol): nothing to compare
            return Some(format!("normal i0 e1 c0 rec:{x}"));
        }
    };
    for (k, env) in envs.iter().enumerate() {
        // ---- writing: recorded + applied == written plainly
        // plain `EndianVec`s with constant addresses; with section base addresses the resolving writer
        let plain = if env.secs.iter().all(|b| *b == 0) { write_plain(&rc, env) } else { write_resolving(&rc, env) };
        let mut applied: Vec<Vec<u8>> = Vec::new();
        let mut apply_err = None;
        for (i, b) in rec.bytes.iter().enumerate() {
            match apply_w(b, &rec.relocs[i], env, e) {
                Ok(x) => applied.push(x),
                Err(x) => {
                    apply_err = Some(werr(&x));
                    applied.push(b.clone());
                }
            }
        }
        match (&plain, &apply_err) {
            (Ok(p), None) => {
                for i in 0..SECS.len() {
                    if p[i] != applied[i] {
                        note(&mut oracle, format!("reloc-write-differs env{k} section {} (recorded+applied vs plain)", SECS[i].name()));
                    }
                }
            }
            (Err(_), Some(_)) => {}
            (Ok(_), Some(x)) => note(&mut oracle, format!("reloc-write-differs env{k}: plain writing succeeds, applying fails with {x}")),
            (Err(x), None) => note(&mut oracle, format!("reloc-write-differs env{k}: applying succeeds, plain writing fails with {x}")),
        }
        if apply_err.is_some() {
            continue;
        }
        // ---- reading: RelocateReader over the recorded bytes vs plain reader over applied bytes
        let logs: Vec<Rc<RefCell<Vec<Ev>>>> = (0..SECS.len()).map(|_| Rc::new(RefCell::new(Vec::new()))).collect();
        let on = Rc::new(Cell::new(true));
        let maps: Vec<MapReloc> = rec
            .relocs
            .iter()
            .map(|rs| {
                let mut m = HashMap::new();
                for (off, _, v) in link_values(rs, env) {
                    m.insert(off, v);
                }
                MapReloc(Rc::new(m))
            })
            .collect();
        let empty: &[u8] = &[];
        let empty_log = Rc::new(RefCell::new(Vec::new()));
        let empty_map = MapReloc(Rc::new(HashMap::new()));
        let (d1, f1, e1) = load(address_size, &|i| {
            if i < SECS.len() {
                RelocateReader::new(TraceReader::new(EndianSlice::new(&rec.bytes[i], e), logs[i].clone(), on.clone()), maps[i].clone())
            } else {
                RelocateReader::new(TraceReader::new(EndianSlice::new(empty, e), empty_log.clone(), on.clone()), empty_map.clone())
            }
        });
        let mut c1 = Counts { items: 0, errors: 0 };
        let dump1 = dump(&d1, &f1, &e1, &mut c1);
        let (d2, f2, e2) = load(address_size, &|i| if i < SECS.len() { EndianSlice::new(&applied[i], e) } else { EndianSlice::new(empty, e) });
        let mut c2 = Counts { items: 0, errors: 0 };
        let dump2 = dump(&d2, &f2, &e2, &mut c2);
        cnt.items += c1.items + c2.items;
        cnt.errors += c1.errors + c2.errors;
        // With section base addresses other than 0 every cross-section offset points somewhere else,
        // the parsers run over misaligned data and may read across relocated fields: then the
        // hypothesis of read transparency (every relocated field is read exactly, by a relocatable
        // primitive) does not hold and the two dumps may legitimately differ.
        let shifted = env.secs.iter().any(|b| *b != 0);
        let compatible = !shifted
            || (0..SECS.len()).all(|i| {
                let rels: Vec<RRel> = link_values(&rec.relocs[i], env).into_iter().map(|(off, size, addend)| RRel { off, size, addend }).collect();
                compat_log(&rels, &logs[i].borrow())
            });
        if dump1 != dump2 && compatible {
            let (l1, l2): (Vec<&str>, Vec<&str>) = (dump1.lines().collect(), dump2.lines().collect());
            let i = (0..l1.len().max(l2.len())).find(|&i| l1.get(i) != l2.get(i)).unwrap_or(0);
            let cut = |s: Option<&&str>| s.map(|s| s.chars().take(3000).collect::<String>()).unwrap_or_default();
            // attribute the differing lines: `.eh_frame` lines while its pointers are not `absptr`
            // (C18-1), `.debug_frame` FDE lines (C18-2), anything else
            let n = l1.len().max(l2.len());
            let differs = |i: usize| l1.get(i) != l2.get(i);
            let starts = |i: usize, p: &str| l1.get(i).map_or(true, |l| l.starts_with(p)) && l2.get(i).map_or(true, |l| l.starts_with(p));
            let show = |i: usize| format!("`{}` through RelocateReader vs `{}` pre-applied", cut(l1.get(i)), cut(l2.get(i)));
            let eh = (0..n).find(|&i| differs(i) && starts(i, "EH ") && eh_enc & 0x0f != 0);
            let df = (0..n).find(|&i| differs(i) && starts(i, "DF FDE"));
            let other = (0..n).find(|&i| differs(i) && !(starts(i, "EH ") && eh_enc & 0x0f != 0) && !starts(i, "DF FDE"));
            if let Some(i) = other {
                note(&mut oracle, format!("reloc-read-differs env{k}: {}", show(i)));
            }
            if let Some(i) = df {
                note(&mut oracle, format!("cie-pointer-read-differs env{k}: {}", show(i)));
            }
            if let Some(i) = eh {
                note(&mut oracle, format!("eh-pointer-read-differs env{k}: {}", show(i)));
            }
        }
        // ---- which fields went through the relocatable primitives
        if k == 0 {
            for i in 0..SECS.len() {
                let read: BTreeSet<(usize, usize)> = logs[i].borrow().iter().filter(|ev| ev.reloc).map(|ev| (ev.off, ev.len)).collect();
                let recorded: BTreeSet<(usize, usize)> = rec.relocs[i].iter().map(|r| (r.offset, r.size as usize)).collect();
                if let Some(m) = recorded.difference(&read).next() {
                    let r = rec.relocs[i].iter().find(|r| r.offset == m.0).unwrap();
                    let class = match (r.eh_pe, r.target, SECS[i]) {
                        (Some(pe), _, _) if pe.format() != constants::DW_EH_PE_absptr => "eh-pointer-not-relocatable",
                        (None, RelocationTarget::Section(SectionId::DebugFrame), SectionId::DebugFrame) => "cie-pointer-not-relocatable",
                        _ => "reloc-not-read",
                    };
                    note(
                        &mut oracle,
                        format!("{class} {} offset {} size {} eh_pe {:?}: recorded relocation never read through read_address/read_offset/read_sized_offset", SECS[i].name(), m.0, m.1, r.eh_pe.map(|p| p.0)),
                    );
                }
                // pre-v5 range / location lists are sequences of address-sized pairs: offsets pairs,
                // base selectors and terminators are read through read_address too
                let pair_section = matches!(SECS[i], SectionId::DebugRanges | SectionId::DebugLoc);
                if !pair_section {
                    for m in read.difference(&recorded) {
                        // the FDE's address range follows its (recorded) initial address
                        let after_address = m.0 >= m.1 && recorded.contains(&(m.0 - m.1, m.1)) && matches!(SECS[i], SectionId::DebugFrame | SectionId::EhFrame);
                        let class = if after_address { "fde-length-read-as-address" } else { "read-not-recorded" };
                        note(&mut oracle, format!("{class} {} offset {} size {}: read through a relocatable primitive but written without relocation", SECS[i].name(), m.0, m.1));
                    }
                }
            }
        }
    }
    let mut out = format!("normal i{} e{} c{}", cnt.items, cnt.errors, envs.len());
    let mut oracle = oracle;
    const RECORDED: &[&str] = &["eh-pointer-read-differs", "eh-pointer-not-relocatable", "cie-pointer-read-differs", "cie-pointer-not-relocatable"];
    // a class that is not a recorded finding always wins; among recorded ones the case's seed
    // chooses, so that every recorded finding keeps being reported by some cases
    let class_of = |x: &String| x.split(' ').next().unwrap_or("").to_string();
    let mut classes: Vec<String> = oracle.iter().map(class_of).collect();
    classes.dedup();
    let mut seen = BTreeSet::new();
    classes.retain(|c| seen.insert(c.clone()));
    let pick = oracle.iter().find(|x| !RECORDED.contains(&class_of(x).as_str())).or_else(|| {
        if classes.is_empty() {
            None
        } else {
            let c = &classes[((seed.wrapping_mul(0x9e37_79b9_7f4a_7c15) >> 40) % classes.len() as u64) as usize];
            oracle.iter().find(|x| &class_of(x) == c)
        }
    });
    if let Some(x) = pick {
        out.push_str(" #oracle:");
        out.push_str(x);
    }
    Some(out)
}

pub fn handle(op: &str, a: &[&str]) -> Option<String> {
    match op {
        "rw-calls" => handle_rw_calls(a),
        "rr-hist" => handle_rr_hist(a),
        "rl-dwarf" => handle_rl_dwarf(a),
        _ => None,
    }
}

// ---------------------------------------------------------------------------------------------
// generators
// ---------------------------------------------------------------------------------------------
const EH_ENCS: &[u8] = &[0x00, 0x1b, 0x03, 0x0b, 0x10, 0x04, 0x0c, 0x02, 0x0a, 0x01, 0x09, 0x23, 0x9b, 0x0f, 0xff, 0x80, 0x13, 0x14];

fn small_or_boundary(rng: &mut Rng) -> u64 {
    match rng.below(10) {
        0..=5 => rng.below(0x7fff_0000),
        6 => rng.below(256),
        7 => rng.below(65536),
        _ => rng.boundary_u64(),
    }
}

fn gen_calls(rng: &mut Rng) -> String {
    let mut toks: Vec<String> = Vec::new();
    let mut len: u64 = 0; // approximate current length
    let mut fields: Vec<(u64, u64)> = Vec::new(); // recorded (off, size), approximately
    let ncalls = 1 + rng.below(12);
    for _ in 0..ncalls {
        let size = *rng.pick(&[1u64, 2, 4, 8, 4, 8, 4, 8, 0, 3]);
        let ok_size = matches!(size, 1 | 2 | 4 | 8);
        let v = small_or_boundary(rng);
        let addend: i64 = match rng.below(6) {
            0..=3 => rng.below(4096) as i64 - 64,
            4 => rng.boundary_i64(),
            _ => 0,
        };
        // a position for positioned writes: mostly clear of recorded fields
        let pos = |rng: &mut Rng, n: u64, fields: &[(u64, u64)], len: u64| -> u64 {
            for _ in 0..8 {
                let o = if len >= n { rng.below(len - n + 1) } else { 0 };
                if fields.iter().all(|(fo, fs)| fo + fs <= o || o + n <= *fo) {
                    return o;
                }
            }
            rng.below(len + 2)
        };
        match rng.below(20) {
            0 | 1 => {
                let b = rng.bytes_below(5);
                len += b.len() as u64;
                toks.push(format!("w:{}", hex(&b)));
            }
            2 | 3 => {
                toks.push(format!("ud:{v}:{size}"));
                if ok_size {
                    len += size;
                }
            }
            4 => {
                toks.push(format!("sd:{}:{size}", rng.boundary_i64() >> rng.below(60)));
                if ok_size {
                    len += size;
                }
            }
            5 => {
                let enc = gimli::leb128::write::Leb128::unsigned(v);
                len += enc.bytes().len() as u64;
                toks.push(format!("ul:{v}"));
            }
            6 => {
                let enc = gimli::leb128::write::Leb128::signed(addend);
                len += enc.bytes().len() as u64;
                toks.push(format!("sl:{addend}"));
            }
            7 => {
                toks.push(format!("ac:{v}:{size}"));
                if ok_size {
                    len += size;
                }
            }
            8..=10 => {
                toks.push(format!("as:{}:{addend}:{size}", rng.below(5)));
                if ok_size {
                    fields.push((len, size));
                    len += size;
                }
            }
            11 | 12 => {
                toks.push(format!("of:{}:{}:{size}", small_or_boundary(rng), rng.below(11)));
                if ok_size {
                    fields.push((len, size));
                    len += size;
                }
            }
            13 | 14 => {
                let o = if rng.chance(4, 5) && len >= size { rng.below(len - size + 1) } else { rng.below(len + 3) };
                toks.push(format!("ofat:{o}:{}:{}:{size}", small_or_boundary(rng), rng.below(11)));
                if ok_size {
                    fields.push((o, size));
                }
            }
            15 => {
                let b = rng.bytes_below(4);
                let o = if rng.chance(5, 6) { pos(rng, b.len() as u64, &fields, len) } else { rng.below(len + 3) };
                toks.push(format!("wat:{o}:{}", hex(&b)));
            }
            16 => {
                let o = if rng.chance(5, 6) { pos(rng, size, &fields, len) } else { rng.below(len + 3) };
                toks.push(format!("udat:{o}:{v}:{size}"));
            }
            17 => {
                let pe = *rng.pick(EH_ENCS);
                toks.push(format!("ec:{v}:{pe}:{size}"));
                len += 4;
            }
            _ => {
                let pe = *rng.pick(EH_ENCS);
                toks.push(format!("es:{}:{addend}:{pe}:{size}", rng.below(5)));
                let n = match pe & 0x0f {
                    0 => size,
                    2 | 10 => 2,
                    3 | 11 => 4,
                    4 | 12 => 8,
                    _ => 0,
                };
                if n > 0 {
                    fields.push((len, n));
                    len += n;
                }
            }
        }
    }
    toks.join(" ")
}

const PRIM_NAMES: &[&str] = &["slice", "skip", "split", "trunc", "find", "clone", "offfrom", "offid", "lookup", "len", "toslice", "tostr", "tolossy", "addr", "off", "sizedoff"];

fn gen_prim_history(rng: &mut Rng, seclen: usize) -> Vec<String> {
    let mut toks = Vec::new();
    let mut n = 1usize;
    let mut nid = 0usize;
    let nops = 1 + rng.below(14);
    for _ in 0..nops {
        let i = rng.below(n as u64);
        let len = match rng.below(8) {
            0..=4 => rng.below(seclen as u64 / 2 + 2),
            5 => seclen as u64,
            6 => seclen as u64 + 1,
            _ => rng.below(4),
        };
        // relocatable reads are the point: half of the operations
        let t = match rng.below(32) {
            0..=6 => format!("addr:{i}:{}", rng.pick(&[4u32, 8, 4, 8, 2, 1, 3])),
            7..=10 => format!("off:{i}:{}", rng.pick(&[32, 64])),
            11..=14 => format!("sizedoff:{i}:{}", rng.pick(&[4u32, 8, 2, 1, 0])),
            15 | 16 => format!("slice:{i}:{}", len.min(12)),
            17 | 18 => format!("skip:{i}:{len}"),
            19..=21 => {
                if rng.chance(3, 4) {
                    n += 1;
                }
                format!("split:{i}:{len}")
            }
            22 => format!("trunc:{i}:{len}"),
            23 => format!("find:{i}:{}", if rng.chance(1, 2) { 0 } else { rng.next() & 0xff }),
            24 => {
                n += 1;
                format!("clone:{i}")
            }
            25 => format!("offfrom:{i}:0"),
            26 => {
                nid += 1;
                format!("offid:{i}")
            }
            27 => format!("lookup:{i}:{}", rng.below(nid as u64 + 1)),
            28 => format!("len:{i}"),
            29 => format!("toslice:{i}"),
            30 => format!("tostr:{i}"),
            _ => format!("empty:{i}"),
        };
        toks.push(t);
    }
    let _ = PRIM_NAMES;
    toks
}

fn gen_rr_hist(rng: &mut Rng) -> String {
    let e = if rng.chance(1, 2) { RunTimeEndian::Little } else { RunTimeEndian::Big };
    let len = 4 + rng.below(36) as usize;
    let mut sec: Vec<u8> = rng.bytes(len);
    // keep many fields small so that addends fit
    for b in sec.iter_mut() {
        if rng.chance(1, 2) {
            *b = 0;
        }
    }
    let toks = gen_prim_history(rng, len);
    let ops: Vec<Op> = toks.iter().filter_map(|t| parse_op(t)).collect();
    let mut rels: Vec<RRel> = Vec::new();
    if rng.chance(7, 10) {
        // relocations on fields that the history actually reads through a relocatable primitive
        // (offset_from may trip its debug_assert; it reads nothing, so it is left out of the dry run)
        let dry: Vec<Op> = ops.iter().map(|o| if let Op::OffFrom(i, _) = o { Op::Len(*i) } else { *o }).collect();
        let (_, log) = run_reloc(e, &sec, &[], &dry);
        for ev in log.iter().filter(|ev| ev.reloc) {
            if rng.chance(2, 3) && rels.iter().all(|r: &RRel| r.off + r.size <= ev.off || ev.off + ev.len <= r.off) {
                let old = field_value(e, &sec[ev.off..ev.off + ev.len]) as i128;
                let max: i128 = if ev.len >= 8 { u64::MAX as i128 } else { (1i128 << (8 * ev.len)) - 1 };
                let target: i128 = match rng.below(5) {
                    0 => 0,
                    1 => max,
                    _ => (rng.next() as i128) & max,
                };
                let mut addend = target - old;
                if addend > i64::MAX as i128 || addend < i64::MIN as i128 {
                    addend = 1;
                }
                if rng.chance(1, 12) {
                    addend = rng.boundary_i64() as i128; // may not fit
                }
                rels.push(RRel { off: ev.off, size: ev.len, addend: addend as i64 });
            }
        }
    }
    if rels.is_empty() || rng.chance(1, 4) {
        for _ in 0..rng.below(3) {
            rels.push(RRel { off: rng.below(len as u64 + 2) as usize, size: *rng.pick(&[1usize, 2, 4, 8, 4, 8, 0, 3]), addend: rng.below(512) as i64 - 128 });
        }
    }
    let rl = if rels.is_empty() { "-".to_string() } else { rels.iter().map(|r| format!("{}/{}/{}", r.off, r.size, r.addend)).collect::<Vec<_>>().join(";") };
    format!("rr-hist @MODE@ {} {} {} {}", if e == RunTimeEndian::Little { "le" } else { "be" }, hex(&sec), rl, toks.join(" "))
}

pub fn gen(ctx: &Ctx, emit: &mut dyn FnMut(String)) {
    let mut rng = ctx.rng(18);
    let thorough = ctx.tier == Tier::Thorough;
    // ---- writer call sequences
    for _ in 0..ctx.n(6000, 200_000) {
        let e = if rng.chance(1, 2) { "le" } else { "be" };
        let syms: Vec<String> = (0..4).map(|_| small_or_boundary(&mut rng).to_string()).collect();
        let secs = if rng.chance(2, 3) { "-".to_string() } else { (0..11).map(|_| (rng.below(3) * rng.below(0x1000)).to_string()).collect::<Vec<_>>().join(",") };
        emit(format!("rw-calls {e} {} {secs} {}", syms.join(","), gen_calls(&mut rng)));
    }
    // every eh pointer encoding x size, constant and symbolic, after 0..3 bytes
    for pe in 0..=255u32 {
        if !thorough && !(pe & 0x0f <= 0x0c && (pe >> 4) & 7 <= 5) {
            continue;
        }
        for size in [4u32, 8, 2] {
            for pre in ["-", "aabbcc"] {
                emit(format!("rw-calls le 4096,70000 - w:{pre} ec:4100:{pe}:{size} es:1:-8:{pe}:{size} ud:7:1"));
            }
        }
    }
    // ---- straight-line parsers through the relocating reader
    for _ in 0..ctx.n(6000, 200_000) {
        emit(gen_rr_hist(&mut rng));
    }
    // ---- whole DWARF
    let versions: &[u16] = &[2, 3, 4, 5];
    let mut k = 0u64;
    for &version in versions {
        for format in ["32", "64"] {
            for address_size in [4u8, 8] {
                for e in ["le", "be"] {
                    for what in ["units", "df", "eh"] {
                        let encs: &[u8] = if what == "eh" { &[0x00u8, 0x1b, 0x03, 0x04, 0x0b, 0x0c, 0x10, 0x01] } else { &[0] };
                        for &enc in encs {
                            k += 1;
                            if !thorough && what != "units" && enc != 0 && k % 2 != 0 {
                                continue;
                            }
                            let seeds = if what == "units" { ctx.n(3, 24) } else { ctx.n(1, 4) };
                            for s in 0..seeds {
                                let seed = ctx.seed.wrapping_mul(1000).wrapping_add(k * 32 + s as u64);
                                let max = if address_size == 4 { 0x7000_0000u64 } else { 0x7000_0000_0000 };
                                let a: Vec<String> = (0..4).map(|i| (0x1000 + i * 0x10000 + rng.below(0x100) * 16).to_string()).collect();
                                let b: Vec<String> = (0..4).map(|i| (0x1000 + rng.below(max / 8) * 4 + i).to_string()).collect();
                                let c = if s % 2 == 0 { format!(" {}/{}", a.join(","), (0..11).map(|i| (0x40 * (i + 1) * rng.below(2)).to_string()).collect::<Vec<_>>().join(",")) } else { String::new() };
                                emit(format!("rl-dwarf {what} {e} {version} {format} {address_size} {seed} {enc} {} {}{c}", a.join(","), b.join(",")));
                            }
                        }
                    }
                }
            }
        }
    }
}
