//! C11 — written units read back as the same forest with every reference intact.
//!
//! Implementation side of the `wunit` op (grammar: `lean/Gimli/Drv/C11.lean`): replay the API calls
//! of the request on `gimli::write`, write the sections, report their bytes (the Model predicts the
//! same bytes), then read the sections back with `gimli::read` and compare with the *intended*
//! forest (direct oracle, independent of the Model): tags, nesting, attribute values, every entry
//! reference resolves to the intended entry, strings resolve, sibling pointers point behind the
//! subtree, and a request is rejected only if it really cannot be encoded.
use crate::prop::{Ctx, Tier};
use crate::util::{hex, unhex, werr, Rng};
use gimli::read;
use gimli::write::{
    FileId, LineString, Location, LocationList, LocationListId, Range, RangeList, RangeListId,
    Address, AttributeValue as AV, DebugInfoRef, Dwarf, DwarfUnit, EndianVec, Expression, LineProgram,
    LineStringId, Sections, StringId, Unit, UnitEntryId,
};
use gimli::{constants, DwAt, DwTag, Encoding, EndianSlice, Format, RunTimeEndian};

// ---------------------------------------------------------------------------------------------
// the abstract request
// ---------------------------------------------------------------------------------------------

#[derive(Clone, Debug, PartialEq)]
enum Item {
    Raw(Vec<u8>),
    Conv(usize),
    Call(usize),
    CallRef(usize, usize),
}

#[derive(Clone, Debug, PartialEq)]
enum Val {
    Addr(u64),
    AddrSym,
    Block(Vec<u8>),
    D1(u8),
    D2(u16),
    D4(u32),
    D8(u64),
    D16(u128),
    Sdata(i64),
    Udata(u64),
    IConst(i64),
    Expr(Vec<Item>),
    Flag(bool),
    FlagP,
    URef(usize),
    IRef(usize, usize),
    IRefSym(usize),
    IRefSup(u64),
    LpRef,
    Macinfo(u64),
    Macro(u64),
    Sig8(u64),
    Strp(usize),
    StrpSup(u64),
    LStrp(usize),
    Str(Vec<u8>),
    /// the constant-class variants (`Encoding`, `Language`, …): kind name and raw value
    Class(&'static str, u64),
    File0,
    /// `FileIndex(Some(k-th extra file of the unit's line program))`
    File(usize),
    /// `RangeListRef(k-th list added to the unit's table)`; expected section offset (for the Model)
    RngList(usize, u64),
    /// `LocationListRef(k-th list)`; expected section offset
    LocList(usize, u64),
}

/// the unit's line program
#[derive(Clone, Debug, PartialEq)]
enum Lp {
    None,
    /// `nfiles` extra files; with one sequence (`rows`) or without any instruction; expected
    /// `.debug_line` offset (for the Model)
    Prog { rows: bool, nfiles: usize, off: u64 },
}

#[derive(Clone, Debug, Default)]
struct EntryR {
    tag: u16,
    sibling: bool,
    attrs: Vec<(u16, Val)>,
    children: Vec<usize>,
    added: bool,
}

#[derive(Clone, Debug)]
enum Op {
    Reserve,
    Add { id: usize, parent: usize, tag: u16, sibling: bool, attrs: Vec<(u16, Val)> },
    Edit { id: usize, sibling: bool, attrs: Vec<(u16, Val)> },
    Delete { parent: usize, id: usize },
}

#[derive(Clone, Debug)]
struct UnitR {
    version: u16,
    format: Format,
    asz: u8,
    lp: Lp,
    /// range lists as (begin, length) pairs; location lists as (begin, length, expression bytes)
    rls: Vec<Vec<(u64, u64)>>,
    lls: Vec<Vec<(u64, u64, Vec<u8>)>>,
    ops: Vec<Op>,
    /// mirror of `Unit.entries` after all ops
    entries: Vec<EntryR>,
    reserved: usize,
}

#[derive(Clone, Debug)]
struct Req {
    variant: String,
    big: bool,
    strs: Vec<Vec<u8>>,
    lstrs: Vec<Vec<u8>>,
    units: Vec<UnitR>,
}

const CLASS_KINDS: &[(&str, u32)] = &[
    ("enc", 8), ("dsign", 8), ("endy", 8), ("acc", 8), ("vis", 8), ("virt", 8), ("idcase", 8), ("cc", 8),
    ("inl", 8), ("ord", 8), ("lang", 16), ("aclass", 64),
];

struct Parser<'a> {
    t: &'a [&'a str],
    i: usize,
    /// `reserved` per unit (a reference reserves ids, also in units that come later)
    reserved: Vec<usize>,
    nstr: usize,
    nlstr: usize,
    /// of the unit being parsed: extra files (None = no program), range lists, location lists
    nfiles: Option<usize>,
    nrl: usize,
    nll: usize,
}

impl<'a> Parser<'a> {
    fn tok(&mut self) -> Option<&'a str> {
        let r = self.t.get(self.i).copied();
        self.i += 1;
        r
    }
    fn nat(&mut self) -> Option<u128> {
        let t = self.tok()?;
        if t.is_empty() || !t.bytes().all(|b| b.is_ascii_digit()) || t.len() > 39 {
            return None;
        }
        t.parse::<u128>().ok()
    }
    fn nat_lt(&mut self, bound: u128) -> Option<u128> {
        let v = self.nat()?;
        if v < bound { Some(v) } else { None }
    }
    fn u64v(&mut self) -> Option<u64> {
        self.nat_lt(1u128 << 64).map(|v| v as u64)
    }
    fn idx(&mut self) -> Option<usize> {
        self.u64v().map(|v| v as usize)
    }
    fn i64v(&mut self) -> Option<i64> {
        let t = self.tok()?;
        let (neg, d) = match t.strip_prefix('-') {
            Some(d) => (true, d),
            None => (false, t),
        };
        if d.is_empty() || !d.bytes().all(|b| b.is_ascii_digit()) || d.len() > 39 {
            return None;
        }
        let m = d.parse::<i128>().ok()?;
        let v = if neg { -m } else { m };
        if v >= -(1i128 << 63) && v < (1i128 << 63) { Some(v as i64) } else { None }
    }
    fn hexv(&mut self) -> Option<Vec<u8>> {
        unhex(self.tok()?)
    }
    fn need_id(&mut self, u: usize, k: usize) -> Option<()> {
        if u >= self.reserved.len() || k >= (1 << 20) {
            return None;
        }
        self.reserved[u] = self.reserved[u].max(k + 1);
        Some(())
    }
    fn item(&mut self, u: usize) -> Option<Item> {
        Some(match self.tok()? {
            "raw" => Item::Raw(self.hexv()?),
            "conv" => {
                let id = self.idx()?;
                self.need_id(u, id)?;
                Item::Conv(id)
            }
            "call" => {
                let id = self.idx()?;
                self.need_id(u, id)?;
                Item::Call(id)
            }
            "callref" => {
                let u2 = self.idx()?;
                let id = self.idx()?;
                self.need_id(u2, id)?;
                Item::CallRef(u2, id)
            }
            _ => return None,
        })
    }
    fn val(&mut self, u: usize) -> Option<Val> {
        let k = self.tok()?;
        Some(match k {
            "addr" => Val::Addr(self.u64v()?),
            "addrsym" => Val::AddrSym,
            "block" => Val::Block(self.hexv()?),
            "d1" => Val::D1(self.nat_lt(1 << 8)? as u8),
            "d2" => Val::D2(self.nat_lt(1 << 16)? as u16),
            "d4" => Val::D4(self.nat_lt(1 << 32)? as u32),
            "d8" => Val::D8(self.u64v()?),
            "d16" => Val::D16(self.nat()?),
            "sdata" => Val::Sdata(self.i64v()?),
            "udata" => Val::Udata(self.u64v()?),
            "iconst" => Val::IConst(self.i64v()?),
            "expr" => {
                let n = self.nat_lt(64)? as usize;
                let mut items = Vec::new();
                for _ in 0..n {
                    items.push(self.item(u)?);
                }
                Val::Expr(items)
            }
            "flag" => Val::Flag(self.nat_lt(2)? == 1),
            "flagp" => Val::FlagP,
            "uref" => {
                let id = self.idx()?;
                self.need_id(u, id)?;
                Val::URef(id)
            }
            "iref" => {
                let u2 = self.idx()?;
                let id = self.idx()?;
                self.need_id(u2, id)?;
                Val::IRef(u2, id)
            }
            "irefsym" => Val::IRefSym(self.u64v()? as usize),
            "irefsup" => Val::IRefSup(self.u64v()?),
            "lpref" => Val::LpRef,
            "macinfo" => Val::Macinfo(self.u64v()?),
            "macro" => Val::Macro(self.u64v()?),
            "sig8" => Val::Sig8(self.u64v()?),
            "strp" => {
                let k = self.idx()?;
                if k >= self.nstr {
                    return None;
                }
                Val::Strp(k)
            }
            "strpsup" => Val::StrpSup(self.u64v()?),
            "lstrp" => {
                let k = self.idx()?;
                if k >= self.nlstr {
                    return None;
                }
                Val::LStrp(k)
            }
            "str" => Val::Str(self.hexv()?),
            "file0" => Val::File0,
            "file" => {
                let k = self.idx()?;
                if k >= self.nfiles? {
                    return None;
                }
                Val::File(k)
            }
            "rnglist" => {
                let k = self.idx()?;
                if k >= self.nrl {
                    return None;
                }
                Val::RngList(k, self.u64v()?)
            }
            "loclist" => {
                let k = self.idx()?;
                if k >= self.nll {
                    return None;
                }
                Val::LocList(k, self.u64v()?)
            }
            _ => {
                let (name, bits) = CLASS_KINDS.iter().find(|(n, _)| *n == k)?;
                let v = if *bits == 64 { self.u64v()? } else { self.nat_lt(1u128 << *bits)? as u64 };
                Val::Class(name, v)
            }
        })
    }
    /// `<nattrs> <attr>*` applied with `set` semantics on `init`
    fn attr_list(&mut self, u: usize, mut attrs: Vec<(u16, Val)>) -> Option<Vec<(u16, Val)>> {
        let n = self.nat_lt(256)? as usize;
        for _ in 0..n {
            let name = self.nat_lt(1 << 16)? as u16;
            if name == constants::DW_AT_sibling.0 {
                return None;
            }
            let v = self.val(u)?;
            match attrs.iter_mut().find(|a| a.0 == name) {
                Some(a) => a.1 = v,
                None => attrs.push((name, v)),
            }
        }
        Some(attrs)
    }
    fn str_table(&mut self) -> Option<Vec<Vec<u8>>> {
        let n = self.nat_lt(4096)? as usize;
        let mut out = Vec::new();
        for _ in 0..n {
            let s = self.hexv()?;
            if s.contains(&0) {
                return None;
            }
            out.push(s);
        }
        Some(out)
    }
}

fn parse(a: &[&str]) -> Option<Req> {
    let mut p = Parser { t: a, i: 0, reserved: Vec::new(), nstr: 0, nlstr: 0, nfiles: None, nrl: 0, nll: 0 };
    let variant = p.tok()?.to_string();
    let big = match p.tok()? {
        "le" => false,
        "be" => true,
        _ => return None,
    };
    if p.tok()? != "S" {
        return None;
    }
    let strs = p.str_table()?;
    p.nstr = strs.len();
    if p.tok()? != "L" {
        return None;
    }
    let lstrs = p.str_table()?;
    p.nlstr = lstrs.len();
    if p.tok()? != "U" {
        return None;
    }
    let n = p.nat_lt(17)? as usize;
    p.reserved = vec![1; n];
    let mut units: Vec<UnitR> = Vec::new();
    for u in 0..n {
        let version = p.nat_lt(1 << 16)? as u16;
        let format = match p.tok()? {
            "32" => Format::Dwarf32,
            "64" => Format::Dwarf64,
            _ => return None,
        };
        let asz = p.nat_lt(1 << 8)? as u8;
        let lp = {
            let t = p.tok()?;
            if t == "-" {
                Lp::None
            } else {
                let rows = match t.as_bytes().first()? {
                    b'P' => true,
                    b'E' => false,
                    _ => return None,
                };
                let (nf, off) = t[1..].split_once('@')?;
                if nf.is_empty() || off.is_empty() || !nf.bytes().all(|b| b.is_ascii_digit()) || !off.bytes().all(|b| b.is_ascii_digit()) {
                    return None;
                }
                let nfiles = nf.parse::<usize>().ok().filter(|n| *n < 16)?;
                Lp::Prog { rows, nfiles, off: off.parse::<u64>().ok()? }
            }
        };
        if p.tok()? != "R" {
            return None;
        }
        let nrl = p.nat_lt(16)? as usize;
        let mut rls = Vec::new();
        for _ in 0..nrl {
            let n = p.nat_lt(8)? as usize;
            let mut l = Vec::new();
            for _ in 0..n {
                let b = p.nat_lt(100)? as u64;
                let len = p.nat_lt(100)? as u64;
                if b == 0 || len == 0 {
                    return None;
                }
                l.push((b, len));
            }
            rls.push(l);
        }
        if p.tok()? != "Q" {
            return None;
        }
        let nll = p.nat_lt(16)? as usize;
        let mut lls = Vec::new();
        for _ in 0..nll {
            let n = p.nat_lt(8)? as usize;
            let mut l = Vec::new();
            for _ in 0..n {
                let b = p.nat_lt(100)? as u64;
                let len = p.nat_lt(100)? as u64;
                if b == 0 || len == 0 {
                    return None;
                }
                l.push((b, len, p.hexv()?));
            }
            lls.push(l);
        }
        // what the other writers need in order not to fail on their own (they are opaque here)
        if (lp != Lp::None || nrl > 0 || nll > 0) && (!(2..=5).contains(&version) || !matches!(asz, 1 | 2 | 4 | 8)) {
            return None;
        }
        p.nfiles = match lp {
            Lp::None => None,
            Lp::Prog { nfiles, .. } => Some(nfiles),
        };
        p.nrl = nrl;
        p.nll = nll;
        let nops = p.nat_lt(4096)? as usize;
        let root = EntryR { tag: constants::DW_TAG_compile_unit.0, added: true, ..Default::default() };
        let mut entries = vec![root];
        let mut ops = Vec::new();
        for _ in 0..nops {
            match p.tok()? {
                "R" => {
                    p.reserved[u] += 1;
                    ops.push(Op::Reserve);
                }
                "A" => {
                    let id = p.nat_lt(1 << 20)? as usize;
                    let parent = p.idx()?;
                    let tag = p.nat_lt(1 << 16)? as u16;
                    let sibling = p.nat_lt(2)? == 1;
                    p.need_id(u, id)?;
                    if id == 0 || parent >= p.reserved[u] {
                        return None;
                    }
                    while entries.len() < p.reserved[u] {
                        entries.push(EntryR::default());
                    }
                    if entries[id].added {
                        return None;
                    }
                    entries[id].tag = tag;
                    entries[id].added = true;
                    entries[parent].children.push(id);
                    let attrs = p.attr_list(u, Vec::new())?;
                    entries[id].sibling = sibling;
                    entries[id].attrs = attrs.clone();
                    ops.push(Op::Add { id, parent, tag, sibling, attrs });
                }
                "E" => {
                    let id = p.idx()?;
                    let sibling = p.nat_lt(2)? == 1;
                    let cur = entries.get(id)?.attrs.clone();
                    let before = cur.len();
                    let attrs = p.attr_list(u, cur)?;
                    let _ = before;
                    entries[id].sibling = sibling;
                    entries[id].attrs = attrs.clone();
                    ops.push(Op::Edit { id, sibling, attrs });
                }
                "X" => {
                    let parent = p.idx()?;
                    let id = p.idx()?;
                    if id >= p.reserved[u] {
                        return None;
                    }
                    entries.get_mut(parent)?.children.retain(|c| *c != id);
                    ops.push(Op::Delete { parent, id });
                }
                _ => return None,
            }
        }
        // `have_base_address` of the list writers is not modelled: no DW_AT_low_pc on such a root
        if (nrl > 0 || nll > 0) && entries[0].attrs.iter().any(|a| a.0 == constants::DW_AT_low_pc.0) {
            return None;
        }
        units.push(UnitR { version, format, asz, lp, rls, lls, ops, entries, reserved: 0 });
    }
    if p.i != a.len() {
        return None;
    }
    for (u, unit) in units.iter_mut().enumerate() {
        unit.reserved = p.reserved[u];
    }
    Some(Req { variant, big, strs, lstrs, units })
}

// ---------------------------------------------------------------------------------------------
// replay on gimli::write
// ---------------------------------------------------------------------------------------------

enum Target {
    Dw(Dwarf),
    Du(DwarfUnit),
}

impl Target {
    fn unit_mut(&mut self, u: usize) -> &mut Unit {
        match self {
            Target::Dw(d) => {
                let id = d.units.id(u);
                d.units.get_mut(id)
            }
            Target::Du(d) => &mut d.unit,
        }
    }
}

struct Build {
    t: Target,
    ids: Vec<Vec<UnitEntryId>>,
    sids: Vec<StringId>,
    lsids: Vec<LineStringId>,
    /// per unit: ids of the extra files, the range lists, the location lists
    fids: Vec<Vec<FileId>>,
    rlids: Vec<Vec<RangeListId>>,
    llids: Vec<Vec<LocationListId>>,
}

/// `line_program_in_use()` as the request determines it: a program with instructions, or an
/// instruction-less one that some entry (attached or not) points into with `FileIndex(Some)`
fn lp_in_use(u: &UnitR) -> bool {
    match u.lp {
        Lp::None => false,
        Lp::Prog { rows: true, .. } => true,
        Lp::Prog { rows: false, .. } => u.entries.iter().any(|e| e.attrs.iter().any(|(_, v)| matches!(v, Val::File(_)))),
    }
}

fn make_line_program(u: &UnitR) -> (LineProgram, Vec<FileId>) {
    let enc = Encoding { version: u.version, format: u.format, address_size: u.asz };
    match u.lp {
        Lp::None => (LineProgram::none(), Vec::new()),
        Lp::Prog { rows, nfiles, .. } => {
            let mut lp = LineProgram::new(
                enc,
                gimli::LineEncoding::default(),
                LineString::String(b"d".to_vec()),
                None,
                LineString::String(b"f".to_vec()),
                None,
            );
            let dir = lp.default_directory();
            let mut fids = Vec::new();
            for k in 0..nfiles {
                fids.push(lp.add_file(LineString::String(format!("f{k}").into_bytes()), dir, None));
            }
            if rows {
                lp.begin_sequence(Some(Address::Constant(0x10)));
                lp.row().line = 7;
                lp.generate_row();
                lp.end_sequence(4);
            }
            (lp, fids)
        }
    }
}

impl Build {
    fn need_id(&mut self, u: usize, k: usize) -> UnitEntryId {
        while self.ids[u].len() <= k {
            let id = self.t.unit_mut(u).reserve();
            self.ids[u].push(id);
        }
        self.ids[u][k]
    }
    fn expr(&mut self, u: usize, items: &[Item]) -> Option<Expression> {
        // one `Expression::raw` if there is nothing but a single raw item; otherwise built op by op
        let mut e = Expression::new();
        for it in items {
            match it {
                Item::Raw(bs) => {
                    if items.len() == 1 {
                        return Some(Expression::raw(bs.clone()));
                    }
                    // a raw run inside a structured expression: one `Operation::Simple` per byte
                    // (written as that byte, whatever it is)
                    for b in bs {
                        e.op(gimli::DwOp(*b));
                    }
                }
                Item::Conv(id) => {
                    let id = self.need_id(u, *id);
                    e.op_convert(Some(id));
                }
                Item::Call(id) => {
                    let id = self.need_id(u, *id);
                    e.op_call(id);
                }
                Item::CallRef(u2, id) => {
                    let id = self.need_id(*u2, *id);
                    let uid = match &self.t {
                        Target::Dw(d) => d.units.id(*u2),
                        Target::Du(_) => return None,
                    };
                    e.op_call_ref(DebugInfoRef::Entry(uid, id));
                }
            }
        }
        Some(e)
    }
    fn value(&mut self, u: usize, v: &Val) -> Option<AV> {
        Some(match v {
            Val::Addr(a) => AV::Address(Address::Constant(*a)),
            Val::AddrSym => AV::Address(Address::Symbol { symbol: 1, addend: 0 }),
            Val::Block(b) => AV::Block(b.clone()),
            Val::D1(x) => AV::Data1(*x),
            Val::D2(x) => AV::Data2(*x),
            Val::D4(x) => AV::Data4(*x),
            Val::D8(x) => AV::Data8(*x),
            Val::D16(x) => AV::Data16(*x),
            Val::Sdata(x) => AV::Sdata(*x),
            Val::Udata(x) => AV::Udata(*x),
            Val::IConst(x) => AV::ImplicitConst(*x),
            Val::Expr(items) => AV::Exprloc(self.expr(u, items)?),
            Val::Flag(b) => AV::Flag(*b),
            Val::FlagP => AV::FlagPresent,
            Val::URef(k) => AV::UnitRef(self.need_id(u, *k)),
            Val::IRef(u2, k) => {
                let id = self.need_id(*u2, *k);
                let uid = match &self.t {
                    Target::Dw(d) => d.units.id(*u2),
                    Target::Du(_) => return None,
                };
                AV::DebugInfoRef(DebugInfoRef::Entry(uid, id))
            }
            Val::IRefSym(s) => AV::DebugInfoRef(DebugInfoRef::Symbol(*s)),
            Val::IRefSup(x) => AV::DebugInfoRefSup(gimli::DebugInfoOffset(*x as usize)),
            Val::LpRef => AV::LineProgramRef,
            Val::Macinfo(x) => AV::DebugMacinfoRef(gimli::DebugMacinfoOffset(*x as usize)),
            Val::Macro(x) => AV::DebugMacroRef(gimli::DebugMacroOffset(*x as usize)),
            Val::Sig8(x) => AV::DebugTypesRef(gimli::DebugTypeSignature(*x)),
            Val::Strp(k) => AV::StringRef(self.sids[*k]),
            Val::StrpSup(x) => AV::DebugStrRefSup(gimli::DebugStrOffset(*x as usize)),
            Val::LStrp(k) => AV::LineStringRef(self.lsids[*k]),
            Val::Str(b) => AV::String(b.clone()),
            Val::File0 => AV::FileIndex(None),
            Val::File(k) => AV::FileIndex(Some(self.fids[u][*k])),
            Val::RngList(k, _) => AV::RangeListRef(self.rlids[u][*k]),
            Val::LocList(k, _) => AV::LocationListRef(self.llids[u][*k]),
            Val::Class(k, x) => match *k {
                "enc" => AV::Encoding(constants::DwAte(*x as u8)),
                "dsign" => AV::DecimalSign(constants::DwDs(*x as u8)),
                "endy" => AV::Endianity(constants::DwEnd(*x as u8)),
                "acc" => AV::Accessibility(constants::DwAccess(*x as u8)),
                "vis" => AV::Visibility(constants::DwVis(*x as u8)),
                "virt" => AV::Virtuality(constants::DwVirtuality(*x as u8)),
                "lang" => AV::Language(constants::DwLang(*x as u16)),
                "aclass" => AV::AddressClass(constants::DwAddr(*x)),
                "idcase" => AV::IdentifierCase(constants::DwId(*x as u8)),
                "cc" => AV::CallingConvention(constants::DwCc(*x as u8)),
                "inl" => AV::Inline(constants::DwInl(*x as u8)),
                "ord" => AV::Ordering(constants::DwOrd(*x as u8)),
                _ => return None,
            },
        })
    }
    fn set_attrs(&mut self, u: usize, id: usize, sibling: bool, attrs: &[(u16, Val)]) -> Option<()> {
        let mut vals = Vec::new();
        for (name, v) in attrs {
            vals.push((DwAt(*name), self.value(u, v)?));
        }
        let eid = self.ids[u][id];
        let e = self.t.unit_mut(u).get_mut(eid);
        e.set_sibling(sibling);
        for (n, v) in vals {
            e.set(n, v);
        }
        Some(())
    }
}

fn build(req: &Req) -> Option<Build> {
    let enc = |u: &UnitR| Encoding { version: u.version, format: u.format, address_size: u.asz };
    // `DwarfUnit` has no `UnitId`: cross-unit reference kinds need the `Dwarf` route
    let xref = req.units.iter().any(|u| {
        u.ops.iter().any(|op| match op {
            Op::Add { attrs, .. } | Op::Edit { attrs, .. } => attrs.iter().any(|(_, v)| match v {
                Val::IRef(..) => true,
                Val::Expr(items) => items.iter().any(|i| matches!(i, Item::CallRef(..))),
                _ => false,
            }),
            _ => false,
        })
    });
    let du = req.variant == "du" && req.units.len() == 1 && !xref;
    let mut fids = Vec::new();
    let t = if du {
        let mut d = DwarfUnit::new(enc(&req.units[0]));
        let (lp, f) = make_line_program(&req.units[0]);
        d.unit.line_program = lp;
        fids.push(f);
        Target::Du(d)
    } else {
        let mut d = Dwarf::new();
        for u in &req.units {
            let (lp, f) = make_line_program(u);
            d.units.add(Unit::new(enc(u), lp));
            fids.push(f);
        }
        Target::Dw(d)
    };
    let mut b = Build { t, ids: Vec::new(), sids: Vec::new(), lsids: Vec::new(), fids, rlids: Vec::new(), llids: Vec::new() };
    for (u, unit) in req.units.iter().enumerate() {
        let mut r = Vec::new();
        for l in &unit.rls {
            let list = RangeList(l.iter().map(|(b, len)| Range::StartLength { begin: Address::Constant(*b), length: *len }).collect());
            r.push(b.t.unit_mut(u).ranges.add(list));
        }
        b.rlids.push(r);
        let mut q = Vec::new();
        for l in &unit.lls {
            let list = LocationList(
                l.iter()
                    .map(|(b, len, data)| Location::StartLength { begin: Address::Constant(*b), length: *len, data: Expression::raw(data.clone()) })
                    .collect(),
            );
            q.push(b.t.unit_mut(u).locations.add(list));
        }
        b.llids.push(q);
    }
    for u in 0..req.units.len() {
        let root = b.t.unit_mut(u).root();
        b.ids.push(vec![root]);
    }
    for s in &req.strs {
        let id = match &mut b.t {
            Target::Dw(d) => d.strings.add(s.clone()),
            Target::Du(d) => d.strings.add(s.clone()),
        };
        b.sids.push(id);
    }
    for s in &req.lstrs {
        let id = match &mut b.t {
            Target::Dw(d) => d.line_strings.add(s.clone()),
            Target::Du(d) => d.line_strings.add(s.clone()),
        };
        b.lsids.push(id);
    }
    for (u, unit) in req.units.iter().enumerate() {
        for op in &unit.ops {
            match op {
                Op::Reserve => {
                    let id = b.t.unit_mut(u).reserve();
                    b.ids[u].push(id);
                }
                Op::Add { id, parent, tag, sibling, attrs } => {
                    let eid = b.need_id(u, *id);
                    let pid = b.ids[u][*parent];
                    b.t.unit_mut(u).add_reserved(eid, pid, DwTag(*tag));
                    // `set` on a fresh entry: the request's list already has `set` semantics applied
                    b.set_attrs(u, *id, *sibling, attrs)?;
                }
                Op::Edit { id, sibling, attrs } => {
                    b.set_attrs(u, *id, *sibling, attrs)?;
                }
                Op::Delete { parent, id } => {
                    let pid = b.ids[u][*parent];
                    let cid = b.ids[u][*id];
                    b.t.unit_mut(u).get_mut(pid).delete_child(cid);
                }
            }
        }
    }
    Some(b)
}

// ---------------------------------------------------------------------------------------------
// the intended forest (what the request means), independent of the Model
// ---------------------------------------------------------------------------------------------

/// entries of unit `u` in the order they must appear: pre-order, the root's base-type children
/// first (documented reordering), `None` = the null entry that closes a child list
fn intended_order(unit: &UnitR) -> Vec<(Option<usize>, isize)> {
    fn walk(unit: &UnitR, id: usize, depth: isize, out: &mut Vec<(Option<usize>, isize)>, fuel: &mut usize) {
        if *fuel == 0 {
            return;
        }
        *fuel -= 1;
        out.push((Some(id), depth));
        let mut ch: Vec<usize> = unit.entries[id].children.clone();
        if id == 0 {
            let bt = constants::DW_TAG_base_type.0;
            let mut v: Vec<usize> = ch.iter().copied().filter(|c| unit.entries[*c].tag == bt).collect();
            v.extend(ch.iter().copied().filter(|c| unit.entries[*c].tag != bt));
            ch = v;
        }
        if !ch.is_empty() {
            for c in ch {
                walk(unit, c, depth + 1, out, fuel);
            }
            out.push((None, depth + 1));
        }
    }
    let mut out = Vec::new();
    let mut fuel = 1 << 20;
    walk(unit, 0, 0, &mut out, &mut fuel);
    out
}

/// the attributes the entry must show (the root loses `DW_AT_stmt_list` when no line program is used)
fn intended_attrs(unit: &UnitR, id: usize) -> Vec<(u16, Val)> {
    let mut a = unit.entries[id].attrs.clone();
    if id == 0 {
        let n = constants::DW_AT_stmt_list.0;
        if lp_in_use(unit) {
            match a.iter_mut().find(|x| x.0 == n) {
                Some(x) => x.1 = Val::LpRef,
                None => a.push((n, Val::LpRef)),
            }
        } else {
            a.retain(|x| x.0 != n);
        }
    }
    a
}

fn fits(v: u64, size: u8) -> bool {
    size == 8 || (matches!(size, 1 | 2 | 4) && v < (1u64 << (8 * size as u32)))
}

/// Can this request be encoded at all?  `Some(false)`: an error is the right answer;
/// `Some(true)`: an error would be a rejected valid request; `None`: depends on the layout.
fn encodable(req: &Req) -> Option<bool> {
    let orders: Vec<Vec<(Option<usize>, isize)>> = req.units.iter().map(intended_order).collect();
    let rank = |u: usize, id: usize| orders.get(u)?.iter().position(|x| x.0 == Some(id));
    let mut unknown = false;
    for (u, unit) in req.units.iter().enumerate() {
        // the address size is checked first (`UnsupportedWordSize`), then the version
        if !matches!(unit.asz, 1 | 2 | 4 | 8) || !(2..=5).contains(&unit.version) {
            return Some(false);
        }
        let word = unit.format.word_size();
        for (pos, (id, _)) in orders[u].iter().enumerate() {
            let Some(id) = id else { continue };
            for (_, v) in intended_attrs(unit, *id) {
                let ok = match &v {
                    Val::Addr(a) => fits(*a, unit.asz),
                    Val::AddrSym | Val::IRefSym(_) => false,
                    Val::LpRef => lp_in_use(unit),
                    Val::URef(k) => rank(u, *k).is_some(),
                    Val::IRef(u2, k) => {
                        let size = if unit.version == 2 { unit.asz } else { word };
                        if !matches!(size, 1 | 2 | 4 | 8) || rank(*u2, *k).is_none() {
                            false
                        } else {
                            if size < 4 {
                                unknown = true;
                            }
                            true
                        }
                    }
                    Val::IRefSup(x) | Val::Macinfo(x) | Val::Macro(x) | Val::StrpSup(x) => fits(*x, word),
                    Val::Expr(items) => items.iter().all(|it| match it {
                        Item::Raw(_) => true,
                        Item::Conv(k) => rank(u, *k).map_or(false, |r| r <= pos),
                        Item::Call(k) => rank(u, *k).is_some(),
                        Item::CallRef(u2, k) => rank(*u2, *k).is_some(),
                    }),
                    Val::Str(b) => !b.contains(&0),
                    _ => true,
                };
                if !ok {
                    return Some(false);
                }
            }
        }
    }
    if unknown { None } else { Some(true) }
}

// ---------------------------------------------------------------------------------------------
// read back and compare (the direct oracle)
// ---------------------------------------------------------------------------------------------

type R<'a> = EndianSlice<'a, RunTimeEndian>;

struct RawE<'a> {
    off: usize,
    end: usize,
    depth: isize,
    null: bool,
    tag: u16,
    has_children: bool,
    attrs: Vec<read::Attribute<R<'a>>>,
}

struct ReadUnit<'a> {
    base: usize,
    header: read::UnitHeader<R<'a>>,
    raw: Vec<RawE<'a>>,
}

fn uleb(mut v: u64) -> Vec<u8> {
    let mut out = Vec::new();
    loop {
        let b = (v & 0x7f) as u8;
        v >>= 7;
        if v == 0 {
            out.push(b);
            return out;
        }
        out.push(b | 0x80);
    }
}

fn num(v: &read::AttributeValue<R>) -> Option<u128> {
    Some(match v {
        read::AttributeValue::Data1(x) => *x as u128,
        read::AttributeValue::Data2(x) => *x as u128,
        read::AttributeValue::Data4(x) => *x as u128,
        read::AttributeValue::Data8(x) => *x as u128,
        read::AttributeValue::Data16(x) => *x,
        read::AttributeValue::Udata(x) => *x as u128,
        read::AttributeValue::SecOffset(x) => *x as u128,
        _ => return None,
    })
}

/// section offsets found while reading back (the generator puts them into the request line for
/// the Model, for which line programs and lists are opaque)
#[derive(Default)]
struct Found {
    lp: std::collections::HashMap<usize, u64>,
    rl: std::collections::HashMap<(usize, usize), u64>,
    ll: std::collections::HashMap<(usize, usize), u64>,
}

fn oracle(
    req: &Req,
    sections: &Sections<EndianVec<RunTimeEndian>>,
    endian: RunTimeEndian,
    mut found: Option<&mut Found>,
) -> Result<(), String> {
    let dwarf: read::Dwarf<R> = read::Dwarf::load(|id| -> Result<R, ()> {
        Ok(EndianSlice::new(sections.get(id).map(|w| w.slice()).unwrap_or(&[]), endian))
    })
    .map_err(|_| "read-error load".to_string())?;
    // 1. structure: unit headers, entry order, nesting
    let mut runits: Vec<ReadUnit> = Vec::new();
    let mut abbrevs_keep = Vec::new();
    let mut headers = dwarf.units();
    loop {
        match headers.next() {
            Ok(Some(h)) => {
                let a = dwarf.abbreviations(&h).map_err(|e| format!("read-error abbreviations unit {}: {e:?}", runits.len()))?;
                abbrevs_keep.push(a);
                runits.push(ReadUnit { base: h.debug_info_offset().map(|o| o.0).unwrap_or(0), header: h, raw: Vec::new() });
            }
            Ok(None) => break,
            Err(e) => return Err(format!("read-error unit header {}: {e:?}", runits.len())),
        }
    }
    if runits.len() != req.units.len() {
        return Err(format!("units count read={} intended={}", runits.len(), req.units.len()));
    }
    for (u, ru) in runits.iter_mut().enumerate() {
        let want = &req.units[u];
        let enc = ru.header.encoding();
        if enc.version != want.version || enc.format != want.format || enc.address_size != want.asz {
            return Err(format!("header unit {u} read={enc:?}"));
        }
        let mut raw = ru.header.entries_raw(&abbrevs_keep[u], None).map_err(|e| format!("read-error entries {u}: {e:?}"))?;
        let mut steps = 0;
        while !raw.is_empty() {
            steps += 1;
            if steps > 1 << 20 {
                return Err("read-error too-many-entries".into());
            }
            let mut e = read::DebuggingInformationEntry::null();
            let depth = raw.next_depth();
            let off = raw.next_offset().0;
            let is_entry = raw.read_entry(&mut e).map_err(|er| format!("read-error entry unit {u} offset {off}: {er:?}"))?;
            ru.raw.push(RawE {
                off,
                end: raw.next_offset().0,
                depth,
                null: !is_entry,
                tag: e.tag().0,
                has_children: e.has_children(),
                attrs: e.attrs().to_vec(),
            });
        }
    }
    // positions of intended entries
    let mut pos: Vec<Vec<Option<(usize, usize)>>> = Vec::new(); // (raw index, unit offset)
    for (u, ru) in runits.iter().enumerate() {
        let order = intended_order(&req.units[u]);
        let mut p = vec![None; req.units[u].entries.len().max(req.units[u].reserved)];
        if order.len() != ru.raw.len() {
            return Err(format!("shape unit {u}: {} items read, {} intended", ru.raw.len(), order.len()));
        }
        for (i, ((id, depth), r)) in order.iter().zip(ru.raw.iter()).enumerate() {
            if id.is_none() != r.null || *depth != r.depth {
                return Err(format!("shape unit {u} item {i}: read null={} depth={}, intended null={} depth={}", r.null, r.depth, id.is_none(), depth));
            }
            if let Some(id) = id {
                let en = &req.units[u].entries[*id];
                if r.tag != en.tag {
                    return Err(format!("tag unit {u} entry {id}: read {:#x} intended {:#x}", r.tag, en.tag));
                }
                if r.has_children != !en.children.is_empty() {
                    return Err(format!("shape unit {u} entry {id}: has_children"));
                }
                p[*id] = Some((i, r.off));
            }
        }
        pos.push(p);
    }
    // 2. attributes
    for (u, ru) in runits.iter().enumerate() {
        let want = &req.units[u];
        let word = want.format.word_size();
        for (id, p) in pos[u].iter().enumerate() {
            let Some((ri, _)) = p else { continue };
            let r = &ru.raw[*ri];
            let en = &want.entries[id];
            let mut attrs = r.attrs.iter();
            if en.sibling && !en.children.is_empty() {
                // end of the subtree = end of the null entry that closes this entry's children
                let mut j = ri + 1;
                while !(ru.raw[j].null && ru.raw[j].depth == r.depth + 1) {
                    j += 1;
                }
                let expect = ru.raw[j].end;
                match attrs.next() {
                    Some(a) if a.name() == constants::DW_AT_sibling => match a.raw_value() {
                        read::AttributeValue::UnitRef(o) if o.0 == expect => {}
                        v => return Err(format!("sibling unit {u} entry {id}: {v:?} expected {expect:#x}")),
                    },
                    _ => return Err(format!("sibling unit {u} entry {id}: attribute missing")),
                }
            }
            let ia = intended_attrs(want, id);
            let got: Vec<_> = attrs.collect();
            if got.len() != ia.len() {
                return Err(format!("attr-count unit {u} entry {id}: read {} intended {}", got.len(), ia.len()));
            }
            for (a, (name, v)) in got.iter().zip(ia.iter()) {
                if a.name().0 != *name {
                    return Err(format!("attr-name unit {u} entry {id}: read {:#x} intended {name:#x}", a.name().0));
                }
                let rv = a.raw_value();
                let bad = |class: &str| Err(format!("{class} unit {u} entry {id} attr {name:#x}: read {rv:?} intended {v:?}"));
                let target = |u2: usize, k: usize| pos.get(u2).and_then(|p| p.get(k).copied().flatten()).map(|(_, off)| off);
                match v {
                    Val::Addr(x) => {
                        if rv != read::AttributeValue::Addr(*x) {
                            return bad("attr-value");
                        }
                    }
                    Val::Block(b) => match &rv {
                        read::AttributeValue::Block(r) if r.slice() == &b[..] => {}
                        _ => return bad("attr-value"),
                    },
                    Val::D1(_) | Val::D2(_) | Val::D4(_) | Val::D8(_) | Val::D16(_) | Val::Udata(_) | Val::Class(..) | Val::File0
                    | Val::Macinfo(_) | Val::Macro(_) => {
                        let want_n: u128 = match v {
                            Val::D1(x) => *x as u128,
                            Val::D2(x) => *x as u128,
                            Val::D4(x) => *x as u128,
                            Val::D8(x) => *x as u128,
                            Val::D16(x) => *x,
                            Val::Udata(x) | Val::Macinfo(x) | Val::Macro(x) | Val::Class(_, x) => *x as u128,
                            _ => 0,
                        };
                        // the width class must match too
                        let width_ok = match (v, &rv) {
                            (Val::D1(_), read::AttributeValue::Data1(_)) => true,
                            (Val::D2(_), read::AttributeValue::Data2(_)) => true,
                            (Val::D4(_), read::AttributeValue::Data4(_) | read::AttributeValue::SecOffset(_)) => true,
                            (Val::D8(_), read::AttributeValue::Data8(_) | read::AttributeValue::SecOffset(_)) => true,
                            (Val::D16(_), read::AttributeValue::Data16(_)) => true,
                            (Val::Udata(_) | Val::Class(..) | Val::File0, read::AttributeValue::Udata(_)) => true,
                            (Val::Macinfo(_) | Val::Macro(_), read::AttributeValue::SecOffset(_) | read::AttributeValue::Data4(_) | read::AttributeValue::Data8(_)) => true,
                            _ => false,
                        };
                        if !width_ok || num(&rv) != Some(want_n) {
                            return bad("attr-value");
                        }
                    }
                    Val::Sdata(x) | Val::IConst(x) => {
                        if rv != read::AttributeValue::Sdata(*x) {
                            return bad("attr-value");
                        }
                    }
                    Val::Expr(items) => {
                        let mut bytes = Vec::new();
                        for it in items {
                            match it {
                                Item::Raw(b) => bytes.extend_from_slice(b),
                                Item::Conv(k) => {
                                    let Some(t) = target(u, *k) else { return bad("expr-ref") };
                                    bytes.push(if want.version >= 5 { 0xa8 } else { 0xf7 });
                                    bytes.extend(uleb(t as u64));
                                }
                                Item::Call(k) => {
                                    let Some(t) = target(u, *k) else { return bad("expr-ref") };
                                    bytes.push(0x99);
                                    let w = (t as u32).to_le_bytes();
                                    if req.big { bytes.extend(w.iter().rev()) } else { bytes.extend(w.iter()) }
                                }
                                Item::CallRef(u2, k) => {
                                    let Some(t) = target(*u2, *k) else { return bad("expr-ref") };
                                    let t = (t + runits[*u2].base) as u64;
                                    bytes.push(0x9a);
                                    let w = t.to_le_bytes();
                                    let w = &w[..word as usize];
                                    if req.big { bytes.extend(w.iter().rev()) } else { bytes.extend(w.iter()) }
                                }
                            }
                        }
                        let got_bytes: Option<&[u8]> = match &rv {
                            read::AttributeValue::Exprloc(e) if want.version >= 4 => Some(e.0.slice()),
                            read::AttributeValue::Block(b) if want.version < 4 => Some(b.slice()),
                            _ => None,
                        };
                        if got_bytes != Some(&bytes[..]) {
                            return bad(if items.iter().any(|i| !matches!(i, Item::Raw(_))) { "expr-ref" } else { "attr-value" });
                        }
                    }
                    Val::Flag(b) => {
                        if rv != read::AttributeValue::Flag(*b) {
                            return bad("attr-value");
                        }
                    }
                    Val::FlagP => {
                        if rv != read::AttributeValue::Flag(true) {
                            return bad("attr-value");
                        }
                    }
                    Val::URef(k) => match (target(u, *k), &rv) {
                        (Some(t), read::AttributeValue::UnitRef(o)) if o.0 == t => {}
                        _ => return bad("unit-ref"),
                    },
                    Val::IRef(u2, k) => match (target(*u2, *k), &rv) {
                        (Some(t), read::AttributeValue::DebugInfoRef(o)) if o.0 == t + runits[*u2].base => {
                            // resolve through the reader as well: the offset must be an entry of that unit
                            let h = &runits[*u2].header;
                            let uo = o.to_unit_offset(h);
                            if uo.map(|x| x.0) != Some(t) {
                                return bad("info-ref");
                            }
                        }
                        _ => return bad("info-ref"),
                    },
                    Val::IRefSup(x) => match &rv {
                        read::AttributeValue::DebugInfoRefSup(o) if o.0 as u64 == *x => {}
                        _ => return bad("attr-value"),
                    },
                    Val::Sig8(x) => {
                        if rv != read::AttributeValue::DebugTypesRef(gimli::DebugTypeSignature(*x)) {
                            return bad("attr-value");
                        }
                    }
                    Val::Strp(k) => match &rv {
                        read::AttributeValue::DebugStrRef(o) => match dwarf.debug_str.get_str(*o) {
                            Ok(s) if s.slice() == &req.strs[*k][..] => {}
                            _ => return bad("string"),
                        },
                        _ => return bad("string"),
                    },
                    Val::LStrp(k) => match &rv {
                        read::AttributeValue::DebugLineStrRef(o) => match dwarf.debug_line_str.get_str(*o) {
                            Ok(s) if s.slice() == &req.lstrs[*k][..] => {}
                            _ => return bad("string"),
                        },
                        _ => return bad("string"),
                    },
                    Val::StrpSup(x) => match &rv {
                        read::AttributeValue::DebugStrRefSup(o) if o.0 as u64 == *x => {}
                        _ => return bad("attr-value"),
                    },
                    Val::Str(b) => match &rv {
                        read::AttributeValue::String(s) if s.slice() == &b[..] => {}
                        _ => return bad("attr-value"),
                    },
                    Val::File(k) => {
                        if rv != read::AttributeValue::Udata(*k as u64 + 1) {
                            return bad("attr-value");
                        }
                    }
                    Val::LpRef => {
                        let (Some(off), Lp::Prog { nfiles, .. }) = (num(&rv), &want.lp) else { return bad("line-ref") };
                        if let Some(f) = found.as_deref_mut() {
                            f.lp.insert(u, off as u64);
                        }
                        // the offset must be a line program header of this unit's version listing the files
                        match dwarf.debug_line.program(gimli::DebugLineOffset(off as usize), want.asz, None, None) {
                            Ok(prog) => {
                                let hd = prog.header();
                                let expect = nfiles + if want.version >= 5 { 1 } else { 0 };
                                if hd.version() != want.version || hd.file_names().len() != expect || hd.format() != want.format {
                                    return bad("line-ref");
                                }
                            }
                            Err(_) => return bad("line-ref"),
                        }
                    }
                    Val::RngList(k, _) => {
                        let Some(off) = num(&rv) else { return bad("range-ref") };
                        if let Some(f) = found.as_deref_mut() {
                            f.rl.insert((u, *k), off as u64);
                        }
                        let enc = Encoding { version: want.version, format: want.format, address_size: want.asz };
                        let mut got: Vec<(u64, u64)> = Vec::new();
                        match dwarf.ranges.raw_ranges(gimli::RangeListsOffset(off as usize), enc) {
                            Ok(mut it) => loop {
                                match it.next() {
                                    Ok(Some(e)) => match e {
                                        read::RawRngListEntry::AddressOrOffsetPair { begin, end }
                                        | read::RawRngListEntry::StartEnd { begin, end }
                                        | read::RawRngListEntry::OffsetPair { begin, end } => got.push((begin, end)),
                                        read::RawRngListEntry::StartLength { begin, length } => got.push((begin, begin.wrapping_add(length))),
                                        _ => return bad("range-ref"),
                                    },
                                    Ok(None) => break,
                                    Err(_) => return bad("range-ref"),
                                }
                                if got.len() > 64 {
                                    return bad("range-ref");
                                }
                            },
                            Err(_) => return bad("range-ref"),
                        }
                        let expect: Vec<(u64, u64)> = want.rls[*k].iter().map(|(b, l)| (*b, b + l)).collect();
                        if got != expect {
                            return bad("range-ref");
                        }
                    }
                    Val::LocList(k, _) => {
                        let Some(off) = num(&rv) else { return bad("loc-ref") };
                        if let Some(f) = found.as_deref_mut() {
                            f.ll.insert((u, *k), off as u64);
                        }
                        let enc = Encoding { version: want.version, format: want.format, address_size: want.asz };
                        let mut got: Vec<(u64, u64, Vec<u8>)> = Vec::new();
                        match dwarf.locations.raw_locations(gimli::LocationListsOffset(off as usize), enc) {
                            Ok(mut it) => loop {
                                match it.next() {
                                    Ok(Some(e)) => match e {
                                        read::RawLocListEntry::AddressOrOffsetPair { begin, end, data }
                                        | read::RawLocListEntry::StartEnd { begin, end, data }
                                        | read::RawLocListEntry::OffsetPair { begin, end, data } => got.push((begin, end, data.0.slice().to_vec())),
                                        read::RawLocListEntry::StartLength { begin, length, data } => {
                                            got.push((begin, begin.wrapping_add(length), data.0.slice().to_vec()))
                                        }
                                        _ => return bad("loc-ref"),
                                    },
                                    Ok(None) => break,
                                    Err(_) => return bad("loc-ref"),
                                }
                                if got.len() > 64 {
                                    return bad("loc-ref");
                                }
                            },
                            Err(_) => return bad("loc-ref"),
                        }
                        let expect: Vec<(u64, u64, Vec<u8>)> = want.lls[*k].iter().map(|(b, l, d)| (*b, b + l, d.clone())).collect();
                        if got != expect {
                            return bad("loc-ref");
                        }
                    }
                    Val::AddrSym | Val::IRefSym(_) => return bad("accepted-unencodable"),
                }
            }
        }
    }
    // 3. the reader's own tree navigation (uses DW_AT_sibling where present) sees the same forest
    for (u, ru) in runits.iter().enumerate() {
        let mut tree = ru.header.entries_tree(&abbrevs_keep[u], None).map_err(|e| format!("tree-walk unit {u}: {e:?}"))?;
        let root = tree.root().map_err(|e| format!("tree-walk unit {u}: {e:?}"))?;
        let mut seen: Vec<(usize, isize)> = Vec::new();
        fn walk<'a>(node: read::EntriesTreeNode<'_, '_, R<'a>>, depth: isize, seen: &mut Vec<(usize, isize)>) -> read::Result<()> {
            seen.push((node.entry().offset().0, depth));
            if seen.len() > 1 << 20 {
                return Ok(());
            }
            let mut ch = node.children();
            while let Some(c) = ch.next()? {
                walk(c, depth + 1, seen)?;
            }
            Ok(())
        }
        walk(root, 0, &mut seen).map_err(|e| format!("tree-walk unit {u}: {e:?}"))?;
        let expect: Vec<(usize, isize)> = ru.raw.iter().filter(|r| !r.null).map(|r| (r.off, r.depth)).collect();
        if seen != expect {
            return Err(format!("tree-walk unit {u}: {} entries by tree, {} sequentially", seen.len(), expect.len()));
        }
    }
    Ok(())
}

/// read `a` back, convert it with `write::Dwarf::convert`, writing every unit immediately
/// (`ConvertUnit::write`: `Unit::write` now, cross-unit fix-ups and string tables at the final
/// `Dwarf::write`)
fn incremental(a: &Sections<EndianVec<RunTimeEndian>>, endian: RunTimeEndian) -> Result<Sections<EndianVec<RunTimeEndian>>, String> {
    let rd: read::Dwarf<R> = read::Dwarf::load(|id| -> Result<R, ()> {
        Ok(EndianSlice::new(a.get(id).map(|w| w.slice()).unwrap_or(&[]), endian))
    })
    .map_err(|_| "load".to_string())?;
    let mut out = Dwarf::new();
    let mut b = Sections::new(EndianVec::new(endian));
    {
        let mut conv = out.convert(&rd).map_err(|e| format!("convert setup: {e:?}"))?;
        let mut n = 0;
        loop {
            match conv.read_unit() {
                Ok(Some((mut unit, root))) => {
                    unit.convert(root, &|x| Some(Address::Constant(x))).map_err(|e| format!("convert unit {n}: {e:?}"))?;
                    unit.write(&mut b).map_err(|e| format!("write unit {n}: {e:?}"))?;
                    n += 1;
                }
                Ok(None) => break,
                Err(e) => return Err(format!("convert read_unit {n}: {e:?}")),
            }
        }
    }
    out.write(&mut b).map_err(|e| format!("write final: {e:?}"))?;
    Ok(b)
}

pub fn handle(op: &str, a: &[&str]) -> Option<String> {
    if op != "wunit" {
        return None;
    }
    // a panic is answered here (instead of by the worker's catch_unwind) so that the numbers in
    // the message (`left: Some(DebugInfoOffset(102))`, `the len is 4 but the index is 7`) do not
    // turn one defect into hundreds of failure signatures
    match std::panic::catch_unwind(std::panic::AssertUnwindSafe(|| handle_inner(a))) {
        Ok(r) => r,
        Err(p) => {
            let msg = if let Some(s) = p.downcast_ref::<&str>() {
                s.to_string()
            } else if let Some(s) = p.downcast_ref::<String>() {
                s.clone()
            } else {
                "?".into()
            };
            let norm: String = msg.chars().filter(|c| !c.is_ascii_digit()).map(|c| if c == '\n' { ' ' } else { c }).collect();
            Some(format!("panic {norm}"))
        }
    }
}

fn handle_inner(a: &[&str]) -> Option<String> {
    let req = parse(a)?;
    let endian = if req.big { RunTimeEndian::Big } else { RunTimeEndian::Little };
    let mut b = build(&req)?;
    let mut sections = Sections::new(EndianVec::new(endian));
    let res = match &mut b.t {
        Target::Dw(d) => d.write(&mut sections),
        Target::Du(d) => d.write(&mut sections),
    };
    let enc = encodable(&req);
    match res {
        Err(e) => {
            let s = format!("err {}", werr(&e));
            if enc == Some(true) {
                Some(format!("{s} #oracle:rejected-encodable {e:?}"))
            } else {
                Some(s)
            }
        }
        Ok(()) => {
            let s = format!(
                "ok {} {} {} {}",
                hex(sections.debug_info.slice()),
                hex(sections.debug_abbrev.slice()),
                hex(sections.debug_str.slice()),
                hex(sections.debug_line_str.slice())
            );
            match oracle(&req, &sections, endian, None) {
                Ok(()) => {
                    // variant `cv`: the same forest written unit by unit (`ConvertUnit::write`, the only
                    // public route to an incremental write) must read back as the intended forest too
                    if req.variant == "cv" {
                        match incremental(&sections, endian) {
                            Ok(b) => {
                                if let Err(why) = oracle(&req, &b, endian, None) {
                                    return Some(format!("{s} #oracle:incremental-{why}"));
                                }
                            }
                            Err(why) => return Some(format!("{s} #oracle:incremental-{why}")),
                        }
                    }
                    Some(s)
                }
                Err(why) => {
                    // two request classes that the writer used to accept although it cannot encode them
                    // (findings C11-1 and C11-2, repaired in /repo by 07896a9 and eefb983) keep their own
                    // failure class, whatever the reader then trips over, should the behaviour return
                    let bad_asz = req.units.iter().any(|u| !matches!(u.asz, 1 | 2 | 4 | 8));
                    let nul = req.units.iter().any(|u| {
                        intended_order(u).iter().any(|(id, _)| {
                            id.map_or(false, |id| intended_attrs(u, id).iter().any(|(_, v)| matches!(v, Val::Str(b) if b.contains(&0))))
                        })
                    });
                    let class = if nul {
                        "accepted-nul-in-string "
                    } else if bad_asz {
                        "accepted-address-size "
                    } else {
                        ""
                    };
                    Some(format!("{s} #oracle:{class}{why}"))
                }
            }
        }
    }
}

// ---------------------------------------------------------------------------------------------
// request line from a `Req` (the generator parses its draft, fills in the offsets, prints it again)
// ---------------------------------------------------------------------------------------------

fn render_val(v: &Val) -> String {
    match v {
        Val::Addr(x) => format!("addr {x}"),
        Val::AddrSym => "addrsym".into(),
        Val::Block(b) => format!("block {}", hex(b)),
        Val::D1(x) => format!("d1 {x}"),
        Val::D2(x) => format!("d2 {x}"),
        Val::D4(x) => format!("d4 {x}"),
        Val::D8(x) => format!("d8 {x}"),
        Val::D16(x) => format!("d16 {x}"),
        Val::Sdata(x) => format!("sdata {x}"),
        Val::Udata(x) => format!("udata {x}"),
        Val::IConst(x) => format!("iconst {x}"),
        Val::Expr(items) => {
            let mut s = format!("expr {}", items.len());
            for it in items {
                match it {
                    Item::Raw(b) => s += &format!(" raw {}", hex(b)),
                    Item::Conv(k) => s += &format!(" conv {k}"),
                    Item::Call(k) => s += &format!(" call {k}"),
                    Item::CallRef(u, k) => s += &format!(" callref {u} {k}"),
                }
            }
            s
        }
        Val::Flag(b) => format!("flag {}", *b as u8),
        Val::FlagP => "flagp".into(),
        Val::URef(k) => format!("uref {k}"),
        Val::IRef(u, k) => format!("iref {u} {k}"),
        Val::IRefSym(x) => format!("irefsym {x}"),
        Val::IRefSup(x) => format!("irefsup {x}"),
        Val::LpRef => "lpref".into(),
        Val::Macinfo(x) => format!("macinfo {x}"),
        Val::Macro(x) => format!("macro {x}"),
        Val::Sig8(x) => format!("sig8 {x}"),
        Val::Strp(k) => format!("strp {k}"),
        Val::StrpSup(x) => format!("strpsup {x}"),
        Val::LStrp(k) => format!("lstrp {k}"),
        Val::Str(b) => format!("str {}", hex(b)),
        Val::Class(k, x) => format!("{k} {x}"),
        Val::File0 => "file0".into(),
        Val::File(k) => format!("file {k}"),
        Val::RngList(k, off) => format!("rnglist {k} {off}"),
        Val::LocList(k, off) => format!("loclist {k} {off}"),
    }
}

fn render(req: &Req) -> String {
    let mut s = format!("wunit {} {} S {}", req.variant, if req.big { "be" } else { "le" }, req.strs.len());
    for x in &req.strs {
        s += &format!(" {}", hex(x));
    }
    s += &format!(" L {}", req.lstrs.len());
    for x in &req.lstrs {
        s += &format!(" {}", hex(x));
    }
    s += &format!(" U {}", req.units.len());
    for u in &req.units {
        let lp = match u.lp {
            Lp::None => "-".to_string(),
            Lp::Prog { rows, nfiles, off } => format!("{}{nfiles}@{off}", if rows { "P" } else { "E" }),
        };
        s += &format!(" {} {} {} {lp} R {}", u.version, if u.format == Format::Dwarf64 { 64 } else { 32 }, u.asz, u.rls.len());
        for l in &u.rls {
            s += &format!(" {}", l.len());
            for (b, len) in l {
                s += &format!(" {b} {len}");
            }
        }
        s += &format!(" Q {}", u.lls.len());
        for l in &u.lls {
            s += &format!(" {}", l.len());
            for (b, len, d) in l {
                s += &format!(" {b} {len} {}", hex(d));
            }
        }
        s += &format!(" {}", u.ops.len());
        let attrs = |a: &Vec<(u16, Val)>| {
            let mut t = format!("{}", a.len());
            for (n, v) in a {
                t += &format!(" {n} {}", render_val(v));
            }
            t
        };
        for op in &u.ops {
            match op {
                Op::Reserve => s += " R",
                Op::Add { id, parent, tag, sibling, attrs: a } => s += &format!(" A {id} {parent} {tag} {} {}", *sibling as u8, attrs(a)),
                Op::Edit { id, sibling, attrs: a } => s += &format!(" E {id} {} {}", *sibling as u8, attrs(a)),
                Op::Delete { parent, id } => s += &format!(" X {parent} {id}"),
            }
        }
    }
    s
}

/// write the draft once with the real crate, read the offsets of the line programs and lists back
/// and put them into the request (they are inputs of the Model)
fn fill_offsets(line: &str) -> String {
    let toks: Vec<&str> = line.split_ascii_whitespace().collect();
    let Some(mut req) = parse(&toks[1..]) else { return line.to_string() };
    let needs = req.units.iter().any(|u| u.lp != Lp::None || !u.rls.is_empty() || !u.lls.is_empty());
    if !needs {
        return line.to_string();
    }
    let endian = if req.big { RunTimeEndian::Big } else { RunTimeEndian::Little };
    let mut found = Found::default();
    let wrote = std::panic::catch_unwind(std::panic::AssertUnwindSafe(|| {
        let Some(mut b) = build(&req) else { return false };
        let mut sections = Sections::new(EndianVec::new(endian));
        let ok = match &mut b.t {
            Target::Dw(d) => d.write(&mut sections).is_ok(),
            Target::Du(d) => d.write(&mut sections).is_ok(),
        };
        if ok {
            let _ = oracle(&req, &sections, endian, Some(&mut found));
        }
        ok
    }))
    .unwrap_or(false);
    if !wrote {
        return line.to_string();
    }
    for (u, unit) in req.units.iter_mut().enumerate() {
        if let (Lp::Prog { off, .. }, Some(o)) = (&mut unit.lp, found.lp.get(&u)) {
            *off = *o;
        }
        let fix = |a: &mut Vec<(u16, Val)>| {
            for (_, v) in a.iter_mut() {
                match v {
                    Val::RngList(k, off) => {
                        if let Some(o) = found.rl.get(&(u, *k)) {
                            *off = *o;
                        }
                    }
                    Val::LocList(k, off) => {
                        if let Some(o) = found.ll.get(&(u, *k)) {
                            *off = *o;
                        }
                    }
                    _ => {}
                }
            }
        };
        for op in unit.ops.iter_mut() {
            match op {
                Op::Add { attrs, .. } | Op::Edit { attrs, .. } => fix(attrs),
                _ => {}
            }
        }
    }
    render(&req)
}

// ---------------------------------------------------------------------------------------------
// generator
// ---------------------------------------------------------------------------------------------

fn h(b: &[u8]) -> String {
    hex(b)
}

const TAGS: &[u16] = &[0x2e, 0x34, 0x13, 0x0b, 0x24, 0x0f, 0x16, 0x05, 0x1d, 0x24];
const NAMES: &[u16] = &[0x03, 0x02, 0x0b, 0x11, 0x12, 0x1c, 0x31, 0x32, 0x38, 0x3a, 0x3b, 0x3e, 0x49, 0x55, 0x58, 0x6e, 0x2007, 0x2111, 0x87, 0x13, 0x1b, 0x10];

struct GenUnit {
    version: u16,
    fmt: u8,
    asz: u8,
    /// parent of each id (index 0 = root, usize::MAX = reserved only)
    n_ids: usize,
    /// extra files of the line program (None: no program), number of range / location lists
    nfiles: Option<usize>,
    nrl: usize,
    nll: usize,
}

fn rand_bytes(rng: &mut Rng, max: u64) -> Vec<u8> {
    let n = match rng.below(10) {
        0 => 0,
        1 => 127,
        2 => 128,
        3 => 129,
        _ => rng.below(max) as usize,
    };
    let n = n.min(max as usize + 130);
    rng.bytes(n)
}

fn simple_ops(rng: &mut Rng, n: usize) -> Vec<u8> {
    const OPS: &[u8] = &[0x06, 0x12, 0x13, 0x1c, 0x22, 0x30, 0x31, 0x4f, 0x50, 0x6f, 0x96, 0x9c, 0x9f];
    (0..n).map(|_| *rng.pick(OPS)).collect()
}

/// one attribute value in request syntax; `ids`: number of ids per unit usable as targets
fn gen_val(rng: &mut Rng, u: usize, units: &[GenUnit], nstr: usize, nlstr: usize, self_rank_targets: &[usize], malformed: bool) -> String {
    let nu = units.len();
    let some_id = |rng: &mut Rng, u: usize| -> usize { rng.below(units[u].n_ids as u64) as usize };
    loop {
        let k = rng.below(if malformed { 50 } else { 44 });
        return match k {
            0 => format!("addr {}", match units[u].asz { 1 => rng.boundary_u64() & 0xff, 2 => rng.boundary_u64() & 0xffff, 4 => rng.boundary_u64() & 0xffff_ffff, _ => rng.boundary_u64() }),
            1 => format!("block {}", h(&rand_bytes(rng, 40))),
            2 => format!("d1 {}", rng.boundary_u64() & 0xff),
            3 => format!("d2 {}", rng.boundary_u64() & 0xffff),
            4 => format!("d4 {}", rng.boundary_u64() & 0xffff_ffff),
            5 => format!("d8 {}", rng.boundary_u64()),
            6 => format!("d16 {}", ((rng.boundary_u64() as u128) << 64) | rng.boundary_u64() as u128),
            7 => format!("sdata {}", rng.boundary_i64()),
            8 => format!("udata {}", rng.boundary_u64()),
            9 => format!("iconst {}", rng.boundary_i64()),
            10 => format!("expr 1 raw {}", h(&rand_bytes(rng, 30))),
            11 => format!("flag {}", rng.below(2)),
            12 => "flagp".into(),
            13 | 14 | 15 => format!("uref {}", some_id(rng, u)),
            16 | 17 | 18 => {
                let u2 = rng.below(nu as u64) as usize;
                format!("iref {} {}", u2, some_id(rng, u2))
            }
            19 => format!("irefsup {}", rng.boundary_u64() & if units[u].fmt == 32 { 0xffff_ffff } else { u64::MAX }),
            20 => format!("macinfo {}", rng.boundary_u64() & if units[u].fmt == 32 { 0xffff_ffff } else { u64::MAX }),
            21 => format!("macro {}", rng.boundary_u64() & if units[u].fmt == 32 { 0xffff_ffff } else { u64::MAX }),
            22 => format!("sig8 {}", rng.boundary_u64()),
            23 | 24 | 25 => {
                if nstr == 0 {
                    continue;
                }
                format!("strp {}", rng.below(nstr as u64))
            }
            26 => format!("strpsup {}", rng.boundary_u64() & if units[u].fmt == 32 { 0xffff_ffff } else { u64::MAX }),
            27 => {
                if nlstr == 0 {
                    continue;
                }
                format!("lstrp {}", rng.below(nlstr as u64))
            }
            28 | 29 => {
                let n = rng.below(12) as usize;
                let s: Vec<u8> = (0..n).map(|_| 1 + (rng.next() % 255) as u8).collect();
                format!("str {}", h(&s))
            }
            30 => {
                let (name, bits) = *rng.pick(CLASS_KINDS);
                let v = rng.boundary_u64() & if bits == 64 { u64::MAX } else { (1u64 << bits) - 1 };
                format!("{name} {v}")
            }
            31 => "file0".into(),
            32 | 33 | 34 => {
                // structured expression: conv to an entry that is already laid out, call, callref
                let n = 1 + rng.below(4) as usize;
                let mut s = format!("expr {n}");
                for _ in 0..n {
                    match rng.below(4) {
                        0 => {
                            let k = 1 + rng.below(3) as usize;
                            s += &format!(" raw {}", h(&simple_ops(rng, k)));
                        }
                        1 => {
                            if self_rank_targets.is_empty() {
                                s += " raw 9c";
                            } else {
                                s += &format!(" conv {}", rng.pick(self_rank_targets));
                            }
                        }
                        2 => s += &format!(" call {}", some_id(rng, u)),
                        _ => {
                            let u2 = rng.below(nu as u64) as usize;
                            s += &format!(" callref {} {}", u2, some_id(rng, u2));
                        }
                    }
                }
                s
            }
            35..=39 => format!("udata {}", rng.below(300)),
            40 => match units[u].nfiles {
                Some(n) if n > 0 => format!("file {}", rng.below(n as u64)),
                Some(_) => "lpref".into(),
                None => continue,
            },
            41 | 42 => {
                if units[u].nrl == 0 {
                    continue;
                }
                format!("rnglist {} 0", rng.below(units[u].nrl as u64))
            }
            43 => {
                if units[u].nll == 0 {
                    continue;
                }
                format!("loclist {} 0", rng.below(units[u].nll as u64))
            }
            // malformed / unencodable
            44 => "addrsym".into(),
            45 => format!("irefsym {}", rng.below(10)),
            46 => "lpref".into(),
            47 => format!("macinfo {}", rng.boundary_u64()),
            48 => {
                if rng.chance(1, 2) {
                    format!("uref {}", units[u].n_ids + rng.below(3) as usize)
                } else {
                    let n = 1 + rng.below(4) as usize;
                    let mut b = rng.bytes(n);
                    let k = rng.below(b.len() as u64) as usize;
                    b[k] = 0;
                    format!("str {}", h(&b))
                }
            }
            _ => format!("expr 1 conv {}", some_id(rng, u)),
        };
    }
}

fn gen_table(rng: &mut Rng, malformed: bool, big: bool) -> String {
    let nu = if big { 1 } else { 1 + rng.below(4) as usize };
    let e = if rng.chance(1, 2) { "le" } else { "be" };
    let variant = if nu == 1 && rng.chance(1, 3) { "du" } else { "dw" };
    // strings with duplicates
    let pool: Vec<Vec<u8>> = (0..(1 + rng.below(5))).map(|_| {
        let n = rng.below(9) as usize;
        (0..n).map(|_| b'a' + (rng.next() % 26) as u8).collect()
    }).collect();
    let nstr = rng.below(8) as usize;
    let strs: Vec<Vec<u8>> = (0..nstr).map(|_| rng.pick(&pool).clone()).collect();
    let nlstr = rng.below(4) as usize;
    let lstrs: Vec<Vec<u8>> = (0..nlstr).map(|_| rng.pick(&pool).clone()).collect();
    let mut line = format!("wunit {variant} {e} S {nstr}");
    for s in &strs {
        line += &format!(" {}", h(s));
    }
    line += &format!(" L {nlstr}");
    for s in &lstrs {
        line += &format!(" {}", h(s));
    }
    line += &format!(" U {nu}");
    let mut units: Vec<GenUnit> = Vec::new();
    for _ in 0..nu {
        let version = if malformed && rng.chance(1, 8) { *rng.pick(&[0u16, 1, 6, 0xffff]) } else { 2 + rng.below(4) as u16 };
        let fmt = if rng.chance(1, 2) { 32 } else { 64 };
        let asz = if malformed && rng.chance(1, 6) { *rng.pick(&[0u8, 3, 16, 255]) } else { *rng.pick(&[1u8, 2, 4, 4, 8, 8, 8]) };
        let cap = if rng.chance(1, 5) { 40 } else { 10 };
        let n_entries = if big { 130 + rng.below(200) as usize } else { rng.below(cap) as usize };
        let extra = if rng.chance(1, 4) { 1 + rng.below(3) as usize } else { 0 };
        let plain = (2..=5).contains(&version) && matches!(asz, 1 | 2 | 4 | 8);
        let nfiles = if plain && rng.chance(1, 3) { Some(rng.below(3) as usize) } else { None };
        let nrl = if plain && rng.chance(1, 4) { 1 + rng.below(3) as usize } else { 0 };
        let nll = if plain && rng.chance(1, 5) { 1 + rng.below(2) as usize } else { 0 };
        units.push(GenUnit { version, fmt, asz, n_ids: 1 + n_entries + extra, nfiles, nrl, nll });
    }
    for u in 0..nu {
        let gu = &units[u];
        let n_entries = gu.n_ids - 1;
        // ids are handed out in a shuffled order: entry j (in add order) gets id perm[j]
        let mut perm: Vec<usize> = (1..gu.n_ids).collect();
        if rng.chance(1, 2) {
            for i in (1..perm.len()).rev() {
                let j = rng.below(i as u64 + 1) as usize;
                perm.swap(i, j);
            }
        }
        // some ids stay reserved only
        let n_add = if n_entries > 0 && rng.chance(1, 4) { n_entries - rng.below(n_entries.min(3) as u64) as usize } else { n_entries };
        let n_add = if big { n_entries } else { n_add };
        let mut added: Vec<usize> = vec![0]; // ids attached so far (in layout-independent add order)
        let mut ops: Vec<String> = Vec::new();
        // shapes pool so that abbreviations repeat
        let shapes: Vec<Vec<u16>> = (0..4).map(|_| {
            let n = rng.below(5) as usize;
            let mut v: Vec<u16> = Vec::new();
            for _ in 0..n {
                let nm = *rng.pick(NAMES);
                if !v.contains(&nm) {
                    v.push(nm);
                }
            }
            v
        }).collect();
        let mut root_attrs = String::new();
        let mut n_root_attrs = 0;
        for nm in rng.pick(&shapes).clone() {
            if nm == 0x11 && (units[u].nrl > 0 || units[u].nll > 0) {
                continue;
            }
            let m = malformed && rng.chance(1, 10);
            root_attrs += &format!(" {nm} {}", gen_val(rng, u, &units, nstr, nlstr, &[0], m));
            n_root_attrs += 1;
        }
        ops.push(format!("E 0 {} {n_root_attrs}{root_attrs}", rng.below(2)));
        if rng.chance(1, 20) {
            let n = *rng.pick(&[100usize, 127, 128, 16300, 16384]);
            let last = ops.pop().unwrap();
            let rest = last.splitn(4, ' ').nth(3).unwrap_or("").to_string();
            ops.push(format!("E 0 {} {} 8192 block {}{}", rng.below(2), n_root_attrs + 1, h(&vec![0x5a; n]), if rest.is_empty() { String::new() } else { format!(" {}", rest.splitn(2, ' ').nth(1).unwrap_or("")) }));
        }
        let mut depth_of: Vec<usize> = vec![0; gu.n_ids];
        let mut parent_of: Vec<usize> = vec![0; gu.n_ids];
        for j in 0..n_add {
            let id = perm[j];
            let parent = if big || rng.chance(1, 3) { 0 } else { *rng.pick(&added) };
            if depth_of[parent] > 20 {
                continue;
            }
            depth_of[id] = depth_of[parent] + 1;
            parent_of[id] = parent;
            let tag = if big { 0x100 + j as u16 } else { *rng.pick(TAGS) };
            let sib = rng.below(2);
            let mut attrs = String::new();
            let mut na = 0;
            let names: Vec<u16> = if rng.chance(2, 3) { rng.pick(&shapes).clone() } else {
                let n = rng.below(6) as usize;
                let mut v: Vec<u16> = Vec::new();
                for _ in 0..n {
                    let nm = *rng.pick(NAMES);
                    if !v.contains(&nm) {
                        v.push(nm);
                    }
                }
                v
            };
            // conv targets: entries certainly laid out before this one = its ancestors and itself
            let mut tg = vec![id];
            let mut p = parent;
            tg.push(p);
            let _ = &mut p;
            for nm in names {
                if big && rng.chance(1, 2) {
                    continue;
                }
                let m = malformed && rng.chance(1, 10);
                attrs += &format!(" {nm} {}", gen_val(rng, u, &units, nstr, nlstr, &tg, m));
                na += 1;
            }
            if rng.chance(1, 6) {
                ops.push("R".into());
                // an explicit reserve shifts nothing in the request's id space: ids are explicit
            }
            ops.push(format!("A {id} {parent} {tag} {sib} {na}{attrs}"));
            added.push(id);
            if malformed && rng.chance(1, 12) && added.len() > 2 {
                let victim = *rng.pick(&added[1..]);
                let p = if rng.chance(2, 3) { parent_of[victim] } else { *rng.pick(&added) };
                ops.push(format!("X {p} {victim}"));
            }
        }
        let lp = match gu.nfiles {
            None => "-".to_string(),
            Some(n) => format!("{}{n}@0", if rng.chance(3, 4) { "P" } else { "E" }),
        };
        line += &format!(" {} {} {} {lp} R {}", gu.version, gu.fmt, gu.asz, gu.nrl);
        // lists, with duplicates (shared lists)
        let rl_pool: Vec<String> = (0..2)
            .map(|_| {
                let n = rng.below(4) as usize;
                let mut t = format!("{n}");
                for _ in 0..n {
                    t += &format!(" {} {}", 1 + rng.below(99), 1 + rng.below(99));
                }
                t
            })
            .collect();
        for _ in 0..gu.nrl {
            line += &format!(" {}", rng.pick(&rl_pool));
        }
        line += &format!(" Q {}", gu.nll);
        for _ in 0..gu.nll {
            let n = rng.below(3) as usize;
            line += &format!(" {n}");
            for _ in 0..n {
                let k = rng.below(4) as usize;
                line += &format!(" {} {} {}", 1 + rng.below(99), 1 + rng.below(99), h(&simple_ops(rng, k)));
            }
        }
        line += &format!(" {}", ops.len());
        for o in ops {
            line += " ";
            line += &o;
        }
    }
    line
}

/// tables for the incremental-write variant: only content the converter maps one to one (inert
/// attribute names, no malformed requests, every reference to an attached entry)
fn gen_table_cv(rng: &mut Rng) -> String {
    let nu = 1 + rng.below(4) as usize;
    let e = if rng.chance(1, 2) { "le" } else { "be" };
    let strs: Vec<Vec<u8>> = (0..3).map(|i| vec![b'a' + i as u8; 1 + rng.below(4) as usize]).collect();
    let mut line = format!("wunit cv {e} S 4 {} {} {} {} L 1 6c U {nu}", h(&strs[0]), h(&strs[1]), h(&strs[0]), h(&strs[2]));
    let counts: Vec<usize> = (0..nu).map(|_| 1 + rng.below(8) as usize).collect();
    for u in 0..nu {
        let version = 2 + rng.below(4);
        let fmt = if rng.chance(1, 2) { 32 } else { 64 };
        let asz = if rng.chance(1, 2) { 4 } else { 8 };
        let n = counts[u];
        let mut ops: Vec<String> = Vec::new();
        let mut parents: Vec<usize> = vec![0];
        for id in 1..=n {
            let parent = *rng.pick(&parents);
            let tag = *rng.pick(TAGS);
            let mut attrs = String::new();
            let na = rng.below(5) as usize;
            for j in 0..na {
                let name = 0x3fe0 + j;
                let v = match rng.below(14) {
                    0 => format!("udata {}", rng.boundary_u64()),
                    1 => format!("sdata {}", rng.boundary_i64()),
                    2 => format!("d1 {}", rng.below(256)),
                    3 => format!("d2 {}", rng.below(65536)),
                    4 => format!("flag {}", rng.below(2)),
                    5 => "flagp".into(),
                    6 => format!("str {}", h(&vec![b'x'; rng.below(5) as usize])),
                    7 => format!("strp {}", rng.below(4)),
                    8 => format!("block {}", h(&rand_bytes(rng, 20))),
                    9 | 10 => format!("uref {}", rng.below(n as u64 + 1)),
                    11 => {
                        let u2 = rng.below(nu as u64) as usize;
                        format!("iref {u2} {}", rng.below(counts[u2] as u64 + 1))
                    }
                    12 => format!("addr {}", rng.below(1 << 20)),
                    _ => {
                        let u2 = rng.below(nu as u64) as usize;
                        format!("expr 3 raw {} call {} callref {u2} {}", h(&simple_ops(rng, 2)), rng.below(n as u64 + 1), rng.below(counts[u2] as u64 + 1))
                    }
                };
                attrs += &format!(" {name} {v}");
            }
            ops.push(format!("A {id} {parent} {tag} {} {na}{attrs}", rng.below(2)));
            parents.push(id);
        }
        line += &format!(" {version} {fmt} {asz} - R 0 Q 0 {}", ops.len());
        for o in ops {
            line += " ";
            line += &o;
        }
    }
    line
}

/// every value kind x version x format x address size, followed by a referenced entry: a size
/// that is off for this kind under this encoding moves the target of the references
fn gen_sweep(emit: &mut dyn FnMut(String), rng: &mut Rng) {
    let kinds: Vec<String> = vec![
        "addr 0".into(), "addr 127".into(), "block -".into(), format!("block {}", h(&vec![0xabu8; 127])), format!("block {}", h(&vec![0xcdu8; 128])),
        format!("block {}", h(&vec![1u8; 16384])),
        "d1 255".into(), "d2 65535".into(), "d4 4294967295".into(), "d8 18446744073709551615".into(),
        "d16 340282366920938463463374607431768211455".into(),
        "sdata 0".into(), "sdata 63".into(), "sdata 64".into(), "sdata -64".into(), "sdata -65".into(), "sdata 9223372036854775807".into(), "sdata -9223372036854775808".into(),
        "udata 0".into(), "udata 127".into(), "udata 128".into(), "udata 16383".into(), "udata 16384".into(), "udata 18446744073709551615".into(),
        "iconst 0".into(), "iconst -1".into(), "iconst 64".into(), "iconst -9223372036854775808".into(),
        "expr 0".into(), "expr 1 raw 9c".into(), format!("expr 1 raw {}", h(&vec![0x30u8; 128])),
        "expr 2 raw 30 conv 0".into(), "expr 1 conv 1".into(), "expr 1 call 2".into(), "expr 1 callref 0 2".into(), "expr 3 conv 0 call 1 callref 0 0".into(),
        "flag 0".into(), "flag 1".into(), "flagp".into(), "uref 2".into(), "uref 0".into(), "uref 1".into(), "iref 0 2".into(), "iref 0 0".into(),
        "irefsup 0".into(), "irefsup 4294967295".into(), "macinfo 7".into(), "macro 9".into(), "sig8 81985529216486895".into(),
        "strp 0".into(), "strp 1".into(), "strp 2".into(), "strp 3".into(), "strpsup 5".into(), "lstrp 0".into(), "str -".into(), "str 616263".into(),
        "enc 255".into(), "dsign 5".into(), "endy 2".into(), "acc 3".into(), "vis 3".into(), "virt 2".into(), "lang 65535".into(), "lang 128".into(),
        "aclass 18446744073709551615".into(), "idcase 3".into(), "cc 255".into(), "inl 3".into(), "ord 1".into(), "file0".into(),
        "file 0".into(), "file 1".into(), "lpref".into(), "rnglist 0 0".into(), "rnglist 1 0".into(), "loclist 0 0".into(),
        // unencodable
        "addrsym".into(), "irefsym 3".into(), "lpref".into(), "macinfo 4294967296".into(), "irefsup 4294967296".into(), "strpsup 4294967296".into(), "macro 18446744073709551615".into(),
        "addr 256".into(), "addr 65536".into(), "addr 4294967296".into(), "uref 3".into(), "iref 0 3".into(), "expr 1 conv 2".into(), "expr 1 call 3".into(), "expr 1 callref 0 3".into(),
    ];
    let mut i = 0u64;
    for k in &kinds {
        for version in [2u16, 3, 4, 5] {
            for fmt in [32, 64] {
                for asz in [1u8, 2, 4, 8] {
                    i += 1;
                    // keep the big block cases few
                    if k.len() > 1000 && !(asz == 8 && fmt == 32) {
                        continue;
                    }
                    if k.len() <= 1000 && (asz == 1 || asz == 2) && !k.starts_with("addr") && !k.starts_with("iref") && i % 4 != 0 {
                        continue;
                    }
                    let e = if i % 2 == 0 { "le" } else { "be" };
                    let lp = if k.starts_with("file ") || k == "lpref" || i % 7 == 0 { if i % 3 == 0 { "E2@0" } else { "P2@0" } } else { "-" };
                    let sib = (i / 2) % 2;
                    let variant = if k.contains("iref") || k.contains("callref") || i % 3 != 0 { "dw" } else { "du" };
                    // root carries the kind; entry 1 carries it and refers forward to 2; 2 is a base type
                    // (moved before 1) that refers back to 1 and to the root
                    emit(fill_offsets(&format!(
                        "wunit {variant} {e} S 4 666f6f 62 666f6f 7a79 L 1 6c73 U 1 {version} {fmt} {asz} {lp} R 2 1 5 3 2 9 9 16 4 Q 1 1 7 2 9c 3 E 0 {sib} 2 3 {k} 73 uref 2 A 1 0 46 {sib} 3 3 {k} 73 uref 2 2 {k} A 2 0 36 0 2 73 uref 1 74 uref 0"
                    )));
                    if i % 5 == 0 {
                        // nested: the kind sits in a child list before a referenced grandchild
                        emit(fill_offsets(&format!(
                            "wunit dw {e} S 4 666f6f 62 666f6f 7a79 L 1 6c73 U 1 {version} {fmt} {asz} {lp} R 2 1 5 3 2 9 9 16 4 Q 1 1 7 2 9c 4 A 1 0 46 1 1 3 {k} A 2 1 52 1 2 3 {k} 73 uref 3 A 3 2 52 0 1 73 uref 1 A 4 0 46 1 1 73 uref 3"
                        )));
                    }
                }
            }
        }
    }
    let _ = rng;
}

pub fn gen(ctx: &Ctx, emit: &mut dyn FnMut(String)) {
    // `fill_offsets` runs the real writer on drafts, some of which panic by design (a reference to
    // an id beyond `entries.len()`): keep those quiet
    let prev = std::panic::take_hook();
    std::panic::set_hook(Box::new(|_| {}));
    gen_inner(ctx, emit);
    std::panic::set_hook(prev);
}

fn gen_inner(ctx: &Ctx, emit: &mut dyn FnMut(String)) {
    let mut rng = ctx.rng(11);
    gen_sweep(emit, &mut rng);
    let n = ctx.n(4500, 120_000);
    for i in 0..n {
        let malformed = i % 10 == 9;
        emit(fill_offsets(&gen_table(&mut rng, malformed, false)));
    }
    for _ in 0..ctx.n(6, 60) {
        emit(fill_offsets(&gen_table(&mut rng, false, true)));
    }
    for _ in 0..ctx.n(600, 20_000) {
        emit(gen_table_cv(&mut rng));
    }
    let _ = Tier::Quick;
}
