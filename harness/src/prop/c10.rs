//! C10 — readers are faithful zero-copy views; all reader kinds behave identically.
//!
//! `rd-hist <mode> <le|be> <section hex> <op>…` runs one history of `Reader` operations on
//!   EndianSlice, EndianRcSlice, EndianArcSlice, EndianReader<Custom> (a hand-written
//!   `CloneStableDeref` buffer with a live-handle counter), RelocateReader<EndianSlice, Id> and
//!   RelocateReader<EndianRcSlice, Id> (identity relocation that counts how often it is consulted)
//! and answers in the Model's trace format (`lean/Gimli/Drv/C10.lean`).
//! Direct oracles (independent of the Model):
//!   * `kinds-differ`      – two kinds give different traces (this includes a reader that leaves
//!                           the section on `empty()`: C10-1, repaired in the repository)
//!   * `outside-buffer`    – a reader / returned slice / string points outside the source buffer
//!   * `copied`            – `to_slice`/`to_string` of a valid window is not `Cow::Borrowed`
//!   * `offset-from`       – `offset_from(section)` differs from the pointer difference
//!   * `bytes-differ`      – bytes seen through the reader differ from the buffer at that offset
//!   * `reloc-consulted`   – the relocation is consulted by something else than a successful
//!                           read_address/read_offset/read_sized_offset, or not exactly once by those
//!   * `handle-leak`       – live handles of the custom buffer ≠ live readers (+ section)
//! `rd-parse …` repeats whole-section parses under every kind (see below).
use crate::prop::{Ctx, Tier};
use crate::util::{hex, rerr, unhex, Rng};
use gimli::{
    CloneStableDeref, EndianArcSlice, EndianRcSlice, EndianReader, EndianSlice, Format, Reader, ReaderOffsetId, Relocate, RelocateReader,
    RunTimeEndian, StableDeref,
};
use std::borrow::Cow;
use std::cell::Cell;
use std::panic::{catch_unwind, AssertUnwindSafe};
use std::rc::Rc;
use std::sync::Arc;

// ---------------------------------------------------------------------------------------------
// custom stable buffer with a live-handle counter
// ---------------------------------------------------------------------------------------------
#[derive(Debug)]
pub struct Custom {
    data: Rc<Vec<u8>>,
    live: Rc<Cell<i64>>,
}
impl Custom {
    pub fn new(bytes: &[u8], live: Rc<Cell<i64>>) -> Self {
        let mut v = Vec::with_capacity(bytes.len().max(1));
        v.extend_from_slice(bytes);
        live.set(live.get() + 1);
        Custom { data: Rc::new(v), live }
    }
}
impl Clone for Custom {
    fn clone(&self) -> Self {
        self.live.set(self.live.get() + 1);
        Custom { data: self.data.clone(), live: self.live.clone() }
    }
}
impl Drop for Custom {
    fn drop(&mut self) {
        self.live.set(self.live.get() - 1);
    }
}
impl std::ops::Deref for Custom {
    type Target = [u8];
    fn deref(&self) -> &[u8] {
        &self.data[..]
    }
}
// the Vec's heap block is owned by the Rc and never reallocated: the target is stable and shared
// by all clones
unsafe impl StableDeref for Custom {}
unsafe impl CloneStableDeref for Custom {}

// ---------------------------------------------------------------------------------------------
// identity relocation that counts its consultations
// ---------------------------------------------------------------------------------------------
#[derive(Debug, Clone)]
pub struct CountId(pub Rc<Cell<u64>>, pub Rc<Cell<(u64, u64)>>);
impl Relocate<usize> for CountId {
    fn relocate_address(&self, offset: usize, value: u64) -> gimli::Result<u64> {
        self.0.set(self.0.get() + 1);
        self.1.set((offset as u64, value));
        Ok(value)
    }
    fn relocate_offset(&self, offset: usize, value: usize) -> gimli::Result<usize> {
        self.0.set(self.0.get() + 1);
        self.1.set((offset as u64, value as u64));
        Ok(value)
    }
}

// ---------------------------------------------------------------------------------------------
// history operations
// ---------------------------------------------------------------------------------------------
#[derive(Clone, Copy, Debug, PartialEq)]
pub enum Op {
    Fixed(usize, u8),
    Signed(usize, u8),
    Float(usize, u8),
    Uint(usize, usize),
    Slice(usize, usize),
    Skip(usize, usize),
    Split(usize, usize),
    Trunc(usize, usize),
    Empty(usize),
    Find(usize, u8),
    Clone(usize),
    Drop(usize),
    OffFrom(usize, usize),
    OffId(usize),
    Lookup(usize, usize),
    Len(usize),
    ToSlice(usize),
    ToStr(usize),
    ToLossy(usize),
    Nts(usize),
    Uleb(usize),
    Sleb(usize),
    Uleb32(usize),
    Uleb16(usize),
    SkipLeb(usize),
    InitLen(usize),
    AddrSize(usize),
    Addr(usize, u8),
    Word(usize, Format),
    Offset(usize, Format),
    SizedOff(usize, u8),
}

fn fmt_of(a: usize) -> Option<Format> {
    match a {
        32 => Some(Format::Dwarf32),
        64 => Some(Format::Dwarf64),
        _ => None,
    }
}

pub fn parse_op(tok: &str) -> Option<Op> {
    let p: Vec<&str> = tok.split(':').collect();
    let i: usize = p.get(1)?.parse().ok()?;
    if p.len() == 2 {
        return Some(match p[0] {
            "u8" => Op::Fixed(i, 1),
            "u16" => Op::Fixed(i, 2),
            "u32" => Op::Fixed(i, 4),
            "u64" => Op::Fixed(i, 8),
            "u128" => Op::Fixed(i, 16),
            "f32" => Op::Float(i, 4),
            "f64" => Op::Float(i, 8),
            "i8" => Op::Signed(i, 1),
            "i16" => Op::Signed(i, 2),
            "i32" => Op::Signed(i, 4),
            "i64" => Op::Signed(i, 8),
            "empty" => Op::Empty(i),
            "clone" => Op::Clone(i),
            "drop" => Op::Drop(i),
            "offid" => Op::OffId(i),
            "len" => Op::Len(i),
            "toslice" => Op::ToSlice(i),
            "tostr" => Op::ToStr(i),
            "tolossy" => Op::ToLossy(i),
            "nts" => Op::Nts(i),
            "uleb" => Op::Uleb(i),
            "sleb" => Op::Sleb(i),
            "uleb32" => Op::Uleb32(i),
            "uleb16" => Op::Uleb16(i),
            "skipleb" => Op::SkipLeb(i),
            "initlen" => Op::InitLen(i),
            "addrsize" => Op::AddrSize(i),
            _ => return None,
        });
    }
    if p.len() != 3 {
        return None;
    }
    let a: u64 = p[2].parse().ok()?;
    let au = usize::try_from(a).ok()?;
    Some(match p[0] {
        "uint" => Op::Uint(i, au),
        "slice" => Op::Slice(i, au),
        "skip" => Op::Skip(i, au),
        "split" => Op::Split(i, au),
        "trunc" => Op::Trunc(i, au),
        "find" => Op::Find(i, a as u8),
        "offfrom" => Op::OffFrom(i, au),
        "lookup" => Op::Lookup(i, au),
        // the Model takes the size argument as a natural number; the API takes a u8
        "addr" => Op::Addr(i, u8::try_from(a).ok()?),
        "sizedoff" => Op::SizedOff(i, u8::try_from(a).ok()?),
        "word" => Op::Word(i, fmt_of(au)?),
        "off" => Op::Offset(i, fmt_of(au)?),
        _ => return None,
    })
}

impl Op {
    fn relocatable(&self) -> bool {
        matches!(self, Op::Addr(..) | Op::Offset(..) | Op::SizedOff(..))
    }
    /// readers the operation touches
    fn readers(&self) -> (usize, Option<usize>) {
        use Op::*;
        match *self {
            OffFrom(i, j) => (i, Some(j)),
            Fixed(i, _) | Signed(i, _) | Float(i, _) | Uint(i, _) | Slice(i, _) | Skip(i, _) | Split(i, _) | Trunc(i, _) | Empty(i) | Find(i, _)
            | Clone(i) | Drop(i) | OffId(i) | Lookup(i, _) | Len(i) | ToSlice(i) | ToStr(i) | ToLossy(i) | Nts(i) | Uleb(i) | Sleb(i) | Uleb32(i)
            | Uleb16(i) | SkipLeb(i) | InitLen(i) | AddrSize(i) | Addr(i, _) | Word(i, _) | Offset(i, _) | SizedOff(i, _) => (i, None),
        }
    }
}

/// where a reader's window is, from the pointer of the slice it hands out
#[derive(Clone, Copy, PartialEq, Debug)]
enum Win {
    At(usize, usize),
    /// pointer not inside the source buffer
    Det(usize),
}
impl Win {
    fn render(&self) -> String {
        match self {
            Win::At(o, l) => format!("{o}+{l}"),
            Win::Det(l) => format!("det+{l}"),
        }
    }
}

pub struct Run {
    pub trace: Vec<String>,
    pub problems: Vec<String>,
}

fn problem(p: &mut Vec<String>, class: &str, detail: String) {
    if p.len() < 4 {
        p.push(format!("{class} {detail}"));
    }
}

/// window of `r` relative to the buffer `[base, base+blen)`; checks zero-copy and content
fn window<R: Reader<Offset = usize>>(r: &R, base: usize, buf: &[u8], problems: &mut Vec<String>, what: &str) -> Win {
    match r.to_slice() {
        Ok(Cow::Borrowed(s)) => {
            let p = s.as_ptr() as usize;
            if p >= base && p + s.len() <= base + buf.len() {
                let off = p - base;
                if &buf[off..off + s.len()] != s {
                    problem(problems, "bytes-differ", format!("{what} at {off}"));
                }
                if s.len() != r.len() {
                    problem(problems, "bytes-differ", format!("{what} len {} vs to_slice {}", r.len(), s.len()));
                }
                Win::At(off, s.len())
            } else {
                Win::Det(s.len())
            }
        }
        Ok(Cow::Owned(v)) => {
            problem(problems, "copied", format!("{what} to_slice owned"));
            Win::Det(v.len())
        }
        Err(e) => {
            problem(problems, "copied", format!("{what} to_slice err {}", rerr(&e)));
            Win::Det(0)
        }
    }
}

fn res<T>(r: gimli::Result<T>, f: impl FnOnce(T) -> String) -> String {
    match r {
        Ok(v) => f(v),
        Err(e) => format!("E:{}", rerr(&e)),
    }
}

fn caught<T>(f: impl FnOnce() -> T) -> Option<T> {
    catch_unwind(AssertUnwindSafe(f)).ok()
}

/// run a history on one reader kind
pub fn run_hist<R: Reader<Offset = usize>>(
    section: R,
    buf: &[u8],
    ops: &[Op],
    consulted: Option<&CountId>,
    live: Option<(&Rc<Cell<i64>>, i64)>,
) -> Run {
    run_hist_probe(section, buf, ops, consulted, live, None)
}

/// `probe` (if given) is set to `true` exactly while the operation proper executes, so that a
/// tracing reader (C18) can tell the history's own reads from the harness' observations
pub fn run_hist_probe<R: Reader<Offset = usize>>(
    section: R,
    buf: &[u8],
    ops: &[Op],
    consulted: Option<&CountId>,
    live: Option<(&Rc<Cell<i64>>, i64)>,
    probe: Option<&Cell<bool>>,
) -> Run {
    let mut problems = Vec::new();
    let base = match section.to_slice() {
        Ok(Cow::Borrowed(s)) => s.as_ptr() as usize,
        _ => 0,
    };
    let mut rs: Vec<Option<R>> = vec![Some(section.clone())];
    let mut ids: Vec<ReaderOffsetId> = Vec::new();
    let mut trace = Vec::new();
    for op in ops {
        let (i, j) = op.readers();
        let bad_id = if let Op::Lookup(_, k) = op { *k >= ids.len() } else { false };
        if bad_id || rs.get(i).map_or(true, |r| r.is_none()) || j.map_or(false, |j| rs.get(j).map_or(true, |r| r.is_none())) {
            trace.push("bad@~".to_string());
            continue;
        }
        let before = consulted.map(|c| c.0.get());
        let mut newr: Option<R> = None;
        let mut dropped = false;
        let r_text: String = {
            let other = j.map(|j| rs[j].clone().unwrap());
            let r = rs[i].as_mut().unwrap();
            let pre_off = match window(r, base, buf, &mut Vec::new(), "") {
                Win::At(o, _) => Some(o),
                _ => None,
            };
            if let Some(p) = probe {
                p.set(true);
            }
            let out = caught(|| match *op {
                Op::Fixed(_, 1) => res(r.read_u8(), |v| v.to_string()),
                Op::Fixed(_, 2) => res(r.read_u16(), |v| v.to_string()),
                Op::Fixed(_, 4) => res(r.read_u32(), |v| v.to_string()),
                Op::Fixed(_, 8) => res(r.read_u64(), |v| v.to_string()),
                Op::Fixed(_, _) => res(r.read_u128(), |v| v.to_string()),
                Op::Float(_, 4) => res(r.read_f32(), |v| v.to_bits().to_string()),
                Op::Float(_, _) => res(r.read_f64(), |v| v.to_bits().to_string()),
                Op::Signed(_, 1) => res(r.read_i8(), |v| v.to_string()),
                Op::Signed(_, 2) => res(r.read_i16(), |v| v.to_string()),
                Op::Signed(_, 4) => res(r.read_i32(), |v| v.to_string()),
                Op::Signed(_, _) => res(r.read_i64(), |v| v.to_string()),
                Op::Uint(_, n) => res(r.read_uint(n), |v| v.to_string()),
                Op::Slice(_, n) => {
                    if n > 1 << 16 {
                        // a huge buffer would only exercise the allocator; the reader sees `len < n`
                        res(r.skip(n).and(Err::<(), _>(gimli::Error::Io)), |_| "-".into())
                    } else {
                        let mut b = vec![0u8; n];
                        res(r.read_slice(&mut b), |_| format!("x{}", hex(&b)))
                    }
                }
                Op::Skip(_, n) => res(r.skip(n), |_| "-".into()),
                Op::Split(_, n) => res(r.split(n), |v| {
                    newr = Some(v);
                    "r".into()
                }),
                Op::Trunc(_, n) => res(r.truncate(n), |_| "-".into()),
                Op::Empty(_) => {
                    r.empty();
                    "-".into()
                }
                Op::Find(_, b) => res(r.find(b), |v| v.to_string()),
                Op::Clone(_) => {
                    newr = Some(r.clone());
                    "r".into()
                }
                Op::Drop(_) => {
                    dropped = true;
                    "-".into()
                }
                Op::OffFrom(..) => {
                    let o = other.as_ref().unwrap();
                    if let Some(p) = probe {
                        p.set(false);
                    }
                    let a = window(r, base, buf, &mut Vec::new(), "");
                    let b = window(o, base, buf, &mut Vec::new(), "");
                    if let Some(p) = probe {
                        p.set(true);
                    }
                    match (a, b) {
                        (Win::At(..), Win::At(..)) => format!("some{}", r.offset_from(o)),
                        _ => "det".into(),
                    }
                }
                Op::OffId(_) => {
                    let id = r.offset_id();
                    ids.push(id);
                    let a = id.0 as usize;
                    if let Some(p) = probe {
                        p.set(false);
                    }
                    let attached = !matches!(window(r, base, buf, &mut Vec::new(), ""), Win::Det(_));
                    if let Some(p) = probe {
                        p.set(true);
                    }
                    if a >= base && a <= base + buf.len() && attached {
                        format!("id{}", a - base)
                    } else {
                        "iddet".into()
                    }
                }
                Op::Lookup(_, k) => match ids.get(k) {
                    None => "bad".into(),
                    Some(id) => match r.lookup_offset_id(*id) {
                        Some(n) => format!("some{n}"),
                        None => "none".into(),
                    },
                },
                Op::Len(_) => {
                    if r.is_empty() != (r.len() == 0) {
                        "is_empty-differs".into()
                    } else {
                        r.len().to_string()
                    }
                }
                Op::ToSlice(_) => res(r.to_slice(), |v| format!("x{}", hex(&v))),
                Op::ToStr(_) => res(r.to_string(), |v| format!("x{}", hex(v.as_bytes()))),
                Op::ToLossy(_) => res(r.to_string_lossy(), |v| match v {
                    Cow::Borrowed(s) => format!("b{}", hex(s.as_bytes())),
                    Cow::Owned(s) => format!("o{}", hex(s.as_bytes())),
                }),
                Op::Nts(_) => res(r.read_null_terminated_slice(), |v| {
                    newr = Some(v);
                    "r".into()
                }),
                Op::Uleb(_) => res(r.read_uleb128(), |v| v.to_string()),
                Op::Sleb(_) => res(r.read_sleb128(), |v| v.to_string()),
                Op::Uleb32(_) => res(r.read_uleb128_u32(), |v| v.to_string()),
                Op::Uleb16(_) => res(r.read_uleb128_u16(), |v| v.to_string()),
                Op::SkipLeb(_) => res(r.skip_leb128(), |_| "-".into()),
                Op::InitLen(_) => res(r.read_initial_length(), |(n, f)| format!("{n}/{}", if f == Format::Dwarf64 { 64 } else { 32 })),
                Op::AddrSize(_) => res(r.read_address_size(), |v| v.to_string()),
                Op::Addr(_, n) => res(r.read_address(n), |v| v.to_string()),
                Op::Word(_, f) => {
                    let mut c = r.clone();
                    let a = r.read_word(f);
                    let b = c.read_length(f);
                    if format!("{a:?}") != format!("{b:?}") {
                        "read_length-differs".into()
                    } else {
                        res(a, |v| v.to_string())
                    }
                }
                Op::Offset(_, f) => res(r.read_offset(f), |v| v.to_string()),
                Op::SizedOff(_, n) => res(r.read_sized_offset(n), |v| v.to_string()),
            });
            if let Some(p) = probe {
                p.set(false);
            }
            let text = out.unwrap_or_else(|| "P".to_string());
            // zero-copy / pointer-range oracles on what the operation handed back
            match *op {
                Op::ToSlice(_) => {
                    if let Ok(Cow::Owned(_)) = r.to_slice() {
                        problem(&mut problems, "copied", format!("{op:?}"));
                    }
                }
                Op::ToStr(_) => match r.to_string() {
                    Ok(Cow::Owned(_)) => problem(&mut problems, "copied", format!("{op:?}")),
                    Ok(Cow::Borrowed(s)) => {
                        let p = s.as_ptr() as usize;
                        if !(p >= base && p + s.len() <= base + buf.len()) {
                            problem(&mut problems, "outside-buffer", format!("{op:?}"));
                        }
                    }
                    _ => {}
                },
                Op::ToLossy(_) => {
                    if let (Ok(Cow::Owned(_)), Ok(_)) = (r.to_string_lossy(), r.to_string()) {
                        problem(&mut problems, "copied", format!("{op:?} valid utf-8"));
                    }
                }
                _ => {}
            }
            // relocation consulted exactly by successful relocatable reads, with the reader's offset
            if let (Some(c), Some(b)) = (consulted, before) {
                let d = c.0.get() - b;
                let success = !text.starts_with("E:") && text != "P";
                let expect = if op.relocatable() && success { 1 } else { 0 };
                if d != expect {
                    problem(&mut problems, "reloc-consulted", format!("{op:?} consulted {d}x expected {expect}"));
                } else if d == 1 {
                    let (off, val) = c.1.get();
                    if Some(off as usize) != pre_off || text != val.to_string() {
                        problem(&mut problems, "reloc-consulted", format!("{op:?} with offset {off} value {val}, reader was at {pre_off:?}, result {text}"));
                    }
                }
            }
            text
        };
        if dropped {
            rs[i] = None;
            trace.push(format!("{r_text}@~"));
        } else {
            let r = rs[i].as_ref().unwrap();
            let w = window(r, base, buf, &mut problems, "target");
            if let Win::Det(_) = w {
                problem(&mut problems, "outside-buffer", format!("reader {i} after {op:?}"));
            } else if let Win::At(o, _) = w {
                // offset_from(section) must be the pointer difference
                match caught(|| r.offset_from(&section)) {
                    Some(v) if v == o => {}
                    other => problem(&mut problems, "offset-from", format!("reader {i} after {op:?}: {other:?} vs {o}")),
                }
                // ids resolve against the section to the position they came from
                if section.lookup_offset_id(r.offset_id()) != Some(o) {
                    problem(&mut problems, "offset-id", format!("reader {i} after {op:?}"));
                }
            }
            let mut t = format!("{r_text}@{}", w.render());
            if let Some(n) = newr {
                let wn = window(&n, base, buf, &mut problems, "returned");
                if let Win::Det(_) = wn {
                    problem(&mut problems, "outside-buffer", format!("reader returned by {op:?}"));
                }
                t.push('>');
                t.push_str(&wn.render());
                rs.push(Some(n));
            }
            trace.push(t);
        }
        if let Some((live, per_reader)) = live {
            let expect = per_reader * (1 + rs.iter().filter(|r| r.is_some()).count() as i64);
            if live.get() != expect {
                problem(&mut problems, "handle-leak", format!("after {op:?}: {} live handles, expected {expect}", live.get()));
            }
        }
    }
    // drop in a scrambled order: odd indices first, then the rest, the section last
    let n = rs.len();
    for k in (0..n).filter(|k| k % 2 == 1).chain((0..n).filter(|k| k % 2 == 0)) {
        rs[k] = None;
    }
    drop(section);
    if let Some((live, _)) = live {
        if live.get() != 0 {
            problem(&mut problems, "handle-leak", format!("{} live handles after dropping every reader", live.get()));
        }
    }
    Run { trace, problems }
}

fn endian(s: &str) -> Option<RunTimeEndian> {
    match s {
        "le" => Some(RunTimeEndian::Little),
        "be" => Some(RunTimeEndian::Big),
        _ => None,
    }
}

/// positions at which two traces differ
fn diff_positions(a: &[String], b: &[String]) -> Vec<usize> {
    (0..a.len().max(b.len())).filter(|&k| a.get(k) != b.get(k)).collect()
}

pub fn handle(op: &str, a: &[&str]) -> Option<String> {
    match (op, a) {
        ("rd-hist", [_mode, e, h, rest @ ..]) => {
            let e = endian(e)?;
            let bytes = unhex(h)?;
            let ops: Vec<Op> = rest.iter().map(|t| parse_op(t)).collect::<Option<Vec<_>>>()?;
            // every kind over its own copy of the section, each a real heap allocation
            let mut v = Vec::with_capacity(bytes.len().max(1));
            v.extend_from_slice(&bytes);
            let slice = run_hist(EndianSlice::new(&v[..], e), &v, &ops, None, None);
            let rc: Rc<[u8]> = Rc::from(&bytes[..]);
            let shared = run_hist(EndianRcSlice::new(rc.clone(), e), &rc, &ops, None, None);
            let arc: Arc<[u8]> = Arc::from(&bytes[..]);
            let arcr = run_hist(EndianArcSlice::new(arc.clone(), e), &arc, &ops, None, None);
            let live = Rc::new(Cell::new(0i64));
            let cb = Custom::new(&bytes, live.clone());
            let cbuf: Rc<Vec<u8>> = cb.data.clone();
            let custom = run_hist(EndianReader::new(cb, e), &cbuf, &ops, None, Some((&live, 1)));
            let cnt = CountId(Rc::new(Cell::new(0)), Rc::new(Cell::new((0, 0))));
            let rslice = run_hist(RelocateReader::new(EndianSlice::new(&v[..], e), cnt.clone()), &v, &ops, Some(&cnt), None);
            let cnt2 = CountId(Rc::new(Cell::new(0)), Rc::new(Cell::new((0, 0))));
            let rshared = run_hist(RelocateReader::new(EndianRcSlice::new(rc.clone(), e), cnt2.clone()), &rc, &ops, Some(&cnt2), None);

            let mut out = format!("ok {}", shared.trace.join(" "));
            let mut oracle: Option<String> = None;
            let note = |o: &mut Option<String>, s: String| {
                if o.is_none() {
                    *o = Some(s);
                }
            };
            for (name, r) in [("arc", &arcr), ("custom", &custom)] {
                if r.trace != shared.trace {
                    let k = diff_positions(&r.trace, &shared.trace)[0];
                    note(&mut oracle, format!("kinds-differ {name} vs rc at op {k}: {:?} vs {:?}", r.trace.get(k), shared.trace.get(k)));
                }
            }
            for (name, r) in [("slice", &slice), ("rslice", &rslice), ("rshared", &rshared)] {
                if r.trace != shared.trace {
                    out.push_str(&format!(" ~{name} {}", r.trace.join(" ")));
                    let k = diff_positions(&r.trace, &shared.trace)[0];
                    note(&mut oracle, format!("kinds-differ {name} vs rc at op {k}: {:?} vs {:?}", r.trace.get(k), shared.trace.get(k)));
                }
            }
            for r in [&slice, &shared, &arcr, &custom, &rslice, &rshared] {
                if let Some(p) = r.problems.first() {
                    note(&mut oracle, p.clone());
                }
            }
            if let Some(o) = oracle {
                out.push_str(" #oracle:");
                out.push_str(&o);
            }
            Some(out)
        }
        ("rd-parse", [e, version, format, address_size, seed, mutate]) => {
            // whole sections written by gimli::write (units, line programs, range/location lists,
            // frame tables), optionally damaged, parsed and dumped under every reader kind
            use super::c18::{dump, load, write_plain, Counts, Env, Recipe, SECS};
            let e = endian(e)?;
            let rc = Recipe {
                e,
                version: version.parse().ok()?,
                format: match *format {
                    "32" => Format::Dwarf32,
                    "64" => Format::Dwarf64,
                    _ => return None,
                },
                address_size: address_size.parse().ok()?,
                seed: seed.parse().ok()?,
                eh_enc: 0,
                what: "all".into(),
            };
            let mutate: u64 = mutate.parse().ok()?;
            let env = Env { syms: vec![0x1000, 0x20000, 0x30000, 0x40000], secs: vec![] };
            let mut secs = match write_plain(&rc, &env) {
                Ok(s) => s,
                Err(x) => return Some(format!("normal i0 e1 c0 write:{x}")),
            };
            if mutate != 0 {
                // damage: truncate one section and overwrite a few bytes, derived from `mutate`
                let mut rng = Rng::new(mutate);
                for _ in 0..(1 + rng.below(3)) {
                    let k = rng.below(secs.len() as u64) as usize;
                    if secs[k].is_empty() {
                        continue;
                    }
                    if rng.chance(1, 2) {
                        let n = rng.below(secs[k].len() as u64) as usize;
                        secs[k].truncate(n);
                    } else {
                        let at = rng.below(secs[k].len() as u64) as usize;
                        secs[k][at] = *rng.pick(&[0u8, 0xff, 0x80, 0x7f, 1]);
                    }
                }
            }
            let asz = rc.address_size;
            let empty: &[u8] = &[];
            let mut dumps: Vec<(&str, String)> = Vec::new();
            let mut cnt = Counts { items: 0, errors: 0 };
            let mut panicked: Vec<&str> = Vec::new();
            macro_rules! kind {
                ($name:expr, $mk:expr) => {{
                    let r = caught(|| {
                        let (d, f, eh) = load(asz, &$mk);
                        let mut c = Counts { items: 0, errors: 0 };
                        let s = dump(&d, &f, &eh, &mut c);
                        (s, c.items, c.errors)
                    });
                    match r {
                        Some((s, i, er)) => {
                            cnt.items += i;
                            cnt.errors += er;
                            dumps.push(($name, s));
                        }
                        None => panicked.push($name),
                    }
                }};
            }
            kind!("slice", |i: usize| EndianSlice::new(if i < SECS.len() { &secs[i][..] } else { empty }, e));
            let rcs: Vec<Rc<[u8]>> = secs.iter().map(|s| Rc::from(&s[..])).collect();
            let rc_empty: Rc<[u8]> = Rc::from(empty);
            kind!("rc", |i: usize| EndianRcSlice::new(if i < SECS.len() { rcs[i].clone() } else { rc_empty.clone() }, e));
            let arcs: Vec<Arc<[u8]>> = secs.iter().map(|s| Arc::from(&s[..])).collect();
            let arc_empty: Arc<[u8]> = Arc::from(empty);
            kind!("arc", |i: usize| EndianArcSlice::new(if i < SECS.len() { arcs[i].clone() } else { arc_empty.clone() }, e));
            let live = Rc::new(Cell::new(0i64));
            {
                let customs: Vec<Custom> = secs.iter().map(|s| Custom::new(s, live.clone())).collect();
                let custom_empty = Custom::new(empty, live.clone());
                kind!("custom", |i: usize| EndianReader::new(if i < SECS.len() { customs[i].clone() } else { custom_empty.clone() }, e));
            }
            let leaked = live.get();
            let cnt1 = CountId(Rc::new(Cell::new(0)), Rc::new(Cell::new((0, 0))));
            kind!("rslice", |i: usize| RelocateReader::new(EndianSlice::new(if i < SECS.len() { &secs[i][..] } else { empty }, e), cnt1.clone()));
            let cnt2 = CountId(Rc::new(Cell::new(0)), Rc::new(Cell::new((0, 0))));
            kind!("rrc", |i: usize| RelocateReader::new(EndianRcSlice::new(if i < SECS.len() { rcs[i].clone() } else { rc_empty.clone() }, e), cnt2.clone()));
            let mut out = format!("normal i{} e{} c{}", cnt.items, cnt.errors, dumps.len());
            let mut oracle: Option<String> = None;
            if leaked != 0 {
                oracle = Some(format!("handle-leak {leaked} handles of the custom buffer alive after the parse"));
            }
            if let Some((n0, d0)) = dumps.first() {
                for (n, d) in &dumps[1..] {
                    if d != d0 && oracle.is_none() {
                        let (l0, l1): (Vec<&str>, Vec<&str>) = (d0.lines().collect(), d.lines().collect());
                        let i = (0..l0.len().max(l1.len())).find(|&i| l0.get(i) != l1.get(i)).unwrap_or(0);
                        let cut = |s: Option<&&str>| s.map(|s| s.chars().take(160).collect::<String>()).unwrap_or_default();
                        oracle = Some(format!("kinds-differ-parse {n} vs {n0}: `{}` vs `{}`", cut(l1.get(i)), cut(l0.get(i))));
                    }
                }
            }
            if !panicked.is_empty() && oracle.is_none() {
                // a panic under some kinds only is a difference between kinds; under all kinds it is C01's business
                let class = if panicked.len() == 6 { "parse-panics" } else { "kinds-differ-parse" };
                oracle = Some(format!("{class} panic under {}", panicked.join(",")));
            }
            if let Some(o) = oracle {
                out.push_str(" #oracle:");
                out.push_str(&o);
            }
            Some(out)
        }
        ("rd-utf8", [h]) => {
            let bs = unhex(h)?;
            let v = std::str::from_utf8(&bs).is_ok();
            Some(format!("ok {} {}", if v { "valid" } else { "invalid" }, hex(String::from_utf8_lossy(&bs).as_bytes())))
        }
        _ => None,
    }
}

// ---------------------------------------------------------------------------------------------
// generator
// ---------------------------------------------------------------------------------------------
fn leb_u(v: u64) -> Vec<u8> {
    gimli::leb128::write::Leb128::unsigned(v).bytes().to_vec()
}
fn leb_s(v: i64) -> Vec<u8> {
    gimli::leb128::write::Leb128::signed(v).bytes().to_vec()
}

/// a section with things worth reading in it
fn gen_section(rng: &mut Rng) -> Vec<u8> {
    let mut s = Vec::new();
    let parts = if rng.chance(1, 20) { 0 } else { 1 + rng.below(10) };
    for _ in 0..parts {
        match rng.below(10) {
            0 => s.extend(leb_u(rng.boundary_u64())),
            1 => s.extend(leb_s(rng.boundary_i64())),
            2 => {
                s.extend_from_slice(*rng.pick(&[&b"abc"[..], b"", b"h\xc3\xa9llo", b"\xf0\x9f\x98\x80", b"\xff\xfe", b"a\xe2\x82", b"\xed\xa0\x80x", b"\xc0\xaf"]));
                s.push(0);
            }
            3 => s.extend_from_slice(&[0xff, 0xff, 0xff, 0xff]),
            4 => s.extend_from_slice(*rng.pick(&[&[0xf0u8, 0xff, 0xff, 0xff][..], &[0xff, 0xff, 0xff, 0xf0], &[0xef, 0xff, 0xff, 0xff]])),
            5 => s.push(*rng.pick(&[1u8, 2, 4, 8, 0, 3])),
            6 => s.extend(vec![0x80u8 | rng.next() as u8; rng.below(12) as usize]),
            7 => s.push(0),
            _ => s.extend(rng.bytes_below(9)),
        }
    }
    s
}

fn gen_len(rng: &mut Rng, cur: usize) -> u64 {
    match rng.below(12) {
        0..=5 => rng.below(cur as u64 + 1),
        6 => cur as u64,
        7 => cur as u64 + 1,
        8 => 0,
        9 => cur as u64 + 1 + rng.below(4),
        10 => *rng.pick(&[u64::MAX, u64::MAX / 2, 1 << 32, usize::MAX as u64 - 1]),
        _ => rng.below(4),
    }
}

/// one random operation on a table of `n` readers (0 = the section clone), `nid` ids taken
fn gen_op(rng: &mut Rng, n: usize, nid: usize, seclen: usize, allow_empty: bool, allow_panic: bool) -> String {
    let i = if rng.chance(1, 40) { n + rng.below(2) as usize } else { rng.below(n as u64) as usize };
    let len = gen_len(rng, seclen / 2 + 1);
    match rng.below(44) {
        0 => format!("u8:{i}"),
        1 => format!("u16:{i}"),
        2 => format!("u32:{i}"),
        3 => format!("u64:{i}"),
        4 => format!("u128:{i}"),
        5 => format!("{}:{i}", rng.pick(&["i8", "i16", "i32", "i64", "f32", "f64"])),
        6 => format!("uint:{i}:{}", if allow_panic && rng.chance(1, 30) { 9 + rng.below(3) } else { rng.below(9) }),
        7 | 8 => format!("slice:{i}:{}", if rng.chance(1, 20) { len } else { len.min(40) }),
        9 | 10 => format!("skip:{i}:{len}"),
        11..=14 => format!("split:{i}:{len}"),
        15 | 16 => format!("trunc:{i}:{len}"),
        17 => {
            if allow_empty {
                format!("empty:{i}")
            } else {
                format!("trunc:{i}:0")
            }
        }
        18 | 19 => format!("find:{i}:{}", if rng.chance(1, 2) { 0 } else { rng.next() & 0xff }),
        20 | 21 => format!("clone:{i}"),
        22 => format!("drop:{i}"),
        23 | 24 => {
            // offset_from: mostly against the section clone / an ancestor; out-of-range pairs rarely
            let j = if rng.chance(4, 5) { 0 } else { rng.below(n as u64) as usize };
            if !allow_panic && j != 0 {
                format!("offfrom:{i}:0")
            } else {
                format!("offfrom:{i}:{j}")
            }
        }
        25 | 26 => format!("offid:{i}"),
        27 | 28 => {
            if nid == 0 || rng.chance(1, 12) {
                // nothing to look up yet (rarely: an id that does not exist)
                if nid == 0 && rng.chance(9, 10) { format!("offid:{i}") } else { format!("lookup:{i}:{nid}") }
            } else {
                format!("lookup:{i}:{}", rng.below(nid as u64))
            }
        }
        29 => format!("len:{i}"),
        30 => format!("toslice:{i}"),
        31 => format!("tostr:{i}"),
        32 => format!("tolossy:{i}"),
        33 | 34 => format!("nts:{i}"),
        35 => format!("uleb:{i}"),
        36 => format!("sleb:{i}"),
        37 => format!("{}:{i}", rng.pick(&["uleb32", "uleb16", "skipleb"])),
        38 => format!("initlen:{i}"),
        39 => format!("addrsize:{i}"),
        40 => format!("addr:{i}:{}", rng.pick(&[1u32, 2, 4, 8, 8, 4, 0, 3, 16, 255])),
        41 => format!("word:{i}:{}", rng.pick(&[32, 64])),
        42 => format!("off:{i}:{}", rng.pick(&[32, 64])),
        _ => format!("sizedoff:{i}:{}", rng.pick(&[1u32, 2, 4, 8, 4, 8, 0, 5, 255])),
    }
}

/// the generator's own table of readers: the state changes of a history, executed on a real
/// reader as the history is generated, so that most operations address a live reader
struct GenTable {
    rs: Vec<Option<EndianRcSlice<RunTimeEndian>>>,
    nid: usize,
}
impl GenTable {
    fn live(&self) -> Vec<usize> {
        (0..self.rs.len()).filter(|i| self.rs[*i].is_some()).collect()
    }
    fn apply(&mut self, op: &Op) {
        let (i, j) = op.readers();
        if self.rs.get(i).map_or(true, |r| r.is_none()) || j.map_or(false, |j| self.rs.get(j).map_or(true, |r| r.is_none())) {
            return;
        }
        let mut newr = None;
        {
            let r = self.rs[i].as_mut().unwrap();
            match *op {
                Op::Fixed(_, n) | Op::Signed(_, n) | Op::Float(_, n) => {
                    let _ = r.skip(n as usize);
                }
                Op::Uint(_, n) if n <= 8 => {
                    let _ = r.read_uint(n);
                }
                Op::Slice(_, n) | Op::Skip(_, n) => {
                    let _ = r.skip(n);
                }
                Op::Split(_, n) => newr = r.split(n).ok(),
                Op::Trunc(_, n) => {
                    let _ = r.truncate(n);
                }
                Op::Empty(_) => r.empty(),
                Op::Clone(_) => newr = Some(r.clone()),
                Op::OffId(_) => self.nid += 1,
                Op::Nts(_) => newr = r.read_null_terminated_slice().ok(),
                Op::Uleb(_) => {
                    let _ = r.read_uleb128();
                }
                Op::Sleb(_) => {
                    let _ = r.read_sleb128();
                }
                Op::Uleb32(_) => {
                    let _ = r.read_uleb128_u32();
                }
                Op::Uleb16(_) => {
                    let _ = r.read_uleb128_u16();
                }
                Op::SkipLeb(_) => {
                    let _ = r.skip_leb128();
                }
                Op::InitLen(_) => {
                    let _ = r.read_initial_length();
                }
                Op::AddrSize(_) => {
                    let _ = r.read_address_size();
                }
                Op::Addr(_, n) => {
                    let _ = r.read_address(n);
                }
                Op::Word(_, f) | Op::Offset(_, f) => {
                    let _ = r.read_word(f);
                }
                Op::SizedOff(_, n) => {
                    let _ = r.read_sized_offset(n);
                }
                _ => {}
            }
        }
        if let Op::Drop(_) = op {
            self.rs[i] = None;
        }
        if let Some(n) = newr {
            self.rs.push(Some(n));
        }
    }
}

pub fn gen_history(rng: &mut Rng, sec: &[u8], nops: usize, allow_empty: bool, allow_panic: bool) -> String {
    let rc: Rc<[u8]> = Rc::from(sec);
    let mut tab = GenTable { rs: vec![Some(EndianRcSlice::new(rc, RunTimeEndian::Little))], nid: 0 };
    let mut toks: Vec<String> = Vec::new();
    for _ in 0..nops {
        let live = tab.live();
        let n = tab.rs.len();
        let mut t = gen_op(rng, n, tab.nid, sec.len(), allow_empty, allow_panic);
        // re-aim 9 of 10 operations that hit a dropped reader, and most drops of reader 0
        if let Some(op) = parse_op(&t) {
            let (i, _) = op.readers();
            let dead = i < n && !live.contains(&i);
            let drop0 = matches!(op, Op::Drop(0));
            if ((dead && rng.chance(9, 10)) || (drop0 && rng.chance(4, 5))) && !live.is_empty() {
                let j = *rng.pick(&live);
                let mut p: Vec<String> = t.split(':').map(|x| x.to_string()).collect();
                p[1] = if drop0 && j == 0 && live.len() > 1 { live[1].to_string() } else { j.to_string() };
                t = p.join(":");
            }
        }
        // keep at least one reader alive in 19 of 20 histories
        if let Some(Op::Drop(i)) = parse_op(&t) {
            if live.len() == 1 && live[0] == i && rng.chance(19, 20) {
                t = format!("clone:{i}");
            }
        }
        if let Some(op) = parse_op(&t) {
            tab.apply(&op);
        }
        toks.push(t);
    }
    toks.join(" ")
}

pub fn gen(ctx: &Ctx, emit: &mut dyn FnMut(String)) {
    let mut rng = ctx.rng(10);
    let thorough = ctx.tier == Tier::Thorough;
    // ---- exhaustive short histories: every pair (thorough: triple) of operations from a small
    // alphabet with in-range, boundary and out-of-range arguments, on a fixed 6-byte section
    let sec = "0180ff00e803";
    let alpha: Vec<String> = {
        let mut a = Vec::new();
        for n in [0u64, 1, 3, 6, 7, u64::MAX] {
            a.push(format!("split:0:{n}"));
            a.push(format!("skip:0:{n}"));
            a.push(format!("trunc:0:{n}"));
        }
        for n in [0u64, 2, 7] {
            a.push(format!("slice:0:{n}"));
            a.push(format!("split:1:{n}"));
            a.push(format!("skip:1:{n}"));
        }
        for t in [
            "u8:0", "u16:0", "u32:1", "u64:0", "uleb:0", "sleb:1", "uleb16:0", "skipleb:0", "nts:0", "nts:1", "find:0:0", "find:1:255", "clone:0", "clone:1", "empty:0",
            "empty:1", "drop:1", "drop:0", "offfrom:0:0", "offfrom:1:0", "offfrom:0:1", "offid:0", "offid:1", "lookup:0:0", "lookup:1:0", "toslice:0", "toslice:1",
            "tostr:1", "tolossy:0", "len:1", "addr:0:4", "addr:1:2", "off:0:32", "sizedoff:1:1", "sizedoff:0:3", "initlen:0", "addrsize:0", "uint:0:3", "word:0:64",
        ] {
            a.push(t.to_string());
        }
        a
    };
    for x in &alpha {
        emit(format!("rd-hist @MODE@ le {sec} {x}"));
        for y in &alpha {
            emit(format!("rd-hist @MODE@ le {sec} {x} {y} offid:0 len:1"));
        }
    }
    let triples = ctx.n(3000, 60_000);
    for _ in 0..triples {
        let (x, y, z, w) = (rng.pick(&alpha), rng.pick(&alpha), rng.pick(&alpha), rng.pick(&alpha));
        let e = if rng.chance(1, 2) { "le" } else { "be" };
        emit(format!("rd-hist @MODE@ {e} {sec} offid:0 {x} {y} {z} {w} lookup:0:0 toslice:0 toslice:1"));
    }
    // ---- random histories over generated sections
    let n = ctx.n(9000, 300_000);
    for k in 0..n {
        let sec = if rng.chance(1, 12) { rng.bytes_below(40) } else { gen_section(&mut rng) };
        let e = if rng.chance(1, 2) { "le" } else { "be" };
        let nops = 1 + rng.below(if thorough { 40 } else { 24 }) as usize;
        // 55 %: no `empty` and no assertion-failing offset_from (kinds must agree exactly);
        // 30 %: with `empty` (kept for the C10-1 regression); 15 %: everything incl. panicking misuse
        let (allow_empty, allow_panic) = match k % 20 {
            0..=10 => (false, false),
            11..=16 => (true, false),
            _ => (true, true),
        };
        let h = gen_history(&mut rng, &sec, nops, allow_empty, allow_panic);
        emit(format!("rd-hist @MODE@ {e} {} {h}", hex(&sec)));
    }
    // ---- whole-section parses under every kind: intact and damaged gimli::write output
    let mut k = 0u64;
    for version in [2u16, 3, 4, 5] {
        for format in ["32", "64"] {
            for asz in [4u8, 8] {
                for e in ["le", "be"] {
                    k += 1;
                    let seed = ctx.seed * 977 + k;
                    emit(format!("rd-parse {e} {version} {format} {asz} {seed} 0"));
                    for j in 0..ctx.n(12, 400) {
                        emit(format!("rd-parse {e} {version} {format} {asz} {seed} {}", 1 + rng.below(1 << 40) + j as u64));
                    }
                }
            }
        }
    }
    // ---- UTF-8 validity / lossy conversion of the Model vs the standard library
    for _ in 0..ctx.n(1500, 40_000) {
        let len = rng.below(9) as usize;
        let bs: Vec<u8> = (0..len)
            .map(|_| match rng.below(8) {
                0 => rng.next() as u8 & 0x7f,
                1 => 0x80 | (rng.next() as u8 & 0x3f),
                2 => *rng.pick(&[0xc0u8, 0xc1, 0xc2, 0xdf, 0xe0, 0xe1, 0xec, 0xed, 0xee, 0xef, 0xf0, 0xf1, 0xf3, 0xf4, 0xf5, 0xff]),
                3 => *rng.pick(&[0x80u8, 0x8f, 0x90, 0x9f, 0xa0, 0xbf]),
                _ => rng.next() as u8,
            })
            .collect();
        emit(format!("rd-utf8 {}", hex(&bs)));
    }
}
