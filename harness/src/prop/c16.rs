//! C16 — written range and location lists read back as the same lists.
//!
//! Implementation side of the `wl-unit` op (grammar: `lean/Gimli/Drv/C16.lean`): the unit is built
//! through `gimli::write` (`Unit::ranges.add` / `Unit::locations.add`, one DIE with a
//! `RangeListRef` / `LocationListRef` attribute per `add`), written into fresh `Sections`, and the
//! list sections, the ids and the offsets found in the attributes are reported — the Model
//! predicts the same line. Direct oracle (independent of the Model): the written unit is parsed
//! with `gimli::read`, every list is read back through `Dwarf::attr_ranges` / `attr_locations`
//! (and raw, through `raw_ranges` / `raw_locations`) and compared with a naive resolution of the
//! list as built; equal lists must share one id and one offset, different lists must not.
use crate::prop::Ctx;
use crate::util::{hex, unhex, werr, Rng};
use gimli::constants as k;
use gimli::read::{self, EndianSlice};
use gimli::write::{self, Address, AttributeValue, EndianVec, Expression, Sections};
use gimli::{Encoding, Format, RunTimeEndian, SectionId};

type R<'a> = EndianSlice<'a, RunTimeEndian>;

// ---------- abstract case ----------

#[derive(Clone, PartialEq, Eq, Debug)]
enum XOp {
    Raw(Vec<u8>),
    Simple(u8),
    Addr(Address),
    Constu(u64),
    Call(usize),
    Convert(Option<usize>),
    CallRef(usize),
}

type Expr = Vec<XOp>;

#[derive(Clone, PartialEq, Eq, Debug)]
enum Ent {
    Base(Address),
    OffsetPair(u64, u64, Expr),
    StartEnd(Address, Address, Expr),
    StartLength(Address, u64, Expr),
    Default(Expr),
}

struct Case {
    big: bool,
    enc: Encoding,
    low: Option<Address>,
    eoffs: Vec<u64>,
    rng: Vec<Vec<Ent>>,
    loc: Vec<Vec<Ent>>,
}

// ---------- parsing (mirrors Drv/C16.lean) ----------

fn p_u64(s: &str) -> Option<u64> {
    if s.is_empty() || !s.bytes().all(|b| b.is_ascii_digit()) {
        return None;
    }
    s.parse().ok()
}

fn p_addr(s: &str) -> Option<Address> {
    if let Some(rest) = s.strip_prefix('s') {
        let mut it = rest.split('_');
        let (sym, add) = (it.next()?, it.next()?);
        if it.next().is_some() {
            return None;
        }
        let sym = p_u64(sym)?;
        let neg = add.starts_with('-');
        let mag = p_u64(if neg { &add[1..] } else { add })? as i128;
        let add = if neg { -mag } else { mag };
        if add < i64::MIN as i128 || add > i64::MAX as i128 {
            return None;
        }
        Some(Address::Symbol { symbol: sym as usize, addend: add as i64 })
    } else {
        p_u64(s).map(Address::Constant)
    }
}

fn p_op(n: usize, s: &str) -> Option<XOp> {
    let idx = |t: &str| -> Option<usize> {
        let i = p_u64(t)? as usize;
        if i < n { Some(i) } else { None }
    };
    let (c, rest) = (s.chars().next()?, &s[1..]);
    match c {
        'x' => unhex(rest).map(XOp::Raw),
        'z' => {
            let mut it = rest.split('.');
            let (cnt, b) = (it.next()?, it.next()?);
            if it.next().is_some() {
                return None;
            }
            let cnt = p_u64(cnt)?;
            let b = unhex(b)?;
            if b.len() != 1 || cnt > 1_000_000 {
                return None;
            }
            Some(XOp::Raw(vec![b[0]; cnt as usize]))
        }
        'o' => {
            let v = p_u64(rest)?;
            if v < 256 { Some(XOp::Simple(v as u8)) } else { None }
        }
        'a' => p_addr(rest).map(XOp::Addr),
        'u' => p_u64(rest).map(XOp::Constu),
        'c' => idx(rest).map(XOp::Call),
        'v' if rest.is_empty() => Some(XOp::Convert(None)),
        'v' => idx(rest).map(|i| XOp::Convert(Some(i))),
        'r' => idx(rest).map(XOp::CallRef),
        _ => None,
    }
}

fn p_expr(n: usize, s: &str) -> Option<Expr> {
    if s == "-" {
        return Some(vec![]);
    }
    let ops: Option<Vec<XOp>> = s.split('+').map(|t| p_op(n, t)).collect();
    let ops = ops?;
    // `Operation::Raw` only exists as the single operation of `Expression::raw`
    if ops.len() > 1 && ops.iter().any(|o| matches!(o, XOp::Raw(_))) {
        return None;
    }
    Some(ops)
}

fn p_entry(n: usize, s: &str) -> Option<Ent> {
    let mut it = s.split(':');
    let (tag, body) = (it.next()?, it.next()?);
    if it.next().is_some() {
        return None;
    }
    let f: Vec<&str> = body.split(',').collect();
    match (tag, &f[..]) {
        ("B", [a]) => Some(Ent::Base(p_addr(a)?)),
        ("OP", [b, e, x]) => Some(Ent::OffsetPair(p_u64(b)?, p_u64(e)?, p_expr(n, x)?)),
        ("SE", [b, e, x]) => Some(Ent::StartEnd(p_addr(b)?, p_addr(e)?, p_expr(n, x)?)),
        ("SL", [b, l, x]) => Some(Ent::StartLength(p_addr(b)?, p_u64(l)?, p_expr(n, x)?)),
        ("DL", [x]) => Some(Ent::Default(p_expr(n, x)?)),
        _ => None,
    }
}

fn p_list(n: usize, s: &str) -> Option<Vec<Ent>> {
    if s == "." {
        return Some(vec![]);
    }
    s.split(';').map(|t| p_entry(n, t)).collect()
}

fn p_lists(n: usize, s: &str) -> Option<Vec<Vec<Ent>>> {
    if s == "-" {
        return Some(vec![]);
    }
    s.split('|').map(|t| p_list(n, t)).collect()
}

fn p_cfg(s: &str) -> Option<(bool, Encoding)> {
    let f: Vec<&str> = s.split(',').collect();
    if f.len() != 4 {
        return None;
    }
    let big = match f[0] {
        "le" => false,
        "be" => true,
        _ => return None,
    };
    let a = p_u64(f[1])?;
    let format = match f[2] {
        "32" => Format::Dwarf32,
        "64" => Format::Dwarf64,
        _ => return None,
    };
    let v = p_u64(f[3])?;
    if a >= 256 || v >= 65536 {
        return None;
    }
    Some((big, Encoding { format, version: v as u16, address_size: a as u8 }))
}

fn rng_ok(e: &Ent) -> bool {
    match e {
        Ent::Base(_) => true,
        Ent::OffsetPair(_, _, x) | Ent::StartEnd(_, _, x) | Ent::StartLength(_, _, x) => x.is_empty(),
        Ent::Default(_) => false,
    }
}

fn parse_case(a: &[&str]) -> Option<Case> {
    let [c, low, eoffs, rl, ll] = a else { return None };
    let (big, enc) = p_cfg(c)?;
    let low = if *low == "-" { None } else { Some(p_addr(low)?) };
    let eoffs: Vec<u64> = if *eoffs == "-" { vec![] } else { eoffs.split(',').map(p_u64).collect::<Option<_>>()? };
    let rng = p_lists(eoffs.len(), rl)?;
    let loc = p_lists(eoffs.len(), ll)?;
    if !rng.iter().all(|l| l.iter().all(rng_ok)) {
        return None;
    }
    Some(Case { big, enc, low, eoffs, rng, loc })
}

// ---------- building through gimli::write ----------

struct Built {
    rids: Vec<write::RangeListId>,
    lids: Vec<write::LocationListId>,
}

fn build_expr(x: &Expr, unit: write::UnitId, bases: &[write::UnitEntryId]) -> Expression {
    if let [XOp::Raw(bs)] = &x[..] {
        return Expression::raw(bs.clone());
    }
    let mut e = Expression::new();
    for op in x {
        match op {
            XOp::Raw(_) => unreachable!(),
            XOp::Simple(o) => e.op(gimli::DwOp(*o)),
            XOp::Addr(a) => e.op_addr(*a),
            XOp::Constu(v) => e.op_constu(*v),
            XOp::Call(i) => e.op_call(bases[*i]),
            XOp::Convert(b) => e.op_convert(b.map(|i| bases[i])),
            XOp::CallRef(i) => e.op_call_ref(write::DebugInfoRef::Entry(unit, bases[*i])),
        }
    }
    e
}

fn build(dwarf: &mut write::Dwarf, c: &Case) -> Built {
    let uid = dwarf.units.add(write::Unit::new(c.enc, write::LineProgram::none()));
    let unit = dwarf.units.get_mut(uid);
    let root = unit.root();
    if let Some(low) = c.low {
        unit.get_mut(root).set(k::DW_AT_low_pc, AttributeValue::Address(low));
    }
    // the DIEs expressions refer to: base types, first children of the root
    let mut bases = Vec::new();
    for i in 0..c.eoffs.len() {
        let id = unit.add(root, k::DW_TAG_base_type);
        unit.get_mut(id).set(k::DW_AT_byte_size, AttributeValue::Data1(i as u8));
        bases.push(id);
    }
    let mut rids = Vec::new();
    for l in &c.rng {
        let list = write::RangeList(
            l.iter()
                .map(|e| match e {
                    Ent::Base(a) => write::Range::BaseAddress { address: *a },
                    Ent::OffsetPair(b, e, _) => write::Range::OffsetPair { begin: *b, end: *e },
                    Ent::StartEnd(b, e, _) => write::Range::StartEnd { begin: *b, end: *e },
                    Ent::StartLength(b, l, _) => write::Range::StartLength { begin: *b, length: *l },
                    Ent::Default(_) => unreachable!(),
                })
                .collect(),
        );
        let id = unit.ranges.add(list);
        let die = unit.add(root, k::DW_TAG_lexical_block);
        unit.get_mut(die).set(k::DW_AT_ranges, AttributeValue::RangeListRef(id));
        rids.push(id);
    }
    let mut lids = Vec::new();
    for l in &c.loc {
        let list = write::LocationList(
            l.iter()
                .map(|e| match e {
                    Ent::Base(a) => write::Location::BaseAddress { address: *a },
                    Ent::OffsetPair(b, e, x) => write::Location::OffsetPair { begin: *b, end: *e, data: build_expr(x, uid, &bases) },
                    Ent::StartEnd(b, e, x) => write::Location::StartEnd { begin: *b, end: *e, data: build_expr(x, uid, &bases) },
                    Ent::StartLength(b, l, x) => write::Location::StartLength { begin: *b, length: *l, data: build_expr(x, uid, &bases) },
                    Ent::Default(x) => write::Location::DefaultLocation { data: build_expr(x, uid, &bases) },
                })
                .collect(),
        );
        let id = unit.locations.add(list);
        let die = unit.add(root, k::DW_TAG_variable);
        unit.get_mut(die).set(k::DW_AT_location, AttributeValue::LocationListRef(id));
        lids.push(id);
    }
    Built { rids, lids }
}

/// ids as dense numbers in order of first appearance (= the `IndexSet` index)
fn dense<T: PartialEq>(ids: &[T]) -> Vec<usize> {
    let mut distinct: Vec<&T> = Vec::new();
    ids.iter()
        .map(|id| match distinct.iter().position(|d| *d == id) {
            Some(p) => p,
            None => {
                distinct.push(id);
                distinct.len() - 1
            }
        })
        .collect()
}

fn nums<T: ToString>(v: &[T]) -> String {
    if v.is_empty() { "-".into() } else { v.iter().map(|x| x.to_string()).collect::<Vec<_>>().join(",") }
}

// ---------- the direct oracle ----------

fn mask(asz: u8) -> u64 {
    // sizes outside 1..8 never reach the oracle (the writer rejects them); clamp for the generator
    let asz = asz.clamp(1, 8);
    if asz >= 8 { u64::MAX } else { (1u64 << (8 * asz as u32)) - 1 }
}

fn konst(a: &Address) -> Option<u64> {
    match a {
        Address::Constant(v) => Some(*v),
        _ => None,
    }
}

/// the ranges the list as built denotes relative to the unit's base address (DWARF 5 §2.17.3 /
/// §2.6.2), naively: sums modulo 2^(8·size); entries that denote nothing (empty, inverted, at a
/// tombstone address -1/-2, relative to a tombstone base) are dropped, as in C08's Spec.
/// The `usize` is the index of the entry in the list (to find its expression).
fn naive_resolve(asz: u8, base0: u64, l: &[Ent]) -> Option<Vec<(u64, u64, usize)>> {
    let m = mask(asz) as u128;
    let tomb = (m - 1) as u64;
    let mut base = base0;
    let mut out = Vec::new();
    for (i, e) in l.iter().enumerate() {
        let (b, e, rel) = match e {
            Ent::Base(a) => {
                base = konst(a)?;
                continue;
            }
            Ent::OffsetPair(b, e, _) => (((base as u128 + *b as u128) & m) as u64, ((base as u128 + *e as u128) & m) as u64, true),
            Ent::StartEnd(b, e, _) => (konst(b)?, konst(e)?, false),
            Ent::StartLength(b, len, _) => {
                let b = konst(b)?;
                (b, ((b as u128 + *len as u128) & m) as u64, false)
            }
            Ent::Default(_) => (0, u64::MAX, false),
        };
        if rel && base >= tomb {
            continue;
        }
        if b >= tomb || b >= e {
            continue;
        }
        out.push((b, e, i));
    }
    Some(out)
}

fn put_uint(out: &mut Vec<u8>, big: bool, size: usize, v: u64) {
    let le = v.to_le_bytes();
    if big {
        out.extend(le[..size].iter().rev());
    } else {
        out.extend(&le[..size]);
    }
}

fn put_uleb(out: &mut Vec<u8>, mut v: u64) {
    loop {
        let b = (v & 0x7f) as u8;
        v >>= 7;
        if v == 0 {
            out.push(b);
            return;
        }
        out.push(b | 0x80);
    }
}

/// the bytes an expression as built stands for (DWARF 5 §2.5 / §7.7.1), `actual` = the unit offsets
/// of the referenced DIEs as found in the written `.debug_info`
fn naive_expr(c: &Case, ustart: u64, actual: &[u64], x: &Expr) -> Option<Vec<u8>> {
    let mut o = Vec::new();
    let w = if c.enc.format == Format::Dwarf64 { 8 } else { 4 };
    for op in x {
        match op {
            XOp::Raw(bs) => o.extend(bs),
            XOp::Simple(b) => o.push(*b),
            XOp::Addr(a) => {
                o.push(0x03);
                put_uint(&mut o, c.big, c.enc.address_size as usize, konst(a)?);
            }
            XOp::Constu(v) => {
                if *v < 32 {
                    o.push(0x30 + *v as u8);
                } else {
                    o.push(0x10);
                    put_uleb(&mut o, *v);
                }
            }
            XOp::Call(i) => {
                o.push(0x99);
                put_uint(&mut o, c.big, 4, *actual.get(*i)?);
            }
            XOp::Convert(b) => {
                o.push(if c.enc.version >= 5 { 0xa8 } else { 0xf7 });
                match b {
                    None => o.push(0),
                    Some(i) => put_uleb(&mut o, *actual.get(*i)?),
                }
            }
            XOp::CallRef(i) => {
                o.push(0x9a);
                // a `.debug_info` offset: the unit's offset + the DIE's unit offset
                put_uint(&mut o, c.big, w, ustart + *actual.get(*i)?);
            }
        }
    }
    Some(o)
}

fn expr_of(e: &Ent) -> Option<&Expr> {
    match e {
        Ent::Base(_) => None,
        Ent::OffsetPair(_, _, x) | Ent::StartEnd(_, _, x) | Ent::StartLength(_, _, x) | Ent::Default(x) => Some(x),
    }
}

/// raw entry as a canonical tuple: (kind, a, b)
fn raw_expected(c: &Case, l: &[Ent]) -> Option<Vec<(char, u64, u64)>> {
    let v5 = c.enc.version >= 5;
    l.iter()
        .map(|e| {
            Some(match e {
                Ent::Base(a) => ('B', konst(a)?, 0),
                Ent::OffsetPair(b, e, _) => (if v5 { 'O' } else { 'P' }, *b, *e),
                Ent::StartEnd(b, e, _) => (if v5 { 'E' } else { 'P' }, konst(b)?, konst(e)?),
                Ent::StartLength(b, len, _) => {
                    if v5 {
                        ('L', konst(b)?, *len)
                    } else {
                        ('P', konst(b)?, konst(b)?.checked_add(*len)?)
                    }
                }
                Ent::Default(_) => ('D', 0, 0),
            })
        })
        .collect()
}

struct ReadBack {
    ustart: u64,
    base_offs: Vec<u64>,
    roffs: Vec<u64>,
    loffs: Vec<u64>,
    oracle: Option<String>,
}

fn read_back(c: &Case, s: &Sections<EndianVec<RunTimeEndian>>, index: usize) -> Result<ReadBack, String> {
    let endian = if c.big { RunTimeEndian::Big } else { RunTimeEndian::Little };
    let dwarf: read::Dwarf<R> = read::Dwarf::load(|id| -> Result<R, ()> {
        Ok(EndianSlice::new(
            match id {
                SectionId::DebugAbbrev => s.debug_abbrev.slice(),
                SectionId::DebugInfo => s.debug_info.slice(),
                SectionId::DebugRanges => s.debug_ranges.slice(),
                SectionId::DebugRngLists => s.debug_rnglists.slice(),
                SectionId::DebugLoc => s.debug_loc.slice(),
                SectionId::DebugLocLists => s.debug_loclists.slice(),
                SectionId::DebugStr => s.debug_str.slice(),
                SectionId::DebugLineStr => s.debug_line_str.slice(),
                SectionId::DebugLine => s.debug_line.slice(),
                _ => &[],
            },
            endian,
        ))
    })
    .map_err(|_| "load".to_string())?;
    let mut headers = dwarf.units();
    let mut header = None;
    for _ in 0..=index {
        header = headers.next().map_err(|e| format!("units:{e:?}"))?;
    }
    let header = header.ok_or("no-unit")?;
    let ustart = header.offset().0 as u64;
    let unit = dwarf.unit(header).map_err(|e| format!("unit:{e:?}"))?;
    let mut rb = ReadBack { ustart, base_offs: vec![], roffs: vec![], loffs: vec![], oracle: None };
    let mut rattrs = Vec::new();
    let mut lattrs = Vec::new();
    let mut cursor = unit.entries();
    let mut steps = 0;
    while let Some(die) = cursor.next_dfs().map_err(|e| format!("dfs:{e:?}"))? {
        steps += 1;
        if steps > 100_000 {
            return Err("too-many-dies".into());
        }
        match die.tag() {
            k::DW_TAG_base_type => rb.base_offs.push(die.offset().0 as u64),
            k::DW_TAG_lexical_block => {
                if let Some(v) = die.attr_value(k::DW_AT_ranges) {
                    rattrs.push(v);
                }
            }
            k::DW_TAG_variable => {
                if let Some(v) = die.attr_value(k::DW_AT_location) {
                    lattrs.push(v);
                }
            }
            _ => {}
        }
    }
    let want_base = c.low.as_ref().and_then(konst).unwrap_or(0);
    let mut fail = |class: &str, detail: String| {
        if rb.oracle.is_none() {
            rb.oracle = Some(format!("{class} {detail}"));
        }
    };
    if unit.low_pc != want_base {
        fail("unit-base", format!("low_pc={} expected={want_base}", unit.low_pc));
    }
    if rattrs.len() != c.rng.len() || lattrs.len() != c.loc.len() {
        fail("attr-count", format!("ranges {}/{} locations {}/{}", rattrs.len(), c.rng.len(), lattrs.len(), c.loc.len()));
    }
    let asz = c.enc.address_size;
    let cap = s.debug_ranges.slice().len() + s.debug_rnglists.slice().len() + s.debug_loc.slice().len() + s.debug_loclists.slice().len() + 4;
    // range lists
    for (j, v) in rattrs.iter().enumerate() {
        let Some(l) = c.rng.get(j) else { break };
        let off = match dwarf.attr_ranges_offset(&unit, *v) {
            Ok(Some(o)) => o,
            other => {
                fail("ranges-attr", format!("list={j} {other:?}"));
                continue;
            }
        };
        rb.roffs.push(off.0 as u64);
        // cooked
        let got: Result<Vec<(u64, u64)>, String> = (|| {
            let mut it = dwarf.ranges(&unit, off).map_err(|e| format!("{e:?}"))?;
            let mut out = Vec::new();
            let mut n = 0;
            while let Some(r) = it.next().map_err(|e| format!("{e:?}"))? {
                out.push((r.begin, r.end));
                n += 1;
                if n > cap {
                    return Err("no-end".into());
                }
            }
            Ok(out)
        })();
        let want = naive_resolve(asz, want_base, l).map(|v| v.into_iter().map(|(b, e, _)| (b, e)).collect::<Vec<_>>());
        match (&got, &want) {
            (Ok(g), Some(w)) if g == w => {}
            _ => fail("ranges-differ", format!("list={j} expected={want:?} got={got:?}")),
        }
        // raw
        let graw: Result<Vec<(char, u64, u64)>, String> = (|| {
            let mut it = dwarf.raw_ranges(&unit, off).map_err(|e| format!("{e:?}"))?;
            let mut out = Vec::new();
            while let Some(r) = it.next().map_err(|e| format!("{e:?}"))? {
                use read::RawRngListEntry as E;
                out.push(match r {
                    E::AddressOrOffsetPair { begin, end } => ('P', begin, end),
                    E::BaseAddress { addr } => ('B', addr, 0),
                    E::OffsetPair { begin, end } => ('O', begin, end),
                    E::StartEnd { begin, end } => ('E', begin, end),
                    E::StartLength { begin, length } => ('L', begin, length),
                    _ => ('?', 0, 0),
                });
                if out.len() > cap {
                    return Err("no-end".into());
                }
            }
            Ok(out)
        })();
        let wraw = raw_expected(c, l);
        match (&graw, &wraw) {
            (Ok(g), Some(w)) if g == w => {}
            _ => fail("raw-ranges-differ", format!("list={j} expected={wraw:?} got={graw:?}")),
        }
    }
    // location lists
    for (j, v) in lattrs.iter().enumerate() {
        let Some(l) = c.loc.get(j) else { break };
        let off = match dwarf.attr_locations_offset(&unit, *v) {
            Ok(Some(o)) => o,
            other => {
                fail("locations-attr", format!("list={j} {other:?}"));
                continue;
            }
        };
        rb.loffs.push(off.0 as u64);
        let got: Result<Vec<(u64, u64, Vec<u8>)>, String> = (|| {
            let mut it = dwarf.locations(&unit, off).map_err(|e| format!("{e:?}"))?;
            let mut out = Vec::new();
            while let Some(r) = it.next().map_err(|e| format!("{e:?}"))? {
                out.push((r.range.begin, r.range.end, r.data.0.slice().to_vec()));
                if out.len() > cap {
                    return Err("no-end".into());
                }
            }
            Ok(out)
        })();
        let want: Option<Vec<(u64, u64, Vec<u8>)>> = naive_resolve(asz, want_base, l).and_then(|v| {
            v.into_iter().map(|(b, e, i)| Some((b, e, naive_expr(c, ustart, &rb.base_offs, expr_of(&l[i])?)?))).collect()
        });
        match (&got, &want) {
            (Ok(g), Some(w)) if g == w => {}
            (Ok(g), Some(w)) if g.len() == w.len() && g.iter().zip(w.iter()).all(|(a, b)| a.0 == b.0 && a.1 == b.1) => {
                fail("expr-differ", format!("list={j}"))
            }
            _ => {
                let short = |v: &Vec<(u64, u64, Vec<u8>)>| v.iter().map(|(b, e, d)| format!("{b}..{e}:{}", d.len())).collect::<Vec<_>>().join(",");
                fail(
                    "locations-differ",
                    format!("list={j} expected={:?} got={:?}", want.as_ref().map(short), got.as_ref().map(short)),
                )
            }
        }
        // references inside the expressions resolve to the intended DIEs
        if let Ok(g) = &got {
            if let Some(w) = naive_resolve(asz, want_base, l) {
                for ((_, _, data), (_, _, i)) in g.iter().zip(w.iter()) {
                    let x = expr_of(&l[*i]).unwrap();
                    if matches!(&x[..], [XOp::Raw(_)]) {
                        continue;
                    }
                    let want_refs: Vec<(char, u64)> = x
                        .iter()
                        .filter_map(|op| match op {
                            XOp::Call(i) => Some(('u', *rb.base_offs.get(*i)?)),
                            XOp::Convert(Some(i)) => Some(('t', *rb.base_offs.get(*i)?)),
                            XOp::Convert(None) => Some(('t', 0)),
                            XOp::CallRef(i) => Some(('d', ustart + *rb.base_offs.get(*i)?)),
                            _ => None,
                        })
                        .collect();
                    let mut got_refs = Vec::new();
                    let mut ops = read::Expression(EndianSlice::new(data, endian)).operations(c.enc);
                    let mut n = 0;
                    loop {
                        match ops.next() {
                            Ok(Some(read::Operation::Call { offset: read::DieReference::UnitRef(o) })) => got_refs.push(('u', o.0 as u64)),
                            Ok(Some(read::Operation::Call { offset: read::DieReference::DebugInfoRef(o) })) => got_refs.push(('d', o.0 as u64)),
                            Ok(Some(read::Operation::Convert { base_type })) => got_refs.push(('t', base_type.0 as u64)),
                            Ok(Some(_)) => {}
                            Ok(None) => break,
                            // operand-less opcodes are arbitrary bytes: decoding may stop there
                            Err(_) => break,
                        }
                        n += 1;
                        if n > data.len() + 1 {
                            break;
                        }
                    }
                    let decodable = x.iter().all(|op| !matches!(op, XOp::Simple(_)));
                    if decodable && got_refs != want_refs {
                        fail("expr-refs-differ", format!("list={j} expected={want_refs:?} got={got_refs:?}"));
                    }
                }
            }
        }
        // raw
        let graw: Result<Vec<(char, u64, u64)>, String> = (|| {
            let mut it = dwarf.raw_locations(&unit, off).map_err(|e| format!("{e:?}"))?;
            let mut out = Vec::new();
            while let Some(r) = it.next().map_err(|e| format!("{e:?}"))? {
                use read::RawLocListEntry as E;
                out.push(match r {
                    E::AddressOrOffsetPair { begin, end, .. } => ('P', begin, end),
                    E::BaseAddress { addr } => ('B', addr, 0),
                    E::OffsetPair { begin, end, .. } => ('O', begin, end),
                    E::StartEnd { begin, end, .. } => ('E', begin, end),
                    E::StartLength { begin, length, .. } => ('L', begin, length),
                    E::DefaultLocation { .. } => ('D', 0, 0),
                    _ => ('?', 0, 0),
                });
                if out.len() > cap {
                    return Err("no-end".into());
                }
            }
            Ok(out)
        })();
        let wraw = raw_expected(c, l);
        match (&graw, &wraw) {
            (Ok(g), Some(w)) if g == w => {}
            _ => fail("raw-locations-differ", format!("list={j} expected={wraw:?} got={graw:?}")),
        }
    }
    Ok(rb)
}

/// "Lists that cannot be represented unambiguously in the chosen encoding — empty ranges, pairs
/// that need or conflict with a base address, default locations before v5 — are rejected": the
/// first such entry of a unit written in DWARF 2–4, naively (the unit has a base address iff its
/// root has a DW_AT_low_pc other than the constant 0; a BaseAddress entry provides one from there
/// on). An entry whose first word is all-ones for the address size IS the base-address selection
/// entry in that encoding (former finding C16-1), so it is unrepresentable as well.
fn unrepresentable(c: &Case) -> Option<String> {
    if !(2..=4).contains(&c.enc.version) {
        return None;
    }
    for (what, ls) in [("range", &c.rng), ("location", &c.loc)] {
        for (j, l) in ls.iter().enumerate() {
            let mut hb = have_base(&c.low);
            for (i, e) in l.iter().enumerate() {
                let why = match e {
                    Ent::Base(_) => {
                        hb = true;
                        None
                    }
                    Ent::OffsetPair(b, e, _) if b == e => Some("empty"),
                    Ent::OffsetPair(b, _, _) if *b == mask(c.enc.address_size) => Some("begins-with-base-marker"),
                    Ent::StartEnd(b, _, _) | Ent::StartLength(b, _, _) if konst(b) == Some(mask(c.enc.address_size)) => {
                        Some("begins-with-base-marker")
                    }
                    Ent::OffsetPair(..) if !hb => Some("needs-base"),
                    Ent::StartEnd(b, e, _) if b == e => Some("empty"),
                    Ent::StartEnd(..) if hb => Some("conflicts-with-base"),
                    Ent::StartLength(_, 0, _) => Some("empty"),
                    Ent::StartLength(..) if hb => Some("conflicts-with-base"),
                    Ent::Default(_) => Some("default-location"),
                    _ => None,
                };
                if let Some(why) = why {
                    return Some(format!("{what} list {j} entry {i}: {why}"));
                }
            }
        }
    }
    None
}

/// one or two units in one `write::Dwarf`; `uoff_b` = where the second unit must start
fn wl_units(cs: &[Case], uoff_b: Option<u64>) -> String {
    let mut dwarf = write::Dwarf::new();
    let built: Vec<Built> = cs.iter().map(|c| build(&mut dwarf, c)).collect();
    let endian = if cs[0].big { RunTimeEndian::Big } else { RunTimeEndian::Little };
    let mut sections = Sections::new(EndianVec::new(endian));
    if let Err(e) = dwarf.write(&mut sections) {
        return format!("err {}", werr(&e));
    }
    let mut oracle: Option<String> = None;
    let mut parts = Vec::new();
    for (index, (c, b)) in cs.iter().zip(built.iter()).enumerate() {
        let rid = dense(&b.rids);
        let lid = dense(&b.lids);
        // the reader only accepts address sizes 1, 2, 4, 8 (outside C16's quantifier): what can be
        // compared then are the ids and the section bytes
        let readable = cs.iter().all(|c| matches!(c.enc.address_size, 1 | 2 | 4 | 8));
        let rb = if !readable {
            ReadBack { ustart: 0, base_offs: c.eoffs.clone(), roffs: vec![], loffs: vec![], oracle: None }
        } else {
            match read_back(c, &sections, index) {
                Ok(rb) => rb,
                Err(why) => return format!("ok unreadable {why} #oracle:unreadable {why}"),
            }
        };
        if rb.base_offs != c.eoffs {
            return format!("bad-layout unit={index} actual={}", nums(&rb.base_offs));
        }
        if readable && index == 1 && Some(rb.ustart) != uoff_b {
            return format!("bad-layout unit-b-offset actual={}", rb.ustart);
        }
        if oracle.is_none() {
            oracle = rb.oracle.clone();
        }
        if oracle.is_none() {
            if let Some(why) = unrepresentable(c) {
                oracle = Some(format!("accepted-unrepresentable unit {index} {why}"));
            }
        }
        // "equal lists share one identifier and one emitted copy", different lists do not
        let mut dd = |ls: &Vec<Vec<Ent>>, ids: &Vec<usize>, offs: &Vec<u64>, what: &str| {
            for i in 0..ls.len() {
                for j in 0..i {
                    let same = ls[i] == ls[j];
                    if oracle.is_none() && (ids[i] == ids[j]) != same {
                        oracle = Some(format!("dedup-id {what} lists {j},{i} equal={same} ids={},{}", ids[j], ids[i]));
                    }
                    if oracle.is_none() && offs.len() == ls.len() && (offs[i] == offs[j]) != same {
                        oracle = Some(format!("dedup-offset {what} lists {j},{i} equal={same} offsets={},{}", offs[j], offs[i]));
                    }
                }
            }
        };
        dd(&c.rng, &rid, &rb.roffs, "range");
        dd(&c.loc, &lid, &rb.loffs, "location");
        parts.push(format!(
            "rid={} lid={} roff={} loff={}",
            nums(&rid),
            nums(&lid),
            if readable { nums(&rb.roffs) } else { "?".into() },
            if readable { nums(&rb.loffs) } else { "?".into() },
        ));
    }
    let ids = if parts.len() == 1 { parts[0].clone() } else { format!("A:{} B:{}", parts[0], parts[1]) };
    let mut r = format!(
        "ok {ids} ranges={} rnglists={} loc={} loclists={}",
        hex(sections.debug_ranges.slice()),
        hex(sections.debug_rnglists.slice()),
        hex(sections.debug_loc.slice()),
        hex(sections.debug_loclists.slice())
    );
    if let Some(o) = oracle {
        r.push_str(" #oracle:");
        r.push_str(&o);
    }
    r
}

pub fn handle(op: &str, a: &[&str]) -> Option<String> {
    match (op, a) {
        ("wl-unit", [m, rest @ ..]) => {
            if *m != "debug" && *m != "release" {
                return None;
            }
            let c = parse_case(rest)?;
            Some(wl_units(&[c], None))
        }
        ("wl-unit2", [m, ca, lowa, eoa, rla, lla, uoffb, cb, lowb, eob, rlb, llb]) => {
            if *m != "debug" && *m != "release" {
                return None;
            }
            let a = parse_case(&[ca, lowa, eoa, rla, lla])?;
            let b = parse_case(&[cb, lowb, eob, rlb, llb])?;
            let uoffb = p_u64(uoffb)?;
            if a.big != b.big {
                return None;
            }
            Some(wl_units(&[a, b], Some(uoffb)))
        }
        _ => None,
    }
}

// ---------- generator ----------

fn addr_text(a: &Address) -> String {
    match a {
        Address::Constant(v) => v.to_string(),
        Address::Symbol { symbol, addend } => format!("s{symbol}_{addend}"),
    }
}

fn expr_text(x: &Expr) -> String {
    if x.is_empty() {
        return "-".into();
    }
    x.iter()
        .map(|op| match op {
            XOp::Raw(bs) => {
                if bs.len() > 64 && bs.iter().all(|b| *b == bs[0]) {
                    format!("z{}.{:02x}", bs.len(), bs[0])
                } else {
                    format!("x{}", hex(bs))
                }
            }
            XOp::Simple(o) => format!("o{o}"),
            XOp::Addr(a) => format!("a{}", addr_text(a)),
            XOp::Constu(v) => format!("u{v}"),
            XOp::Call(i) => format!("c{i}"),
            XOp::Convert(None) => "v".into(),
            XOp::Convert(Some(i)) => format!("v{i}"),
            XOp::CallRef(i) => format!("r{i}"),
        })
        .collect::<Vec<_>>()
        .join("+")
}

fn ent_text(e: &Ent) -> String {
    match e {
        Ent::Base(a) => format!("B:{}", addr_text(a)),
        Ent::OffsetPair(b, e, x) => format!("OP:{b},{e},{}", expr_text(x)),
        Ent::StartEnd(b, e, x) => format!("SE:{},{},{}", addr_text(b), addr_text(e), expr_text(x)),
        Ent::StartLength(b, l, x) => format!("SL:{},{l},{}", addr_text(b), expr_text(x)),
        Ent::Default(x) => format!("DL:{}", expr_text(x)),
    }
}

fn lists_text(ls: &[Vec<Ent>]) -> String {
    if ls.is_empty() {
        return "-".into();
    }
    ls.iter()
        .map(|l| if l.is_empty() { ".".into() } else { l.iter().map(ent_text).collect::<Vec<_>>().join(";") })
        .collect::<Vec<_>>()
        .join("|")
}

/// unit offsets of `n` base-type DIEs (abbreviation code + DW_FORM_data1) that follow the root DIE
/// (abbreviation code + DW_AT_low_pc if present) in a unit that is the first in `.debug_info`
fn layout(enc: Encoding, low: bool, n: usize) -> Vec<u64> {
    let w: u64 = if enc.format == Format::Dwarf64 { 8 } else { 4 };
    let il: u64 = if enc.format == Format::Dwarf64 { 12 } else { 4 };
    let hdr = if enc.version >= 5 { il + 2 + 1 + 1 + w } else { il + 2 + w + 1 };
    let root = 1 + if low { enc.address_size as u64 } else { 0 };
    (0..n as u64).map(|i| hdr + root + 2 * i).collect()
}

/// size of a whole unit in `.debug_info`: header, root DIE, base types, one DIE (abbreviation code +
/// section offset) per list, and the null entry that ends the root's children
fn unit_size(enc: Encoding, low: bool, nbase: usize, nlists: usize) -> u64 {
    let w: u64 = if enc.format == Format::Dwarf64 { 8 } else { 4 };
    let il: u64 = if enc.format == Format::Dwarf64 { 12 } else { 4 };
    let hdr = if enc.version >= 5 { il + 2 + 1 + 1 + w } else { il + 2 + w + 1 };
    let root = 1 + if low { enc.address_size as u64 } else { 0 };
    let children = nbase + nlists;
    hdr + root + 2 * nbase as u64 + nlists as u64 * (1 + w) + if children > 0 { 1 } else { 0 }
}

fn unit_text(big: bool, enc: Encoding, low: &Option<Address>, nbase: usize, rng: &[Vec<Ent>], loc: &[Vec<Ent>]) -> String {
    format!(
        "{},{},{},{} {} {} {} {}",
        if big { "be" } else { "le" },
        enc.address_size,
        if enc.format == Format::Dwarf64 { 64 } else { 32 },
        enc.version,
        low.as_ref().map(addr_text).unwrap_or_else(|| "-".into()),
        nums(&layout(enc, low.is_some(), nbase)),
        lists_text(rng),
        lists_text(loc)
    )
}

fn case_text(big: bool, enc: Encoding, low: &Option<Address>, nbase: usize, rng: &[Vec<Ent>], loc: &[Vec<Ent>]) -> String {
    format!(
        "wl-unit @MODE@ {},{},{},{} {} {} {} {}",
        if big { "be" } else { "le" },
        enc.address_size,
        if enc.format == Format::Dwarf64 { 64 } else { 32 },
        enc.version,
        low.as_ref().map(addr_text).unwrap_or_else(|| "-".into()),
        nums(&layout(enc, low.is_some(), nbase)),
        lists_text(rng),
        lists_text(loc)
    )
}

struct G<'a> {
    rng: &'a mut Rng,
    /// only lists of acceptable entries (for the first of two units: the second one must be reached)
    tame: bool,
}

impl<'a> G<'a> {
    /// boundary addresses of an address size: 0, 1, mask-1, mask, the halves, values whose sums wrap
    fn address(&mut self, asz: u8) -> u64 {
        let m = mask(asz);
        match self.rng.below(12) {
            0 => 0,
            1 => 1,
            2 => m,
            3 => m - 1,
            4 => m - self.rng.below(0x20),
            5 => m >> 1,
            6 => (m >> 1) + 1,
            7 => self.rng.boundary_u64() & m,
            8 => self.rng.boundary_u64(),
            9 => 0x1000 * self.rng.below(16),
            _ => self.rng.below(0x100),
        }
    }
    fn length(&mut self, asz: u8) -> u64 {
        let m = mask(asz);
        match self.rng.below(10) {
            0 => 0,
            1 => 1,
            2 => m,
            3 => m - self.rng.below(0x20),
            4 => self.rng.boundary_u64(),
            5 => u64::MAX - self.rng.below(0x20),
            6 => (m >> 1) + self.rng.below(3),
            _ => 1 + self.rng.below(0x100),
        }
    }
    fn addr(&mut self, asz: u8, plain: bool) -> Address {
        if !plain && self.rng.chance(1, 25) {
            let addend = match self.rng.below(4) {
                0 => 0,
                1 => i64::MAX - self.rng.below(3) as i64,
                2 => self.rng.boundary_i64(),
                _ => self.rng.below(0x100) as i64,
            };
            Address::Symbol { symbol: self.rng.below(3) as usize, addend }
        } else if plain {
            Address::Constant(0x1000 * self.rng.below(16) + self.rng.below(0x100))
        } else {
            Address::Constant(self.address(asz))
        }
    }
    fn expr(&mut self, is_loc: bool, asz: u8, nbase: usize) -> Expr {
        if !is_loc {
            return vec![];
        }
        match self.rng.below(20) {
            0 => vec![],
            1..=6 => vec![XOp::Raw(self.rng.bytes_below(6))],
            7 => {
                // around the 16-bit length field of `.debug_loc`
                let n = *self.rng.pick(&[65534usize, 65535, 65536, 65537, 255, 256, 127, 128, 16383, 16384]);
                vec![XOp::Raw(vec![self.rng.next() as u8; n])]
            }
            8 => vec![XOp::Raw(vec![])],
            _ => {
                let n = 1 + self.rng.below(4);
                (0..n)
                    .map(|_| match self.rng.below(if nbase > 0 { 9 } else { 5 }) {
                        0 => XOp::Simple(*self.rng.pick(&[0x12u8, 0x96, 0x9c, 0x9f, 0x06, 0x22])),
                        1 => {
                            let plain = self.rng.chance(1, 2);
                            XOp::Addr(self.addr(asz, plain))
                        }
                        2 => XOp::Constu(match self.rng.below(4) {
                            0 => self.rng.below(34),
                            1 => self.rng.boundary_u64(),
                            _ => self.rng.below(0x4000),
                        }),
                        3 => XOp::Convert(None),
                        4 => XOp::Simple(0x9c),
                        5 => XOp::Call(self.rng.below(nbase as u64) as usize),
                        6 => XOp::Convert(Some(self.rng.below(nbase as u64) as usize)),
                        7 => XOp::CallRef(self.rng.below(nbase as u64) as usize),
                        _ => XOp::Constu(self.rng.below(32)),
                    })
                    .collect()
            }
        }
    }
    /// one entry; `valid`: an entry the writer accepts in the state `have_base` (DWARF <= 4) with
    /// ordinary values; otherwise any kind with boundary values
    fn entry(&mut self, is_loc: bool, enc: Encoding, have_base: &mut bool, nbase: usize, valid: bool) -> Ent {
        let asz = enc.address_size;
        let v5 = enc.version >= 5;
        let x = self.expr(is_loc, asz, nbase);
        if valid {
            let kinds: &[u8] = if v5 {
                if is_loc { &[0, 1, 2, 3, 4] } else { &[0, 1, 2, 3] }
            } else if *have_base {
                &[0, 1, 1, 1]
            } else {
                &[0, 2, 3, 2, 3]
            };
            match *self.rng.pick(kinds) {
                0 => {
                    *have_base = true;
                    Ent::Base(Address::Constant(0x1000 * self.rng.below(16)))
                }
                1 => {
                    let b = self.rng.below(0x100);
                    Ent::OffsetPair(b, b + 1 + self.rng.below(0x100), x)
                }
                2 => {
                    let b = 0x1000 * self.rng.below(16) + self.rng.below(0x100);
                    Ent::StartEnd(Address::Constant(b), Address::Constant(b + 1 + self.rng.below(0x100)), x)
                }
                3 => Ent::StartLength(Address::Constant(0x1000 * self.rng.below(16)), 1 + self.rng.below(0x100), x),
                _ => Ent::Default(x),
            }
        } else {
            match self.rng.below(if is_loc { 9 } else { 8 }) {
                0 => {
                    *have_base = true;
                    Ent::Base(self.addr(asz, false))
                }
                1 | 2 => {
                    let b = self.address(asz);
                    let e = match self.rng.below(4) {
                        0 => b,
                        1 => b.wrapping_add(1),
                        _ => self.address(asz),
                    };
                    Ent::OffsetPair(b, e, x)
                }
                3 | 4 => {
                    let b = self.addr(asz, false);
                    let e = match self.rng.below(4) {
                        0 => b,
                        _ => self.addr(asz, false),
                    };
                    Ent::StartEnd(b, e, x)
                }
                5 | 6 | 7 => Ent::StartLength(self.addr(asz, false), self.length(asz), x),
                _ => Ent::Default(x),
            }
        }
    }
    fn list(&mut self, is_loc: bool, enc: Encoding, unit_base: bool, nbase: usize) -> Vec<Ent> {
        let n = match self.rng.below(8) {
            0 => 0,
            1 | 2 => 1,
            3 | 4 => 2,
            _ => 2 + self.rng.below(4),
        };
        let mut hb = unit_base;
        // ~70 % lists of acceptable entries, the rest with boundary / unrepresentable entries
        let style = if self.tame { 0 } else { self.rng.below(10) };
        (0..n)
            .map(|_| {
                let valid = match style {
                    0..=5 => true,
                    6 | 7 => self.rng.chance(3, 4),
                    _ => self.rng.chance(1, 3),
                };
                self.entry(is_loc, enc, &mut hb, nbase, valid)
            })
            .collect()
    }
}

fn have_base(low: &Option<Address>) -> bool {
    match low {
        None => false,
        Some(Address::Constant(0)) => false,
        Some(_) => true,
    }
}

/// the quantifier of C16 as a product: every entry kind × boundary begin/end/length values
/// (0, 1, mask-1, mask, sums that wrap) × versions 2–5 × formats × address sizes 4/8 × unit low_pc
/// absent / zero / non-zero / tombstone, each as a one-entry list followed by an ordinary entry that
/// shows which base address the reader ends up with, as a range list and as a location list
fn gen_sweep(ctx: &Ctx, emit: &mut dyn FnMut(String)) {
    let thorough = ctx.tier == crate::prop::Tier::Thorough;
    let mut n = 0u64;
    for &version in &[2u16, 3, 4, 5] {
        for &format in &[Format::Dwarf32, Format::Dwarf64] {
            for &asz in &[4u8, 8] {
                let enc = Encoding { format, version, address_size: asz };
                let m = mask(asz);
                let pool: Vec<u64> = if thorough {
                    vec![0, 1, 2, 0x10, m >> 1, (m >> 1) + 1, m - 2, m - 1, m, 0xffff_ffff, 0x1_0000_0000, u64::MAX - 1, u64::MAX]
                } else {
                    vec![0, 1, 0x10, m - 1, m]
                };
                let lows: Vec<Option<Address>> = vec![
                    None,
                    Some(Address::Constant(0)),
                    Some(Address::Constant(0x1000)),
                    Some(Address::Constant(m)),
                    Some(Address::Constant(m - 1)),
                ];
                for low in &lows {
                    // quick tier: the DWARF format only matters for the v5 header; v2/v3 differ from
                    // v4 only in the attribute form
                    n += 1;
                    let thin = !thorough && (format == Format::Dwarf64 && version != 5 || version == 3 || version == 2 && asz == 8);
                    let hb0 = have_base(low);
                    let mut ents: Vec<Ent> = Vec::new();
                    for &a in &pool {
                        ents.push(Ent::Base(Address::Constant(a)));
                        for &b in &pool {
                            if thin && (a.wrapping_add(b)) % 3 != n % 3 {
                                continue;
                            }
                            ents.push(Ent::OffsetPair(a, b, vec![]));
                            ents.push(Ent::StartEnd(Address::Constant(a), Address::Constant(b), vec![]));
                            ents.push(Ent::StartLength(Address::Constant(a), b, vec![]));
                        }
                    }
                    ents.push(Ent::Default(vec![]));
                    for e in ents {
                        // the follower is acceptable in the state the writer is in after `e`
                        let hb = hb0 || matches!(e, Ent::Base(_));
                        let follower = |x: Expr| {
                            if version >= 5 || hb { Ent::OffsetPair(1, 2, x) } else { Ent::StartEnd(Address::Constant(0x10), Address::Constant(0x20), x) }
                        };
                        let rl: Vec<Vec<Ent>> = if matches!(e, Ent::Default(_)) { vec![] } else { vec![vec![e.clone(), follower(vec![])]] };
                        let with_x = |e: &Ent, x: Expr| match e {
                            Ent::Base(a) => Ent::Base(*a),
                            Ent::OffsetPair(b, en, _) => Ent::OffsetPair(*b, *en, x),
                            Ent::StartEnd(b, en, _) => Ent::StartEnd(*b, *en, x),
                            Ent::StartLength(b, l, _) => Ent::StartLength(*b, *l, x),
                            Ent::Default(_) => Ent::Default(x),
                        };
                        let ll = vec![vec![with_x(&e, vec![XOp::Raw(vec![0x51])]), follower(vec![XOp::Constu(7)])]];
                        emit(case_text(n % 2 == 0, enc, low, 0, &rl, &ll));
                    }
                }
            }
        }
    }
}

/// one random unit: (encoding, low_pc, number of referable DIEs, range lists, location lists)
fn gen_unit(g: &mut G) -> (Encoding, Option<Address>, usize, Vec<Vec<Ent>>, Vec<Vec<Ent>>) {
    let mut enc = Encoding {
        format: if g.rng.chance(1, 3) { Format::Dwarf64 } else { Format::Dwarf32 },
        version: 2 + g.rng.below(4) as u16,
        address_size: if g.rng.chance(1, 2) { 8 } else { 4 },
    };
    // ~6 %: configurations outside the quantifier (address sizes 1/2 and unsupported ones,
    // unsupported versions)
    match g.rng.below(50) {
        0 => enc.address_size = *g.rng.pick(&[1u8, 2]),
        1 => enc.address_size = *g.rng.pick(&[0u8, 3, 5, 9, 16, 31, 32, 255]),
        2 => enc.version = *g.rng.pick(&[0u16, 1, 6, 0xffff]),
        _ => {}
    }
    let asz = enc.address_size;
    let low = match g.rng.below(10) {
        0 | 1 | 2 => None,
        3 | 4 => Some(Address::Constant(0)),
        5 | 6 | 7 => Some(Address::Constant(0x1000 * (1 + g.rng.below(15)))),
        8 => Some(g.addr(asz, false)),
        _ => Some(Address::Constant(mask(asz) - g.rng.below(3))),
    };
    let hb = have_base(&low);
    let nbase = if g.rng.chance(1, 2) { 0 } else { 1 + g.rng.below(3) as usize };
    let lists = |g: &mut G, is_loc: bool| -> Vec<Vec<Ent>> {
        let cnt = match g.rng.below(8) {
            0 => 0,
            1 | 2 | 3 => 1,
            4 | 5 => 2,
            _ => 2 + g.rng.below(4),
        };
        let mut ls: Vec<Vec<Ent>> = Vec::new();
        for _ in 0..cnt {
            if !ls.is_empty() && g.rng.chance(1, 3) {
                // a duplicate, or a near-duplicate (same length, one field changed)
                let mut l = g.rng.pick(&ls).clone();
                if g.rng.chance(1, 3) && !l.is_empty() {
                    let i = g.rng.below(l.len() as u64) as usize;
                    let mut hbx = hb;
                    l[i] = g.entry(is_loc, enc, &mut hbx, nbase, true);
                }
                ls.push(l);
            } else {
                ls.push(g.list(is_loc, enc, hb, nbase));
            }
        }
        ls
    };
    let rl = lists(g, false);
    let ll = lists(g, true);
    g.tame = false;
    (enc, low, nbase, rl, ll)
}

pub fn gen(ctx: &Ctx, emit: &mut dyn FnMut(String)) {
    gen_sweep(ctx, emit);
    let mut rng = ctx.rng(16);
    let n = ctx.n(20_000, 400_000);
    for i in 0..n {
        let mut g = G { rng: &mut rng, tame: i % 4 == 3 && i % 16 != 15 };
        let (enc, low, nbase, rl, ll) = gen_unit(&mut g);
        let big = g.rng.chance(1, 3);
        if i % 4 != 3 {
            emit(case_text(big, enc, &low, nbase, &rl, &ll));
        } else {
            // two units in one `Dwarf`: the second unit's tables follow the first unit's, its DIE
            // references are relative to its own offset in `.debug_info`; mostly acceptable lists in
            // the first unit so that the second one is reached
            let (encb, lowb, nbaseb, rlb, llb) = gen_unit(&mut g);
            let uoffb = unit_size(enc, low.is_some(), nbase, rl.len() + ll.len());
            emit(format!(
                "wl-unit2 @MODE@ {} {uoffb} {}",
                unit_text(big, enc, &low, nbase, &rl, &ll),
                unit_text(big, encb, &lowb, nbaseb, &rlb, &llb)
            ));
        }
    }
}
