//! C04 — line-number rows equal the DWARF state machine; sequences are consistent.
//!
//! Implementation side of the `line-*` ops (see lean/Gimli/Drv/C04.lean for the grammar) and the
//! direct oracles, all independent of the Lean Model:
//!   * `mono…`        emitted row addresses decrease inside a sequence / exceed the address size
//!   * `seq-…`        rows() vs sequences()+resume_from(), reported start/end
//!   * `spec-rows`    a naive re-implementation of DWARF §6.2 over the *abstract* program
//!                    (i128 arithmetic, no widths) disagrees with the rows gimli produced for the
//!                    encoded program, for a well-formed program
//!   * `hdr-…`        header fields / tables differ from what the generator encoded
use crate::prop::{Ctx, Tier};
use crate::util::{hex, rerr, unhex, Rng};
use gimli::{AttributeValue, DebugLine, DebugLineOffset, EndianSlice, LineInstruction, LineRow, RunTimeEndian};

type R<'a> = EndianSlice<'a, RunTimeEndian>;

// ---------------------------------------------------------------------------------------------
// header parameters
// ---------------------------------------------------------------------------------------------

#[derive(Clone, Debug)]
pub struct P {
    pub big: bool,
    pub fmt64: bool,
    pub ver: u64,
    pub asz: u64,
    pub minlen: u64,
    pub maxops: u64,
    pub stmt: u64,
    pub lbase: i64,
    pub lrange: u64,
    pub obase: u64,
    pub stdlens: Vec<u8>,
}

impl P {
    fn parse(s: &str) -> Option<P> {
        let t: Vec<&str> = s.split(',').collect();
        if t.len() != 11 {
            return None;
        }
        Some(P {
            big: match t[0] {
                "le" => false,
                "be" => true,
                _ => return None,
            },
            fmt64: match t[1] {
                "32" => false,
                "64" => true,
                _ => return None,
            },
            ver: t[2].parse().ok()?,
            asz: t[3].parse().ok()?,
            minlen: t[4].parse().ok()?,
            maxops: t[5].parse().ok()?,
            stmt: t[6].parse().ok()?,
            lbase: t[7].parse().ok()?,
            lrange: t[8].parse().ok()?,
            obase: t[9].parse().ok()?,
            stdlens: unhex(t[10])?,
        })
    }
    pub fn token(&self) -> String {
        format!(
            "{},{},{},{},{},{},{},{},{},{},{}",
            if self.big { "be" } else { "le" },
            if self.fmt64 { 64 } else { 32 },
            self.ver,
            self.asz,
            self.minlen,
            self.maxops,
            self.stmt,
            self.lbase,
            self.lrange,
            self.obase,
            hex(&self.stdlens)
        )
    }
    fn buildable(&self) -> bool {
        (2..=5).contains(&self.ver)
            && matches!(self.asz, 1 | 2 | 4 | 8)
            && self.minlen <= 255
            && self.maxops <= 255
            && (-128..=127).contains(&self.lbase)
            && self.lrange <= 255
            && self.obase <= 255
            && self.stdlens.len() as u64 == self.obase.saturating_sub(1)
    }
    fn endian(&self) -> RunTimeEndian {
        if self.big { RunTimeEndian::Big } else { RunTimeEndian::Little }
    }
    /// effective max_ops: the field does not exist before version 4
    fn eff_maxops(&self) -> u64 {
        if self.ver >= 4 { self.maxops } else { 1 }
    }
}

fn put(out: &mut Vec<u8>, big: bool, n: usize, v: u64) {
    let b = v.to_le_bytes();
    if big {
        for i in (0..n).rev() {
            out.push(b[i]);
        }
    } else {
        out.extend_from_slice(&b[..n]);
    }
}

pub fn uleb(out: &mut Vec<u8>, mut v: u64) {
    loop {
        let b = (v & 0x7f) as u8;
        v >>= 7;
        if v != 0 {
            out.push(b | 0x80);
        } else {
            out.push(b);
            break;
        }
    }
}

pub fn sleb(out: &mut Vec<u8>, mut v: i64) {
    loop {
        let b = (v as u8) & 0x7f;
        let done = (v >> 6) == 0 || (v >> 6) == -1;
        v >>= 7;
        if done {
            out.push(b);
            break;
        }
        out.push(b | 0x80);
    }
}

/// wrap `fields` (everything after header_length up to the program) and `prog` into a unit
fn wrap_unit(big: bool, fmt64: bool, ver: u64, v5_addr: Option<(u8, u8)>, fields: &[u8], prog: &[u8]) -> Vec<u8> {
    let mut body = Vec::new();
    put(&mut body, big, 2, ver);
    if let Some((a, s)) = v5_addr {
        body.push(a);
        body.push(s);
    }
    put(&mut body, big, if fmt64 { 8 } else { 4 }, fields.len() as u64);
    body.extend_from_slice(fields);
    body.extend_from_slice(prog);
    let mut sec = Vec::new();
    if fmt64 {
        put(&mut sec, big, 4, 0xffff_ffff);
        put(&mut sec, big, 8, body.len() as u64);
    } else {
        put(&mut sec, big, 4, body.len() as u64);
    }
    sec.extend_from_slice(&body);
    sec
}

fn param_block(p: &P) -> Vec<u8> {
    let mut f = Vec::new();
    f.push(p.minlen as u8);
    if p.ver >= 4 {
        f.push(p.maxops as u8);
    }
    f.push(p.stmt as u8);
    f.push(p.lbase as i8 as u8);
    f.push(p.lrange as u8);
    f.push(p.obase as u8);
    f.extend_from_slice(&p.stdlens);
    f
}

/// a `.debug_line` section with one unit: the parameters of `p`, empty directory and file tables
fn build_section(p: &P, prog: &[u8]) -> Vec<u8> {
    let mut f = param_block(p);
    if p.ver <= 4 {
        f.push(0);
        f.push(0);
    } else {
        // one format entry (DW_LNCT_path, DW_FORM_string), zero entries — for both tables
        f.extend_from_slice(&[1, 1, 0x08, 0, 1, 1, 0x08, 0]);
    }
    wrap_unit(p.big, p.fmt64, p.ver, if p.ver >= 5 { Some((p.asz as u8, 0)) } else { None }, &f, prog)
}

// ---------------------------------------------------------------------------------------------
// rendering
// ---------------------------------------------------------------------------------------------

#[derive(Clone, Debug, PartialEq, Eq)]
struct RowV {
    address: u64,
    op_index: u64,
    file: u64,
    line: u64,
    column: u64,
    flags: u64,
    isa: u64,
    disc: u64,
}
impl RowV {
    fn of(r: &LineRow) -> RowV {
        RowV {
            address: r.address(),
            op_index: r.op_index(),
            file: r.file_index(),
            line: r.line().map(|l| l.get()).unwrap_or(0),
            column: match r.column() {
                gimli::ColumnType::LeftEdge => 0,
                gimli::ColumnType::Column(c) => c.get(),
            },
            flags: r.is_stmt() as u64 | (r.basic_block() as u64) << 1 | (r.end_sequence() as u64) << 2 | (r.prologue_end() as u64) << 3 | (r.epilogue_begin() as u64) << 4,
            isa: r.isa(),
            disc: r.discriminator(),
        }
    }
    fn end(&self) -> bool {
        self.flags & 4 != 0
    }
    fn s(&self) -> String {
        format!("{},{},{},{},{},{},{},{}", self.address, self.op_index, self.file, self.line, self.column, self.flags, self.isa, self.disc)
    }
}

#[derive(Clone, Debug, PartialEq, Eq)]
enum Ev {
    Row(RowV),
    Err(String),
    Steps,
}

fn evs_s(evs: &[Ev]) -> String {
    let mut v: Vec<String> = evs
        .iter()
        .map(|e| match e {
            Ev::Row(r) => r.s(),
            Ev::Err(e) => format!("err:{e}"),
            Ev::Steps => "steps".into(),
        })
        .collect();
    v.push("end".into());
    v.join(" ")
}

/// call next_row() until Ok(None); every result is recorded (an execute error does not end the
/// iteration). `cap` bounds the number of calls.
macro_rules! collect_rows {
    ($rows:expr, $cap:expr) => {{
        let mut evs: Vec<Ev> = Vec::new();
        let mut n = 0usize;
        loop {
            n += 1;
            if n > $cap {
                evs.push(Ev::Steps);
                break;
            }
            match $rows.next_row() {
                Ok(None) => break,
                Ok(Some((_, row))) => evs.push(Ev::Row(RowV::of(row))),
                Err(e) => evs.push(Ev::Err(rerr(&e))),
            }
        }
        evs
    }};
}

fn attr_s(v: &AttributeValue<R>) -> String {
    match v {
        AttributeValue::Block(b) => format!("blk:{}", hex(b.slice())),
        AttributeValue::Data1(n) => format!("d1:{n}"),
        AttributeValue::Data2(n) => format!("d2:{n}"),
        AttributeValue::Data4(n) => format!("d4:{n}"),
        AttributeValue::Data8(n) => format!("d8:{n}"),
        AttributeValue::Udata(n) => format!("ud:{n}"),
        AttributeValue::Sdata(n) => format!("sd:{n}"),
        AttributeValue::Flag(b) => format!("fl:{}", *b as u8),
        AttributeValue::SecOffset(o) => format!("so:{o}"),
        AttributeValue::String(s) => format!("str:{}", hex(s.slice())),
        AttributeValue::DebugStrRef(o) => format!("strp:{}", o.0),
        AttributeValue::DebugStrRefSup(o) => format!("sup:{}", o.0),
        AttributeValue::DebugLineStrRef(o) => format!("lstrp:{}", o.0),
        AttributeValue::DebugStrOffsetsIndex(i) => format!("strx:{}", i.0),
        other => format!("other:{other:?}").replace(' ', "_"),
    }
}

fn file_s(f: &gimli::FileEntry<R>) -> String {
    format!(
        "{};{};{};{};{};{}",
        attr_s(&f.path_name()),
        f.directory_index(),
        f.timestamp(),
        f.size(),
        hex(f.md5()),
        f.source().map(|s| attr_s(&s)).unwrap_or_else(|| "~".into())
    )
}

fn list_s<T>(xs: &[T], f: impl Fn(&T) -> String) -> String {
    if xs.is_empty() { "~".into() } else { xs.iter().map(f).collect::<Vec<_>>().join("|") }
}

fn header_s(h: &gimli::LineProgramHeader<R>) -> String {
    let nf = h.file_names().len() as u64;
    let nd = h.include_directories().len() as u64;
    let mut t: Vec<String> = vec![
        match h.format() {
            gimli::Format::Dwarf32 => "32".into(),
            gimli::Format::Dwarf64 => "64".into(),
        },
        h.version().to_string(),
        h.unit_length().to_string(),
        h.header_length().to_string(),
        h.address_size().to_string(),
        h.minimum_instruction_length().to_string(),
        h.maximum_operations_per_instruction().to_string(),
        (h.default_is_stmt() as u8).to_string(),
        h.line_base().to_string(),
        h.line_range().to_string(),
        h.opcode_base().to_string(),
        hex(h.standard_opcode_lengths().slice()),
        list_s(h.directory_entry_format(), |f| format!("{}:{}", f.content_type.0, f.form.0)),
        list_s(h.include_directories(), attr_s),
        list_s(h.file_name_entry_format(), |f| format!("{}:{}", f.content_type.0, f.form.0)),
        list_s(h.file_names(), file_s),
        hex(h.raw_program_buf().slice()),
    ];
    for i in [0, 1, 2, nf, nf + 1, u64::MAX] {
        t.push(h.file(i).map(file_s).unwrap_or_else(|| "~".into()));
    }
    for i in [0, 1, 2, nd, nd + 1, u64::MAX] {
        t.push(h.directory(i).map(|d| attr_s(&d)).unwrap_or_else(|| "~".into()));
    }
    t.join(" ")
}

// ---------------------------------------------------------------------------------------------
// direct oracles on the implementation's own rows
// ---------------------------------------------------------------------------------------------

/// the first oracle finding is the one reported (no class is exempt any more: the former
/// findings C04-1 / C04-2 are repaired in the crate and count as plain violations again)
fn pick(findings: Vec<String>) -> Option<String> {
    findings.into_iter().next()
}

/// "For any input whatsoever, row addresses never decrease within a sequence and never exceed
/// the address size." A sequence ends with a returned row that has end_sequence set.
fn oracle_mono(evs: &[Ev], asz: u64, out: &mut Vec<String>) {
    let mask: u64 = if asz >= 8 { u64::MAX } else { (1u64 << (8 * asz)) - 1 };
    let rows: Vec<&RowV> = evs.iter().filter_map(|e| if let Ev::Row(r) = e { Some(r) } else { None }).collect();
    for (k, r) in rows.iter().enumerate() {
        if r.address > mask {
            out.push(format!("addr-exceeds-size {} > {}", r.address, mask));
            return;
        }
        if k > 0 && !rows[k - 1].end() && r.address < rows[k - 1].address {
            out.push(format!("mono {} after {}", r.address, rows[k - 1].address));
            return;
        }
    }
}

struct SeqV {
    start: u64,
    end: u64,
    evs: Vec<Ev>,
}

/// "Splitting a program into sequences and resuming any sequence yields exactly the rows a
/// straight run yields for it, and each sequence's reported address bounds are its first and
/// end addresses."
fn oracle_seqs(straight: &[Ev], seqs: &[SeqV], out: &mut Vec<String>) {
    // sequences() succeeded => the straight run had no error either
    if straight.iter().any(|e| !matches!(e, Ev::Row(_))) {
        out.push("seq-ok-but-rows-err".into());
        return;
    }
    let rows: Vec<&RowV> = straight.iter().filter_map(|e| if let Ev::Row(r) = e { Some(r) } else { None }).collect();
    let last_end = rows.iter().rposition(|r| r.end()).map(|i| i + 1).unwrap_or(0);
    let expect = &rows[..last_end];
    let mut got: Vec<&RowV> = Vec::new();
    for s in seqs {
        let rs: Vec<&RowV> = s.evs.iter().filter_map(|e| if let Ev::Row(r) = e { Some(r) } else { None }).collect();
        if rs.len() != s.evs.len() {
            out.push("seq-resume-err".into());
            return;
        }
        let Some(last) = rs.last() else {
            out.push("seq-empty".into());
            return;
        };
        if !last.end() || rs[..rs.len() - 1].iter().any(|r| r.end()) {
            out.push("seq-not-one-sequence".into());
            return;
        }
        if s.end != last.address {
            out.push(format!("seq-end {} != {}", s.end, last.address));
        }
        if s.start != rs[0].address {
            if rs.len() == 1 {
                out.push(format!("seq-start-empty reported {} for a sequence whose only row is the end row at {}", s.start, rs[0].address));
            } else {
                out.push(format!("seq-start {} != {}", s.start, rs[0].address));
            }
        } else if s.start > s.end {
            // only possible when the rows themselves go backwards (reported by the `mono` oracle)
            out.push(format!("seq-bounds start {} > end {}", s.start, s.end));
        }
        got.extend(rs);
    }
    if got.len() != expect.len() || got.iter().zip(expect.iter()).any(|(a, b)| a != b) {
        out.push("seq-rows-differ".into());
    }
}

fn with_oracle(s: String, o: Option<String>) -> String {
    match o {
        Some(w) => format!("{s} #oracle:{w}"),
        None => s,
    }
}

/// rows + sequences of one parsed program; returns (events, seq text, oracle findings)
fn run_all(prog: gimli::IncompleteLineProgram<R>, cap: usize) -> (Vec<Ev>, String, Vec<String>) {
    let asz = prog.header().address_size() as u64;
    let mut rows = prog.clone().rows();
    let evs = collect_rows!(rows, cap);
    let mut o = Vec::new();
    oracle_mono(&evs, asz, &mut o);
    let seq_txt = match prog.sequences() {
        Err(e) => {
            if !evs.iter().any(|e| matches!(e, Ev::Err(_))) {
                o.push("seq-err-but-rows-ok".into());
            }
            format!("err {}", rerr(&e))
        }
        Ok((complete, seqs)) => {
            let mut sv = Vec::new();
            for s in &seqs {
                let mut r = complete.resume_from(s);
                let evs = collect_rows!(r, cap);
                sv.push(SeqV { start: s.start, end: s.end, evs });
            }
            oracle_seqs(&evs, &sv, &mut o);
            let mut t = vec![format!("ok {}", sv.len())];
            for s in &sv {
                t.push(format!("S:{},{} {}", s.start, s.end, evs_s(&s.evs)));
            }
            t.join(" ")
        }
    };
    (evs, seq_txt, o)
}

// ---------------------------------------------------------------------------------------------
// abstract programs and the naive §6.2 machine (oracle `spec-rows`)
// ---------------------------------------------------------------------------------------------

#[derive(Clone, Debug)]
pub enum I {
    Special(u64),
    Copy,
    AdvancePc(u64),
    AdvanceLine(i64),
    SetFile(u64),
    SetColumn(u64),
    NegateStmt,
    BasicBlock,
    ConstAddPc,
    FixedAddPc(u64),
    PrologueEnd,
    EpilogueBegin,
    SetIsa(u64),
    Unknown0(u64),
    Unknown1(u64, u64),
    UnknownN(u64, Vec<u64>),
    EndSequence,
    SetAddress(u64),
    DefineFile(Vec<u8>, u64, u64, u64),
    SetDiscriminator(u64),
    UnknownExt(u64, Vec<u8>),
}

impl I {
    fn parse(s: &str) -> Option<I> {
        let t: Vec<&str> = s.split(':').collect();
        let n = |i: usize| -> Option<u64> { t.get(i)?.parse().ok() };
        Some(match (t[0], t.len()) {
            ("sp", 2) => I::Special(n(1)?),
            ("cp", 1) => I::Copy,
            ("apc", 2) => I::AdvancePc(n(1)?),
            ("al", 2) => I::AdvanceLine(t[1].parse().ok()?),
            ("sf", 2) => I::SetFile(n(1)?),
            ("sc", 2) => I::SetColumn(n(1)?),
            ("ns", 1) => I::NegateStmt,
            ("bb", 1) => I::BasicBlock,
            ("cap", 1) => I::ConstAddPc,
            ("fap", 2) => I::FixedAddPc(n(1)?),
            ("pe", 1) => I::PrologueEnd,
            ("eb", 1) => I::EpilogueBegin,
            ("isa", 2) => I::SetIsa(n(1)?),
            ("u0", 2) => I::Unknown0(n(1)?),
            ("u1", 3) => I::Unknown1(n(1)?, n(2)?),
            ("un", k) if k >= 2 => {
                let mut a = Vec::new();
                for i in 2..k {
                    a.push(n(i)?);
                }
                I::UnknownN(n(1)?, a)
            }
            ("es", 1) => I::EndSequence,
            ("sa", 2) => I::SetAddress(n(1)?),
            ("df", 5) => I::DefineFile(unhex(t[1])?, n(2)?, n(3)?, n(4)?),
            ("sd", 2) => I::SetDiscriminator(n(1)?),
            ("ux", 3) => I::UnknownExt(n(1)?, unhex(t[2])?),
            _ => return None,
        })
    }
    pub fn token(&self) -> String {
        match self {
            I::Special(n) => format!("sp:{n}"),
            I::Copy => "cp".into(),
            I::AdvancePc(n) => format!("apc:{n}"),
            I::AdvanceLine(n) => format!("al:{n}"),
            I::SetFile(n) => format!("sf:{n}"),
            I::SetColumn(n) => format!("sc:{n}"),
            I::NegateStmt => "ns".into(),
            I::BasicBlock => "bb".into(),
            I::ConstAddPc => "cap".into(),
            I::FixedAddPc(n) => format!("fap:{n}"),
            I::PrologueEnd => "pe".into(),
            I::EpilogueBegin => "eb".into(),
            I::SetIsa(n) => format!("isa:{n}"),
            I::Unknown0(o) => format!("u0:{o}"),
            I::Unknown1(o, a) => format!("u1:{o}:{a}"),
            I::UnknownN(o, a) => format!("un:{o}{}", a.iter().map(|x| format!(":{x}")).collect::<String>()),
            I::EndSequence => "es".into(),
            I::SetAddress(a) => format!("sa:{a}"),
            I::DefineFile(p, d, t, s) => format!("df:{}:{d}:{t}:{s}", hex(p)),
            I::SetDiscriminator(n) => format!("sd:{n}"),
            I::UnknownExt(o, d) => format!("ux:{o}:{}", hex(d)),
        }
    }
    /// DWARF §6.2.5 encoding
    pub fn encode(&self, p: &P, out: &mut Vec<u8>) {
        let ext = |out: &mut Vec<u8>, sub: u64, payload: &[u8]| {
            out.push(0);
            uleb(out, payload.len() as u64 + 1);
            out.push(sub as u8);
            out.extend_from_slice(payload);
        };
        match self {
            I::Special(n) => out.push(*n as u8),
            I::Copy => out.push(1),
            I::AdvancePc(n) => {
                out.push(2);
                uleb(out, *n)
            }
            I::AdvanceLine(n) => {
                out.push(3);
                sleb(out, *n)
            }
            I::SetFile(n) => {
                out.push(4);
                uleb(out, *n)
            }
            I::SetColumn(n) => {
                out.push(5);
                uleb(out, *n)
            }
            I::NegateStmt => out.push(6),
            I::BasicBlock => out.push(7),
            I::ConstAddPc => out.push(8),
            I::FixedAddPc(n) => {
                out.push(9);
                put(out, p.big, 2, *n)
            }
            I::PrologueEnd => out.push(10),
            I::EpilogueBegin => out.push(11),
            I::SetIsa(n) => {
                out.push(12);
                uleb(out, *n)
            }
            I::Unknown0(o) => out.push(*o as u8),
            I::Unknown1(o, a) => {
                out.push(*o as u8);
                uleb(out, *a)
            }
            I::UnknownN(o, a) => {
                out.push(*o as u8);
                for x in a {
                    uleb(out, *x)
                }
            }
            I::EndSequence => ext(out, 1, &[]),
            I::SetAddress(a) => {
                let mut b = Vec::new();
                put(&mut b, p.big, p.asz as usize, *a);
                ext(out, 2, &b)
            }
            I::DefineFile(path, d, t, s) => {
                let mut b = path.clone();
                b.push(0);
                uleb(&mut b, *d);
                uleb(&mut b, *t);
                uleb(&mut b, *s);
                ext(out, 3, &b)
            }
            I::SetDiscriminator(n) => {
                let mut b = Vec::new();
                uleb(&mut b, *n);
                ext(out, 4, &b)
            }
            I::UnknownExt(o, d) => ext(out, *o, d),
        }
    }
}

pub fn encode_prog(p: &P, is: &[I]) -> Vec<u8> {
    let mut out = Vec::new();
    for i in is {
        i.encode(p, &mut out);
    }
    out
}

/// The DWARF §6.2 machine, written directly from the standard over wide integers. Returns the
/// matrix, or None when the program is not well-formed (a register would leave its width, the
/// line would go below zero, set_address goes backwards inside a sequence or is a tombstone, an
/// instruction is not encodable under this header).
fn naive_machine(p: &P, prog: &[I]) -> Option<Vec<RowV>> {
    let amax: i128 = if p.asz >= 8 { u64::MAX as i128 } else { (1i128 << (8 * p.asz)) - 1 };
    let maxops = p.eff_maxops() as i128;
    let minlen = p.minlen as i128;
    let (obase, lrange, lbase) = (p.obase as i128, p.lrange as i128, p.lbase as i128);
    #[derive(Clone)]
    struct S {
        address: i128,
        op_index: i128,
        file: u64,
        line: i128,
        column: u64,
        is_stmt: bool,
        bb: bool,
        end: bool,
        pe: bool,
        eb: bool,
        isa: u64,
        disc: u64,
    }
    let init = S { address: 0, op_index: 0, file: 1, line: 1, column: 0, is_stmt: p.stmt != 0, bb: false, end: false, pe: false, eb: false, isa: 0, disc: 0 };
    let mut s = init.clone();
    let mut out = Vec::new();
    for i in prog {
        let mut emit = false;
        let mut adv: Option<i128> = None;
        match i {
            I::Special(op) => {
                let op = *op as i128;
                if op < obase || op > 255 {
                    return None;
                }
                let adj = op - obase;
                s.line += lbase + adj % lrange;
                adv = Some(adj / lrange);
                emit = true;
            }
            I::Copy => emit = true,
            I::AdvancePc(n) => {
                if s.op_index + *n as i128 > u64::MAX as i128 {
                    return None;
                }
                adv = Some(*n as i128)
            }
            I::AdvanceLine(n) => s.line += *n as i128,
            I::SetFile(n) => s.file = *n,
            I::SetColumn(n) => s.column = *n,
            I::NegateStmt => s.is_stmt = !s.is_stmt,
            I::BasicBlock => s.bb = true,
            I::ConstAddPc => adv = Some((255 - obase) / lrange),
            I::FixedAddPc(n) => {
                if *n > 0xffff {
                    return None;
                }
                s.address += *n as i128;
                s.op_index = 0;
            }
            I::PrologueEnd => s.pe = true,
            I::EpilogueBegin => s.eb = true,
            I::SetIsa(n) => s.isa = *n,
            I::EndSequence => {
                s.end = true;
                emit = true;
            }
            I::SetAddress(a) => {
                let a = *a as i128;
                if a < s.address || a + 2 > amax {
                    return None;
                }
                s.address = a;
                s.op_index = 0;
            }
            I::SetDiscriminator(n) => s.disc = *n,
            I::DefineFile(..) | I::Unknown0(_) | I::Unknown1(..) | I::UnknownN(..) | I::UnknownExt(..) => {}
        }
        if let Some(a) = adv {
            s.address += minlen * ((s.op_index + a) / maxops);
            s.op_index = (s.op_index + a) % maxops;
        }
        if s.address > amax || s.line < 0 || s.line > u64::MAX as i128 {
            return None;
        }
        if emit {
            out.push(RowV {
                address: s.address as u64,
                op_index: s.op_index as u64,
                file: s.file,
                line: s.line as u64,
                column: s.column,
                flags: s.is_stmt as u64 | (s.bb as u64) << 1 | (s.end as u64) << 2 | (s.pe as u64) << 3 | (s.eb as u64) << 4,
                isa: s.isa,
                disc: s.disc,
            });
            if s.end {
                s = init.clone();
            } else {
                s.disc = 0;
                s.bb = false;
                s.pe = false;
                s.eb = false;
            }
        }
    }
    Some(out)
}

/// is the abstract instruction what its encoding decodes to under this header (so that the naive
/// machine's reading of the program is the standard's reading of the bytes)?
fn encodable(p: &P, i: &I) -> bool {
    let known = |op: u64| op < p.obase;
    let std_len = |op: u64| -> Option<u8> { p.stdlens.get(op as usize - 1).copied() };
    match i {
        I::Special(op) => *op >= p.obase && *op <= 255 && *op > 0,
        I::Copy => known(1),
        I::AdvancePc(_) => known(2),
        I::AdvanceLine(_) => known(3),
        I::SetFile(_) => known(4),
        I::SetColumn(_) => known(5),
        I::NegateStmt => known(6),
        I::BasicBlock => known(7),
        I::ConstAddPc => known(8),
        I::FixedAddPc(n) => known(9) && *n <= 0xffff,
        I::PrologueEnd => known(10),
        I::EpilogueBegin => known(11),
        I::SetIsa(_) => known(12),
        I::Unknown0(op) => *op >= 13 && known(*op) && std_len(*op) == Some(0),
        I::Unknown1(op, _) => *op >= 13 && known(*op) && std_len(*op) == Some(1),
        I::UnknownN(op, a) => *op >= 13 && known(*op) && a.len() >= 2 && std_len(*op) == Some(a.len() as u8),
        I::EndSequence | I::SetDiscriminator(_) => true,
        I::SetAddress(a) => p.asz >= 8 || *a < (1u64 << (8 * p.asz)),
        I::DefineFile(path, ..) => !path.is_empty() && !path.contains(&0),
        I::UnknownExt(op, _) => *op == 0 || (*op >= 5 && *op <= 255) || (*op == 3 && p.ver >= 5),
    }
}

// ---------------------------------------------------------------------------------------------
// abstract headers (oracle `hdr-…`)
// ---------------------------------------------------------------------------------------------

/// one v5 entry field value, by form
#[derive(Clone, Debug)]
enum FV {
    Block(u64, Vec<u8>), // form, bytes
    Data(u64, u64),      // form (data1/2/4/8/udata/flag), value
    Sdata(i64),
    Data16(Vec<u8>),
    Offset(u64, u64), // form (sec_offset, strp, strp_sup, line_strp, GNU_strp_alt), value
    Str(Vec<u8>),
    Strx(u64, u64), // form (strx, strx1..4, GNU_str_index), value
}

impl FV {
    fn form(&self) -> u64 {
        match self {
            FV::Block(f, _) | FV::Data(f, _) | FV::Offset(f, _) | FV::Strx(f, _) => *f,
            FV::Sdata(_) => 0x0d,
            FV::Data16(_) => 0x1e,
            FV::Str(_) => 0x08,
        }
    }
    fn encode(&self, big: bool, fmt64: bool, out: &mut Vec<u8>) {
        match self {
            FV::Block(f, b) => {
                match f {
                    0x0a => put(out, big, 1, b.len() as u64),
                    0x03 => put(out, big, 2, b.len() as u64),
                    0x04 => put(out, big, 4, b.len() as u64),
                    _ => uleb(out, b.len() as u64),
                }
                out.extend_from_slice(b)
            }
            FV::Data(f, v) => match f {
                0x0b | 0x0c => put(out, big, 1, *v),
                0x05 => put(out, big, 2, *v),
                0x06 => put(out, big, 4, *v),
                0x07 => put(out, big, 8, *v),
                _ => uleb(out, *v),
            },
            FV::Sdata(v) => sleb(out, *v),
            FV::Data16(b) => out.extend_from_slice(b),
            FV::Offset(_, v) => put(out, big, if fmt64 { 8 } else { 4 }, *v),
            FV::Str(s) => {
                out.extend_from_slice(s);
                out.push(0)
            }
            FV::Strx(f, v) => match f {
                0x25 => put(out, big, 1, *v),
                0x26 => put(out, big, 2, *v),
                0x27 => put(out, big, 3, *v),
                0x28 => put(out, big, 4, *v),
                _ => uleb(out, *v),
            },
        }
    }
    /// canonical text of the AttributeValue this must read back as
    fn expect(&self) -> String {
        match self {
            FV::Block(_, b) | FV::Data16(b) => format!("blk:{}", hex(b)),
            FV::Data(f, v) => match f {
                0x0b => format!("d1:{v}"),
                0x05 => format!("d2:{v}"),
                0x06 => format!("d4:{v}"),
                0x07 => format!("d8:{v}"),
                0x0c => format!("fl:{}", (*v != 0) as u8),
                _ => format!("ud:{v}"),
            },
            FV::Sdata(v) => format!("sd:{v}"),
            FV::Offset(f, v) => match f {
                0x17 => format!("so:{v}"),
                0x0e => format!("strp:{v}"),
                0x1f => format!("lstrp:{v}"),
                _ => format!("sup:{v}"),
            },
            FV::Str(s) => format!("str:{}", hex(s)),
            FV::Strx(_, v) => format!("strx:{v}"),
        }
    }
    fn udata(&self) -> Option<u64> {
        match self {
            FV::Data(f, v) if *f != 0x0c => Some(*v),
            FV::Sdata(v) if *v >= 0 => Some(*v as u64),
            _ => None,
        }
    }
}

fn random_fv(rng: &mut Rng, fmt64: bool, want_path: bool) -> FV {
    let small = |rng: &mut Rng| rng.bytes_below(6);
    let k = if want_path { *rng.pick(&[5u64, 5, 6, 6, 6, 7]) } else { rng.below(8) };
    match k {
        0 => FV::Block(*rng.pick(&[0x0au64, 0x03, 0x04, 0x09]), small(rng)),
        1 => {
            let f = *rng.pick(&[0x0bu64, 0x05, 0x06, 0x07, 0x0f, 0x0c]);
            let v = rng.boundary_u64();
            let v = match f {
                0x0b | 0x0c => v & 0xff,
                0x05 => v & 0xffff,
                0x06 => v & 0xffff_ffff,
                _ => v,
            };
            FV::Data(f, v)
        }
        2 => FV::Sdata(rng.boundary_i64()),
        3 => FV::Data16(rng.bytes(16)),
        4 => FV::Offset(0x17, if fmt64 { rng.boundary_u64() } else { rng.boundary_u64() & 0xffff_ffff }),
        5 => FV::Str((0..rng.below(6)).map(|_| 1 + rng.below(255) as u8).collect()),
        6 => FV::Offset(*rng.pick(&[0x0eu64, 0x1f, 0x1d, 0x1f21]), if fmt64 { rng.boundary_u64() } else { rng.boundary_u64() & 0xffff_ffff }),
        _ => {
            let f = *rng.pick(&[0x1au64, 0x25, 0x26, 0x27, 0x28, 0x1f02]);
            let v = rng.boundary_u64();
            let v = match f {
                0x25 => v & 0xff,
                0x26 => v & 0xffff,
                0x27 => v & 0xff_ffff,
                0x28 => v & 0xffff_ffff,
                _ => v,
            };
            FV::Strx(f, v)
        }
    }
}

/// generated header with tables + what must be read back (None = only correspondence)
struct GenHdr {
    section: Vec<u8>,
    expect_dirs: Vec<String>,
    expect_files: Vec<String>,
}

fn gen_header(rng: &mut Rng, p: &P, prog: &[u8]) -> GenHdr {
    let mut f = param_block(p);
    let mut expect_dirs = Vec::new();
    let mut expect_files = Vec::new();
    let name = |rng: &mut Rng| -> Vec<u8> { (0..1 + rng.below(5)).map(|_| 1 + rng.below(255) as u8).collect() };
    if p.ver <= 4 {
        for _ in 0..rng.below(4) {
            let d = name(rng);
            expect_dirs.push(format!("str:{}", hex(&d)));
            f.extend_from_slice(&d);
            f.push(0);
        }
        f.push(0);
        for _ in 0..rng.below(4) {
            let n = name(rng);
            let (d, t, s) = (rng.boundary_u64(), rng.boundary_u64(), rng.boundary_u64());
            expect_files.push(format!("str:{};{d};{t};{s};{};~", hex(&n), hex(&[0u8; 16])));
            f.extend_from_slice(&n);
            f.push(0);
            uleb(&mut f, d);
            uleb(&mut f, t);
            uleb(&mut f, s);
        }
        f.push(0);
    } else {
        // directory table
        let mut cts: Vec<u64> = vec![1];
        for _ in 0..rng.below(3) {
            cts.push(*rng.pick(&[2u64, 3, 4, 5, 0x2001, 6, 0x2000, 0x1_0000, u64::MAX]));
        }
        let k = rng.below(cts.len() as u64) as usize;
        cts.swap(0, k);
        let count = rng.below(4);
        let mut formats: Vec<u64> = Vec::new();
        let mut rows: Vec<Vec<FV>> = (0..count).map(|_| Vec::new()).collect();
        for ct in &cts {
            let proto = random_fv(rng, p.fmt64, *ct == 1);
            formats.push(proto.form());
            for r in rows.iter_mut() {
                // same form for the whole column
                let mut v = random_fv(rng, p.fmt64, *ct == 1);
                let mut guard = 0;
                while v.form() != proto.form() && guard < 200 {
                    v = random_fv(rng, p.fmt64, *ct == 1);
                    guard += 1;
                }
                r.push(if v.form() == proto.form() { v } else { proto.clone() });
            }
        }
        f.push(cts.len() as u8);
        for (ct, form) in cts.iter().zip(formats.iter()) {
            uleb(&mut f, *ct);
            uleb(&mut f, *form);
        }
        uleb(&mut f, count);
        for r in &rows {
            for (ct, v) in cts.iter().zip(r.iter()) {
                v.encode(p.big, p.fmt64, &mut f);
                if *ct == 1 {
                    expect_dirs.push(v.expect());
                }
            }
        }
        // file table
        let mut cts: Vec<u64> = vec![1];
        for _ in 0..rng.below(5) {
            cts.push(*rng.pick(&[2u64, 3, 4, 5, 0x2001, 2, 3, 4, 5, 6, 0x2000, 0x1_0000]));
        }
        let k = rng.below(cts.len() as u64) as usize;
        cts.swap(0, k);
        let count = rng.below(4);
        let mut formats: Vec<u64> = Vec::new();
        let mut rows: Vec<Vec<FV>> = (0..count).map(|_| Vec::new()).collect();
        for ct in &cts {
            let md5_block = *ct == 5 && rng.chance(1, 3);
            let proto = if md5_block {
                // MD5 written as a block: only exactly 16 bytes count
                FV::Block(*rng.pick(&[0x0au64, 0x03, 0x04, 0x09]), vec![])
            } else if *ct == 5 && rng.chance(3, 4) {
                FV::Data16(vec![0; 16])
            } else {
                random_fv(rng, p.fmt64, *ct == 1)
            };
            formats.push(proto.form());
            for r in rows.iter_mut() {
                let mut v = if md5_block {
                    let n = *rng.pick(&[0usize, 15, 16, 16, 17, 32]);
                    FV::Block(proto.form(), rng.bytes(n))
                } else if matches!(proto, FV::Data16(_)) {
                    FV::Data16(rng.bytes(16))
                } else {
                    random_fv(rng, p.fmt64, *ct == 1)
                };
                let mut guard = 0;
                while v.form() != proto.form() && guard < 200 {
                    v = random_fv(rng, p.fmt64, *ct == 1);
                    guard += 1;
                }
                r.push(if v.form() == proto.form() { v } else { proto.clone() });
            }
        }
        f.push(cts.len() as u8);
        for (ct, form) in cts.iter().zip(formats.iter()) {
            uleb(&mut f, *ct);
            uleb(&mut f, *form);
        }
        uleb(&mut f, count);
        for r in &rows {
            let (mut path, mut dir, mut ts, mut size, mut md5, mut source) = (String::new(), 0u64, 0u64, 0u64, vec![0u8; 16], "~".to_string());
            for (ct, v) in cts.iter().zip(r.iter()) {
                v.encode(p.big, p.fmt64, &mut f);
                match ct {
                    1 => path = v.expect(),
                    2 => dir = v.udata().unwrap_or(dir),
                    3 => ts = v.udata().unwrap_or(ts),
                    4 => size = v.udata().unwrap_or(size),
                    5 => {
                        if let FV::Block(_, b) | FV::Data16(b) = v {
                            if b.len() == 16 {
                                md5 = b.clone();
                            }
                        }
                    }
                    0x2001 => source = v.expect(),
                    _ => {}
                }
            }
            expect_files.push(format!("{path};{dir};{ts};{size};{};{source}", hex(&md5)));
        }
    }
    let section = wrap_unit(p.big, p.fmt64, p.ver, if p.ver >= 5 { Some((p.asz as u8, 0)) } else { None }, &f, prog);
    GenHdr { section, expect_dirs, expect_files }
}

// ---------------------------------------------------------------------------------------------
// the ops
// ---------------------------------------------------------------------------------------------

pub fn handle(op: &str, a: &[&str]) -> Option<String> {
    match (op, a) {
        ("line-rows", [ps, prog]) | ("line-seqs", [ps, prog]) => {
            let p = P::parse(ps)?;
            let prog = unhex(prog)?;
            if !p.buildable() {
                return Some("bad-args".into());
            }
            let sec = build_section(&p, &prog);
            let dl = DebugLine::new(&sec, p.endian());
            let program = match dl.program(DebugLineOffset(0), p.asz as u8, None, None) {
                Ok(x) => x,
                Err(e) => return Some(format!("err {}", rerr(&e))),
            };
            let mut o = None;
            if program.header().raw_program_buf().slice() != &prog[..] {
                o = Some("hdr-program-buf".to_string());
            }
            let (evs, seq_txt, o2) = run_all(program, prog.len() + 2);
            let o = o.or(pick(o2));
            if op == "line-rows" {
                Some(with_oracle(format!("ok {}", evs_s(&evs)), o))
            } else {
                Some(with_oracle(seq_txt, o))
            }
        }
        ("line-instrs", [ps, prog]) => {
            let p = P::parse(ps)?;
            let prog = unhex(prog)?;
            if !p.buildable() {
                return Some("bad-args".into());
            }
            let sec = build_section(&p, &prog);
            let dl = DebugLine::new(&sec, p.endian());
            let program = match dl.program(DebugLineOffset(0), p.asz as u8, None, None) {
                Ok(x) => x,
                Err(e) => return Some(format!("err {}", rerr(&e))),
            };
            let h = program.header();
            let mut it = h.instructions();
            let mut t: Vec<String> = Vec::new();
            let mut guard = 0usize;
            loop {
                guard += 1;
                if guard > prog.len() + 2 {
                    t.push("steps".into());
                    break;
                }
                match it.next_instruction(h) {
                    Ok(None) => {
                        t.push("end".into());
                        break;
                    }
                    Err(e) => {
                        t.push(format!("err:{}", rerr(&e)));
                        // "all subsequent calls return Ok(None)"
                        if !matches!(it.next_instruction(h), Ok(None)) {
                            return Some(with_oracle(format!("ok {}", t.join(" ")), Some("instr-after-error".into())));
                        }
                        break;
                    }
                    Ok(Some(i)) => t.push(match i {
                        LineInstruction::Special(n) => format!("sp:{n}"),
                        LineInstruction::Copy => "cp".into(),
                        LineInstruction::AdvancePc(n) => format!("apc:{n}"),
                        LineInstruction::AdvanceLine(n) => format!("al:{n}"),
                        LineInstruction::SetFile(n) => format!("sf:{n}"),
                        LineInstruction::SetColumn(n) => format!("sc:{n}"),
                        LineInstruction::NegateStatement => "ns".into(),
                        LineInstruction::SetBasicBlock => "bb".into(),
                        LineInstruction::ConstAddPc => "cap".into(),
                        LineInstruction::FixedAddPc(n) => format!("fap:{n}"),
                        LineInstruction::SetPrologueEnd => "pe".into(),
                        LineInstruction::SetEpilogueBegin => "eb".into(),
                        LineInstruction::SetIsa(n) => format!("isa:{n}"),
                        LineInstruction::UnknownStandard0(op) => format!("u0:{}", op.0),
                        LineInstruction::UnknownStandard1(op, a) => format!("u1:{}:{a}", op.0),
                        LineInstruction::UnknownStandardN(op, a) => format!("unx:{}:{}", op.0, hex(a.slice())),
                        LineInstruction::EndSequence => "es".into(),
                        LineInstruction::SetAddress(a) => format!("sa:{a}"),
                        LineInstruction::DefineFile(f) => format!("df:{}", file_s(&f)),
                        LineInstruction::SetDiscriminator(n) => format!("sd:{n}"),
                        LineInstruction::UnknownExtended(op, d) => format!("ux:{}:{}", op.0, hex(d.slice())),
                    }),
                }
            }
            Some(format!("ok {}", t.join(" ")))
        }
        ("line-abs", [ps, toks @ ..]) => {
            let p = P::parse(ps)?;
            let mut is = Vec::new();
            for t in toks {
                is.push(I::parse(t)?);
            }
            if !p.buildable() {
                return Some("bad-args".into());
            }
            let prog = encode_prog(&p, &is);
            let sec = build_section(&p, &prog);
            let dl = DebugLine::new(&sec, p.endian());
            let program = match dl.program(DebugLineOffset(0), p.asz as u8, None, None) {
                Ok(x) => x,
                Err(e) => return Some(format!("err {}", rerr(&e))),
            };
            let (evs, _, mut o) = run_all(program, prog.len() + 2);
            if is.iter().all(|i| encodable(&p, i)) {
                if let Some(want) = naive_machine(&p, &is) {
                    let got: Vec<Ev> = want.into_iter().map(Ev::Row).collect();
                    if got != evs {
                        o.insert(0, format!("spec-rows want {}", evs_s(&got)));
                    }
                }
            }
            Some(with_oracle(format!("ok {} {}", hex(&prog), evs_s(&evs)), pick(o)))
        }
        ("line-hdr", [e, asz, off, cd, cn, sec]) => {
            let endian = match *e {
                "le" => RunTimeEndian::Little,
                "be" => RunTimeEndian::Big,
                _ => return None,
            };
            let asz: u8 = asz.parse().ok()?;
            let off: usize = off.parse().ok()?;
            let cd = if *cd == "~" { None } else { Some(unhex(cd)?) };
            let cn = if *cn == "~" { None } else { Some(unhex(cn)?) };
            let sec = unhex(sec)?;
            let dl = DebugLine::new(&sec, endian);
            let r = dl.program(
                DebugLineOffset(off),
                asz,
                cd.as_ref().map(|d| EndianSlice::new(&d[..], endian)),
                cn.as_ref().map(|d| EndianSlice::new(&d[..], endian)),
            );
            Some(match r {
                Ok(p) => format!("ok {}", header_s(p.header())),
                Err(e) => format!("err {}", rerr(&e)),
            })
        }
        ("line-hexp", [e, asz, sec, dirs, files]) => {
            // header with the tables the generator encoded: `dirs`/`files` are the expected texts
            let endian = match *e {
                "le" => RunTimeEndian::Little,
                "be" => RunTimeEndian::Big,
                _ => return None,
            };
            let asz: u8 = asz.parse().ok()?;
            let sec = unhex(sec)?;
            let dl = DebugLine::new(&sec, endian);
            let r = dl.program(DebugLineOffset(0), asz, None, None);
            Some(match r {
                Ok(p) => {
                    let h = p.header();
                    let d = list_s(h.include_directories(), attr_s);
                    let f = list_s(h.file_names(), file_s);
                    let o = if d != *dirs {
                        Some(format!("hdr-dirs got {d}"))
                    } else if f != *files {
                        Some(format!("hdr-files got {f}"))
                    } else {
                        None
                    };
                    with_oracle(format!("ok {d} {f}"), o)
                }
                Err(e) => with_oracle(format!("err {}", rerr(&e)), Some("hdr-rejected".into())),
            })
        }
        ("line-dump", [e, asz, off, sec, expect]) => {
            let endian = match *e {
                "le" => RunTimeEndian::Little,
                "be" => RunTimeEndian::Big,
                _ => return None,
            };
            let asz: u8 = asz.parse().ok()?;
            let off: usize = off.parse().ok()?;
            let sec = unhex(sec)?;
            let dl = DebugLine::new(&sec, endian);
            let program = match dl.program(DebugLineOffset(off), asz, None, None) {
                Ok(x) => x,
                Err(e) => return Some(with_oracle(format!("err {}", rerr(&e)), Some("dwarfdump-rejected".into()))),
            };
            let mut rows = program.rows();
            let evs = collect_rows!(rows, sec.len() + 2);
            let txt = list_s(&evs, |e| match e {
                Ev::Row(r) => format!("{},{},{},{},{},{},{}", r.address, r.line, r.column, r.file, r.isa, r.disc, r.flags),
                Ev::Err(e) => format!("err:{e}"),
                Ev::Steps => "steps".into(),
            });
            let o = if txt != *expect { Some(format!("dwarfdump-rows expected {expect}")) } else { None };
            Some(with_oracle(format!("ok {txt}"), o))
        }
        ("line-prog", [e, asz, sec]) => {
            let endian = match *e {
                "le" => RunTimeEndian::Little,
                "be" => RunTimeEndian::Big,
                _ => return None,
            };
            let asz: u8 = asz.parse().ok()?;
            let sec = unhex(sec)?;
            let dl = DebugLine::new(&sec, endian);
            let program = match dl.program(DebugLineOffset(0), asz, None, None) {
                Ok(x) => x,
                Err(e) => return Some(format!("err {}", rerr(&e))),
            };
            let (ver, hasz) = (program.header().version(), program.header().address_size());
            let cap = sec.len() + 2;
            // file table after the run
            let mut rows = program.clone().rows();
            let _ = collect_rows!(rows, cap);
            let files = list_s(rows.header().file_names(), file_s);
            let (evs, seq_txt, o) = run_all(program, cap);
            Some(with_oracle(format!("ok {ver} {hasz} {} / {seq_txt} / {files}", evs_s(&evs)), pick(o)))
        }
        _ => None,
    }
}

// ---------------------------------------------------------------------------------------------
// generator
// ---------------------------------------------------------------------------------------------

const STD_LENS: [u8; 12] = [0, 1, 1, 1, 1, 0, 0, 0, 1, 0, 0, 1];

fn gen_params(rng: &mut Rng, valid_only: bool) -> P {
    let ver = 2 + rng.below(4);
    let asz = *rng.pick(&[1u64, 2, 4, 8, 4, 8]);
    let byte = |rng: &mut Rng| -> u64 {
        match rng.below(6) {
            0 => 1,
            1 => *rng.pick(&[1u64, 2, 4, 8, 16, 127, 128, 254, 255]),
            _ => 1 + rng.below(255),
        }
    };
    let mut minlen = if rng.chance(1, 2) { *rng.pick(&[1u64, 1, 2, 4]) } else { byte(rng) };
    let mut maxops = if rng.chance(1, 2) { 1 } else { byte(rng) };
    let lbase = match rng.below(5) {
        0 => -5,
        1 => *rng.pick(&[-128i64, -127, -1, 0, 1, 126, 127, -3]),
        _ => rng.below(256) as i64 - 128,
    };
    let mut lrange = match rng.below(4) {
        0 => *rng.pick(&[14u64, 12, 10]),
        1 => *rng.pick(&[1u64, 2, 127, 128, 254, 255]),
        _ => 1 + rng.below(255),
    };
    let mut obase = match rng.below(5) {
        0 => 13,
        1 => *rng.pick(&[1u64, 2, 9, 10, 12, 14, 254, 255]),
        2 => 13 + rng.below(12),
        _ => 1 + rng.below(255),
    };
    if !valid_only {
        match rng.below(12) {
            0 => minlen = 0,
            1 => maxops = 0,
            2 => lrange = 0,
            3 => obase = 0,
            _ => {}
        }
    }
    let n = obase.saturating_sub(1) as usize;
    let arbitrary = rng.chance(1, 6);
    let stdlens: Vec<u8> = (0..n)
        .map(|i| {
            if arbitrary {
                *rng.pick(&[0u8, 1, 2, 3, 255, 7])
            } else if i < 12 {
                STD_LENS[i]
            } else {
                *rng.pick(&[0u8, 0, 1, 1, 2, 3, 5])
            }
        })
        .collect();
    P { big: rng.chance(1, 2), fmt64: rng.chance(1, 3), ver, asz, minlen, maxops, stmt: *rng.pick(&[0u64, 1, 1, 2, 255]), lbase, lrange, obase, stdlens }
}

fn amask(asz: u64) -> u64 {
    if asz >= 8 { u64::MAX } else { (1u64 << (8 * asz)) - 1 }
}

/// an abstract program; `tame` keeps operands small so that most programs are well-formed
fn gen_abs(rng: &mut Rng, p: &P, tame: bool) -> Vec<I> {
    let n = 1 + rng.below(if tame { 30 } else { 14 });
    let mask = amask(p.asz);
    let mut is = Vec::new();
    let mut addr: u64 = 0;
    let num = |rng: &mut Rng, tame: bool, cap: u64| -> u64 {
        if tame { rng.below(cap.max(1)) } else { rng.boundary_u64() }
    };
    if rng.chance(3, 4) {
        addr = if tame { rng.below(mask / 2 + 1) } else { rng.boundary_u64() & mask };
        is.push(I::SetAddress(addr));
    }
    if !tame && rng.chance(1, 6) {
        // drive the line register to the top of u64 so that the next advances wrap
        is.push(I::AdvanceLine(i64::MAX));
        is.push(I::AdvanceLine(i64::MAX));
        is.push(I::AdvanceLine(rng.below(4) as i64));
        is.push(I::Copy);
    }
    for _ in 0..n {
        let k = rng.below(100);
        let i = match k {
            0..=24 => {
                if p.obase <= 255 && p.obase > 0 {
                    I::Special(p.obase + rng.below(256 - p.obase))
                } else {
                    I::Copy
                }
            }
            25..=32 => I::Copy,
            33..=40 => I::AdvancePc(num(rng, tame, 300)),
            41..=48 => I::AdvanceLine(if tame { rng.below(40) as i64 - 8 } else { rng.boundary_i64() }),
            49..=52 => I::SetFile(num(rng, tame, 10)),
            53..=56 => I::SetColumn(num(rng, tame, 200)),
            57..=59 => I::NegateStmt,
            60..=61 => I::BasicBlock,
            62..=65 => I::ConstAddPc,
            66..=69 => I::FixedAddPc(if tame { rng.below(300) } else { *rng.pick(&[0u64, 1, 0xff, 0x100, 0xfffe, 0xffff]) }),
            70..=71 => I::PrologueEnd,
            72..=73 => I::EpilogueBegin,
            74..=75 => I::SetIsa(num(rng, tame, 5)),
            76..=80 => I::EndSequence,
            81..=85 => {
                let a = match rng.below(if tame { 3 } else { 8 }) {
                    0 | 1 | 2 => addr.saturating_add(rng.below(5000)) & mask,
                    3 => mask,
                    4 => mask - 1,
                    5 => mask.saturating_sub(2),
                    6 => 0,
                    _ => rng.boundary_u64() & mask,
                };
                addr = a;
                I::SetAddress(a)
            }
            86..=88 => I::SetDiscriminator(num(rng, tame, 9)),
            89..=90 => I::DefineFile((0..1 + rng.below(4)).map(|_| 1 + rng.below(255) as u8).collect(), num(rng, tame, 4), num(rng, tame, 100), num(rng, tame, 1000)),
            91..=93 => I::UnknownExt(*rng.pick(&[5u64, 0x80, 0xff, 0, 6, 3]), rng.bytes_below(5)),
            _ => {
                // unknown standard opcode, operand count from the table
                if p.obase > 13 {
                    let op = 13 + rng.below(p.obase - 13);
                    match p.stdlens.get(op as usize - 1).copied().unwrap_or(0) {
                        0 => I::Unknown0(op),
                        1 => I::Unknown1(op, rng.boundary_u64()),
                        k => I::UnknownN(op, (0..k).map(|_| rng.boundary_u64()).collect()),
                    }
                } else {
                    I::NegateStmt
                }
            }
        };
        is.push(i);
    }
    if rng.chance(4, 5) {
        is.push(I::EndSequence);
    }
    is
}

/// raw program bytes biased towards meaningful opcodes
fn gen_raw(rng: &mut Rng, p: &P) -> Vec<u8> {
    let n = rng.below(40);
    let mut out = Vec::new();
    for _ in 0..n {
        match rng.below(10) {
            0..=3 => {
                let tame = rng.chance(1, 2);
                let is = gen_abs(rng, p, tame);
                let i = rng.pick(&is).clone();
                i.encode(p, &mut out);
            }
            4 => out.push(rng.next() as u8),
            5 => out.extend_from_slice(&[0, 1, 1]),
            6 => {
                // set_address with interesting values
                let a = *rng.pick(&[0u64, 1, amask(p.asz), amask(p.asz) - 1, amask(p.asz) - 2, amask(p.asz) / 2, 0x1000]);
                I::SetAddress(a).encode(p, &mut out);
            }
            7 => {
                out.push(*rng.pick(&[2u8, 3, 4, 5, 12, 9, 0]));
                let v = rng.boundary_u64();
                uleb(&mut out, v);
            }
            8 => {
                // extended opcode frames with lengths that do not match the operand: padding after
                // the operand, operands cut short, zero length, length beyond the input
                let sub = *rng.pick(&[1u8, 2, 2, 3, 4, 5, 0x80, 0]);
                let len = rng.below(14);
                out.push(0);
                uleb(&mut out, if rng.chance(1, 12) { rng.boundary_u64() } else { len });
                if len > 0 {
                    out.push(sub);
                    let body = rng.bytes(len as usize - 1);
                    out.extend(body);
                }
            }
            _ => out.push(*rng.pick(&[1u8, 8, 8, 255, 254, 13, 12, 6])),
        }
    }
    out
}

fn mutate(rng: &mut Rng, bs: &[u8]) -> Vec<u8> {
    let mut b = bs.to_vec();
    if b.is_empty() {
        return b;
    }
    match rng.below(5) {
        0 => {
            let k = rng.below(b.len() as u64) as usize;
            b.truncate(k);
        }
        1 => {
            let k = rng.below(b.len() as u64) as usize;
            b[k] = *rng.pick(&[0u8, 1, 0x7f, 0x80, 0xff, 0xfe, 2, 5]);
        }
        2 => {
            let k = rng.below(b.len() as u64) as usize;
            b[k] = b[k].wrapping_add(1);
        }
        3 => {
            let k = rng.below(b.len() as u64) as usize;
            b.remove(k);
        }
        _ => {
            let k = rng.below(b.len() as u64) as usize;
            b.insert(k, rng.next() as u8);
        }
    }
    b
}

const C_SOURCES: &[&str] = &[
    "static int sq(int x) { return x * x; }\nint unused_fn(int y) { int s = 0; for (int i = 0; i < y; i++) s += sq(i); return s; }\nint main(int argc, char **argv) {\n  int t = 0;\n  for (int i = 0; i < argc; i++) { t += sq(i); if (t > 100) t -= 7; }\n  return t;\n}\n",
    "struct P { int a; long b; };\nstatic long f(struct P *p, int n) {\n  long r = 0;\n  while (n-- > 0) {\n    switch (n & 3) {\n    case 0: r += p->a; break;\n    case 1: r -= p->b; break;\n    default: r ^= n; break;\n    }\n  }\n  return r;\n}\nlong g(int n) { struct P p = { n, 2L * n }; return f(&p, n); }\nvolatile int sink;\nint main(void) { sink = (int)g(17); return 0; }\n",
    "#line 100 \"one.c\"\nint a(int x) { return x + 1; }\n#line 7 \"two.c\"\nint b(int x) {\n  if (x > 3)\n    return a(x) * 2;\n  return a(x);\n}\n#line 300 \"one.c\"\nint main(int c, char **v) { return b(c) + (v != 0); }\n",
];

/// compile small C programs, let `llvm-dwarfdump --debug-line` decode their line tables and
/// emit `line-dump` cases carrying the section bytes and the rows the tool printed
/// (supporting check that the Spec-level meaning is what other consumers read; skipped silently
/// when the tools are missing)
fn gen_dwarfdump(ctx: &Ctx, emit: &mut dyn FnMut(String)) {
    use std::process::Command;
    let have = |t: &str| Command::new(t).arg("--version").output().map(|o| o.status.success()).unwrap_or(false);
    if !have("llvm-dwarfdump") || !have("objcopy") {
        return;
    }
    let dir = std::path::PathBuf::from(format!("/var/tmp/gvh-c04-dump-{}", std::process::id()));
    let _ = std::fs::remove_dir_all(&dir);
    if std::fs::create_dir_all(&dir).is_err() {
        return;
    }
    let mut variants: Vec<(&str, u32, &str, bool)> = Vec::new();
    for cc in ["gcc", "clang"] {
        if !have(cc) {
            continue;
        }
        for dw in [2u32, 3, 4, 5] {
            for opt in ["-O0", "-O2"] {
                for gc in [false, true] {
                    variants.push((cc, dw, opt, gc));
                }
            }
        }
    }
    if ctx.tier == Tier::Quick {
        // a spread: every version, both compilers, both optimisation levels
        variants = variants.into_iter().enumerate().filter(|(i, _)| i % 5 == 0).map(|(_, v)| v).collect();
    }
    for (si, src) in C_SOURCES.iter().enumerate() {
        let c = dir.join(format!("s{si}.c"));
        if std::fs::write(&c, src).is_err() {
            continue;
        }
        for (vi, (cc, dw, opt, gc)) in variants.iter().enumerate() {
            let exe = dir.join(format!("s{si}v{vi}"));
            let mut cmd = Command::new(cc);
            cmd.arg("-g").arg(format!("-gdwarf-{dw}")).arg(opt).arg(&c).arg("-o").arg(&exe);
            if *gc {
                cmd.arg("-ffunction-sections").arg("-Wl,--gc-sections");
            }
            if !cmd.output().map(|o| o.status.success()).unwrap_or(false) {
                continue;
            }
            let secf = dir.join(format!("s{si}v{vi}.line"));
            let ok = Command::new("objcopy").arg("--dump-section").arg(format!(".debug_line={}", secf.display())).arg(&exe).arg(dir.join("discard")).output().map(|o| o.status.success()).unwrap_or(false);
            let Ok(sec) = std::fs::read(&secf) else { continue };
            if !ok || sec.is_empty() || sec.len() > 60_000 {
                continue;
            }
            let Ok(out) = Command::new("llvm-dwarfdump").arg("--debug-line").arg(&exe).output() else { continue };
            let text = String::from_utf8_lossy(&out.stdout).to_string();
            // parse: `debug_line[0x<off>]`, then a header line `Address Line Column File ISA Discriminator [OpIndex] Flags`
            let mut off: Option<u64> = None;
            let mut cols: Vec<String> = Vec::new();
            let mut rows: Vec<String> = Vec::new();
            let mut in_rows = false;
            let mut flush = |off: &mut Option<u64>, rows: &mut Vec<String>, emit: &mut dyn FnMut(String)| {
                if let Some(o) = off.take() {
                    let r = if rows.is_empty() { "~".to_string() } else { rows.join("|") };
                    emit(format!("line-dump le 8 {o} {} {r}", hex(&sec)));
                }
                rows.clear();
            };
            for l in text.lines() {
                if let Some(rest) = l.strip_prefix("debug_line[0x") {
                    flush(&mut off, &mut rows, emit);
                    in_rows = false;
                    off = u64::from_str_radix(rest.trim_end_matches(']'), 16).ok();
                } else if l.starts_with("Address") {
                    cols = l.split_whitespace().map(|s| s.to_string()).collect();
                } else if l.starts_with("------") {
                    in_rows = true;
                } else if in_rows {
                    let t: Vec<&str> = l.split_whitespace().collect();
                    if t.is_empty() || !t[0].starts_with("0x") {
                        in_rows = false;
                        continue;
                    }
                    let ncols = cols.len().saturating_sub(1); // without "Flags"
                    if t.len() < ncols {
                        continue;
                    }
                    let get = |name: &str| -> u64 {
                        cols.iter().position(|c| c == name).and_then(|i| t.get(i)).and_then(|v| v.parse().ok()).unwrap_or(0)
                    };
                    let addr = u64::from_str_radix(&t[0][2..], 16).unwrap_or(0);
                    let mut flags = 0u64;
                    for f in &t[ncols..] {
                        flags |= match *f {
                            "is_stmt" => 1,
                            "basic_block" => 2,
                            "end_sequence" => 4,
                            "prologue_end" => 8,
                            "epilogue_begin" => 16,
                            _ => 0,
                        };
                    }
                    rows.push(format!("{addr},{},{},{},{},{},{flags}", get("Line"), get("Column"), get("File"), get("ISA"), get("Discriminator")));
                }
            }
            flush(&mut off, &mut rows, emit);
        }
    }
    let _ = std::fs::remove_dir_all(&dir);
}

pub fn gen(ctx: &Ctx, emit: &mut dyn FnMut(String)) {
    let mut rng = ctx.rng(4);
    let e = |big: bool| if big { "be" } else { "le" };

    // 1. sampled headers x all 256 opcode values (exhaustive per header), from a non-trivial state
    let headers = ctx.n(110, 3000);
    for hi in 0..headers {
        let p = gen_params(&mut rng, hi % 10 != 9);
        let ptok = p.token();
        let mask = amask(p.asz);
        let mut prefix = Vec::new();
        let start = match rng.below(4) {
            0 => 0,
            1 => mask.saturating_sub(2 + rng.below(600)),
            _ => rng.below(mask / 2 + 1),
        };
        I::SetAddress(start).encode(&p, &mut prefix);
        if rng.chance(1, 2) {
            I::AdvanceLine(rng.below(300) as i64).encode(&p, &mut prefix);
        }
        if rng.chance(1, 2) && p.obase > 2 {
            I::AdvancePc(rng.below(700)).encode(&p, &mut prefix);
        }
        // operand-shaped tail: a ULEB-ish number, then copy, then end_sequence
        let mut tail = Vec::new();
        match rng.below(3) {
            0 => tail.extend_from_slice(&[0x05, 0x02, 0x11, 0x22, 0x33, 0x44, 0x55, 0x66, 0x77, 0x00]),
            1 => {
                uleb(&mut tail, rng.boundary_u64());
                uleb(&mut tail, rng.below(300));
                uleb(&mut tail, rng.boundary_u64());
            }
            _ => tail.extend(rng.bytes(6)),
        }
        tail.extend_from_slice(&[1, 0, 1, 1]);
        for b in 0..=255u8 {
            let mut prog = prefix.clone();
            prog.push(b);
            prog.extend_from_slice(&tail);
            emit(format!("line-rows {ptok} {}", hex(&prog)));
        }
        // the same header: sequences over a raw program
        let raw = gen_raw(&mut rng, &p);
        emit(format!("line-seqs {ptok} {}", hex(&raw)));
    }

    // 2. abstract programs (Spec encoding on the Model side, naive machine on the Rust side)
    let n = ctx.n(7000, 300_000);
    for i in 0..n {
        let p = gen_params(&mut rng, true);
        let tame = i % 10 < 7;
        let is = gen_abs(&mut rng, &p, tame);
        let toks: Vec<String> = is.iter().map(|i| i.token()).collect();
        emit(format!("line-abs {} {}", p.token(), toks.join(" ")));
        if i % 2 == 0 {
            emit(format!("line-seqs {} {}", p.token(), hex(&encode_prog(&p, &is))));
        } else {
            emit(format!("line-instrs {} {}", p.token(), hex(&encode_prog(&p, &is))));
        }
    }

    // 3. raw / arbitrary bytes for the any-input clauses
    let n = ctx.n(5000, 200_000);
    for i in 0..n {
        let p = gen_params(&mut rng, i % 20 != 0);
        let raw = if i % 4 == 0 { rng.bytes_below(24) } else { gen_raw(&mut rng, &p) };
        emit(format!("line-rows {} {}", p.token(), hex(&raw)));
        emit(format!("line-seqs {} {}", p.token(), hex(&raw)));
        emit(format!("line-instrs {} {}", p.token(), hex(&raw)));
    }

    // 4. headers with tables: correspondence (line-hdr), intent oracle (line-hexp), then every
    //    truncation and random mutations; whole units from raw bytes (line-prog)
    let n = ctx.n(1200, 40_000);
    for i in 0..n {
        let p = gen_params(&mut rng, true);
        let is = gen_abs(&mut rng, &p, true);
        let prog = encode_prog(&p, &is);
        let g = gen_header(&mut rng, &p, &prog);
        let sec = &g.section;
        let cd = if rng.chance(1, 2) { "~".to_string() } else { hex(b"/cd") };
        let cn = if rng.chance(1, 2) { "~".to_string() } else { hex(b"a.c") };
        emit(format!("line-hdr {} {} 0 {cd} {cn} {}", e(p.big), p.asz, hex(sec)));
        let lst = |v: &Vec<String>| if v.is_empty() { "~".to_string() } else { v.join("|") };
        emit(format!("line-hexp {} {} {} {} {}", e(p.big), p.asz, hex(sec), lst(&g.expect_dirs), lst(&g.expect_files)));
        emit(format!("line-prog {} {} {}", e(p.big), p.asz, hex(sec)));
        if i % 8 == 0 {
            // truncation at every byte of the header part
            let hdr_len = sec.len() - prog.len();
            for k in 0..hdr_len.min(120) {
                emit(format!("line-hdr {} {} 0 ~ ~ {}", e(p.big), p.asz, hex(&sec[..k])));
            }
        }
        for _ in 0..3 {
            let m = mutate(&mut rng, sec);
            emit(format!("line-hdr {} {} 0 {cd} {cn} {}", e(p.big), p.asz, hex(&m)));
            emit(format!("line-prog {} {} {}", e(p.big), p.asz, hex(&m)));
        }
        if i % 16 == 0 {
            // offsets: a second unit behind some padding
            let mut two = rng.bytes_below(5);
            let off = two.len();
            two.extend_from_slice(sec);
            emit(format!("line-hdr {} {} {off} ~ ~ {}", e(p.big), p.asz, hex(&two)));
            emit(format!("line-hdr {} {} {} ~ ~ {}", e(p.big), p.asz, two.len() + rng.below(3) as usize, hex(&two)));
        }
    }
    // arbitrary bytes as a section
    let n = ctx.n(500, 20_000);
    for _ in 0..n {
        let mut bs = rng.bytes_below(40);
        if rng.chance(1, 2) && bs.len() > 6 {
            // plausible length + version
            bs[0] = (bs.len() - 4) as u8;
            bs[1] = 0;
            bs[2] = 0;
            bs[3] = 0;
            bs[4] = 2 + rng.below(4) as u8;
            bs[5] = 0;
        }
        emit(format!("line-prog le {} {}", *rng.pick(&[1u8, 2, 4, 8]), hex(&bs)));
    }
    gen_dwarfdump(ctx, emit);
    if ctx.tier == Tier::Thorough {
        // exhaustive header parameters that matter for special opcodes on one fixed program:
        // every line_range x a spread of line_base/opcode_base
        for lrange in 1..=255u64 {
            for obase in [1u64, 10, 13, 200, 255] {
                let mut p = gen_params(&mut rng, true);
                p.lrange = lrange;
                p.obase = obase;
                p.stdlens = (0..obase as usize - 1).map(|i| if i < 12 { STD_LENS[i] } else { 0 }).collect();
                let mut prog = Vec::new();
                for b in (p.obase..=255).step_by(7) {
                    prog.push(b as u8);
                }
                emit(format!("line-rows {} {}", p.token(), hex(&prog)));
            }
        }
    }
}
